"""C08 — a gene rule is a Boolean function and its text form is faithful (bounded stand-in driver).

Space
  trees      : EVERY and/or tree with <= 4 leaves (depth <= 3; 1/1/3/11 ordered shapes for 1..4 leaves, internal nodes with
               >= 2 children) x every and/or labelling of the internal nodes x every assignment of gene *indices* to the
               leaves up to renaming (restricted growth strings: 1/2/5/15)  ->  1 + 4 + 50 + 930 = 985 abstract trees.
  identifiers: the pool `IDS` covers every class the statement names (letters, digits, leading digit, every Python keyword
               incl. None/True/False, and-/or-like words, dot, dash, colon, slash, both quotes, equals, and combinations
               such as keyword-after-dot).  An abstract tree is instantiated with the alphabet
               (IDS[o], IDS[o+1], IDS[o+2], IDS[o+3]) for offsets o: trees with <= 3 leaves get EVERY offset (so every
               identifier occurs at every leaf of every such tree), 4-leaf trees get `alphabets4` offsets that rotate with
               the tree number and the seed (quick 12, thorough 46); 3-leaf trees: every second offset in the quick tier.
  spellings  : and in {and, AND, &} x or in {or, OR, |} x parentheses in {minimal, every operator node, redundant (doubled,
               leaves too)} x blanks in {single, extra (several blanks, blanks inside parentheses, leading/trailing), tight
               (no blanks around & | and parentheses)} = 81, deduplicated by text; 4-leaf trees use a rotating orthogonal
               third (27) in the quick tier.  Minimal parentheses rely only on "and binds tighter than or" within one
               operator family (and/or/AND/OR, resp. &/|); between the word and the symbol family parentheses are always
               written.
  knock-outs : every subset of the genes of the rule (<= 16), plus a foreign gene added to the empty and the full set.

Oracle: `_sem` — an independent recursive evaluator on the generator's own tree (never cobra's parser, GPR.eval or sympy).

Checks (statement of C08, nothing more)
  parse/eval : GPR.from_string(text).eval(absent) == value of the tree, for every subset          key "eval"
  genes      : .genes == identifiers occurring in the tree                                        key "genes"
  per distinct parsed AST (all spellings of a tree that give the same AST share it):
  text       : from_string(to_string()) and from_string(str())                                    key "text-roundtrip"
  copy       : .copy(), copy.copy, copy.deepcopy                                                  key "copy"
  pickle     : pickle of the GPR; pickle and .copy() of a Reaction carrying the rule
               (Reaction.__getstate__/__setstate__ store the rule as text)                        key "pickle" / "reaction-pickle"
  symbolic   : from_symbolic(as_symbolic())                                                       key "symbolic"
               each variant: same truth table as the TREE, same gene set, `original == variant` is True
               (and `variant == original` for the text round trip)
  equal => equivalent: all ordered pairs of the 291 trees with <= 3 leaves over 3 identifiers (+ seeded 4-leaf pairs):
               if `r1 == r2` then the two trees have the same truth table over the union of genes  key "eq-implies-equiv"
  remove_genes: models whose reactions carry the 985 trees (one alphabet per model) x every non-empty subset S of the four
               genes x remove_reactions in {True, False} x genes given as ids / objects: every reaction whose tree is
               still true with S absent is still in the model and its new rule r' satisfies
               r'.eval(K) == tree(K | S) for every K (as a function of all four genes)            key "remove-genes"

A raised exception in any step is a failure of that step's key.

Witness protocol: every failure carries "witness", the exact failing input (`rule('<text>')`, `pair('<rule>', '<rule>')`,
`remove('<rule>', without=<genes>, remove_reactions=<bool>, as_objects=<bool>)`).  The class
`remove-genes:symbol-operators` (decided on the input: the rule text contains & or |) is pinned by the FIXED, seed-independent
list `fixed_removal_cases()` (every tree with <= 3 leaves over a, b, c typed with symbol operators in four ways, every
non-empty subset, both remove_reactions settings), every failing member of which is reported; members of the class met in the
seeded part carry the witness "random:remove-genes:symbol-operators".  One failure is kept per distinct witness.
"""
import itertools
import keyword
import os
import pickle
import random
import time
import warnings

KNOWN_KEYS = set()
# classes decided on the INPUT (see NOTES_C08.md); in the seeded part their members carry the witness "random:<class>"
INPUT_CLASS_KEYS = {"remove-genes:symbol-operators"}
SEEDED_CAP = 2000      # distinct witnesses kept per key from the seeded part (the fixed part is never capped)

# ----------------------------------------------------------------------------------------------------------------------
# identifier pool
# ----------------------------------------------------------------------------------------------------------------------
_KW = [k for k in keyword.kwlist if k not in ("and", "or")]          # 33 hard keywords incl. None/True/False
_PLAIN = ["a", "b", "G1", "gene_1", "b0001", "STM1234", "YAL001W", "x_", "_x", "é", "Zz9"]
_ANDLIKE = ["android", "orange", "band", "nor", "operand", "oracle", "BRAND", "ORF1", "XOR", "ANDROID", "And", "Or", "notx", "isa",
            "ifx", "xin", "None1", "true", "none", "match", "case", "type"]
_DIGIT = ["1", "123", "1abc", "007", "1e5", "0x10", "1_000", "2b", "9_", "4and", "3or", "1None"]
_SPECIAL = ["a.b", ".a", "a.", "a-b", "-a", "a-", "a:b", ":a", "a:", "a/b", "/a", "a/", "a'b", "'a", "a'", 'a"b', '"a', 'a"',
            "a=b", "=a", "a="]
_COMBO = ["a.None", "None.a", "x.if", "if.x", "is-a", "not-x", "in:1", "lambda/2", "x=None", "True'", '"False"', "1.5", "a.1",
          "1.a", "1-2", "2:3", "1/2", "-1", "a-1b", "g.1-2:3/4", "a.and", "or.b", "and-1", "x.or.y", "AND-1", "x.OR", "1.if",
          "for.in", "'None'", "a.b.c", "a--b", "a..b", "is=not", "del/1", "3'", "5\"", "class.1", "e-5", "1e-5", "x.__y__"]
IDS = _PLAIN + _KW + _ANDLIKE + _DIGIT + _SPECIAL + _COMBO
assert len(set(IDS)) == len(IDS)

AND_TOK = ["and", "AND", "&"]
OR_TOK = ["or", "OR", "|"]
PAREN = ["min", "full", "redundant"]
BLANK = ["normal", "extra", "tight"]
SPELLINGS = list(itertools.product(range(3), range(3), range(3), range(3)))                 # 81
# orthogonal thirds of the 81 spellings: the 4th factor is determined by the other three (strength-3 array)
THIRDS = [[s for s in SPELLINGS if (s[0] + s[1] + s[2] + s[3]) % 3 == k] for k in range(3)]


def _quiet():
    warnings.filterwarnings("ignore")
    import logging
    logging.disable(logging.CRITICAL)


# ----------------------------------------------------------------------------------------------------------------------
# trees: ("L", idx) | ("and"|"or", [children])
# ----------------------------------------------------------------------------------------------------------------------
def _compositions(n, k_min=2):
    """ordered ways to write n as a sum of >= k_min positive parts"""
    def rec(rest, parts):
        if rest == 0:
            if len(parts) >= k_min:
                yield tuple(parts)
            return
        for p in range(1, rest + 1):
            yield from rec(rest - p, parts + [p])
    return rec(n, [])


def _shapes(n):
    if n == 1:
        return ["L"]
    out = []
    for comp in _compositions(n):
        for kids in itertools.product(*[_shapes(p) for p in comp]):
            out.append(("N", list(kids)))
    return out


def _n_internal(shape):
    return 0 if shape == "L" else 1 + sum(_n_internal(c) for c in shape[1])


def _rgs(n):
    """restricted growth strings of length n (set partitions = gene assignments up to renaming)"""
    def rec(prefix, mx):
        if len(prefix) == n:
            yield tuple(prefix)
            return
        for v in range(mx + 2):
            yield from rec(prefix + [v], max(mx, v))
    return list(rec([0], 0)) if n else [()]


def _label(shape, ops, leaves):
    ops, leaves = iter(ops), iter(leaves)

    def rec(s):
        if s == "L":
            return ("L", next(leaves))
        op = next(ops)
        return (op, [rec(c) for c in s[1]])
    return rec(shape)


def abstract_trees(n_leaves, all_assignments=False, n_genes=None):
    """every labelled tree with n_leaves leaves; leaves carry gene indices (canonical up to renaming unless all_assignments)"""
    out = []
    for shape in _shapes(n_leaves):
        k = _n_internal(shape)
        assigns = (list(itertools.product(range(n_genes), repeat=n_leaves)) if all_assignments else _rgs(n_leaves))
        for ops in itertools.product(("and", "or"), repeat=k):
            for leaves in assigns:
                out.append(_label(shape, ops, leaves))
    return out


def _depth(t):
    return 0 if t[0] == "L" else 1 + max(_depth(c) for c in t[1])


def _leaves(t):
    return [t[1]] if t[0] == "L" else [x for c in t[1] for x in _leaves(c)]


def _sem(t, absent):
    """the oracle: value of the tree when the gene indices in `absent` are absent"""
    if t[0] == "L":
        return t[1] not in absent
    if t[0] == "and":
        for c in t[1]:
            if not _sem(c, absent):
                return False
        return True
    for c in t[1]:
        if _sem(c, absent):
            return True
    return False


def _table(t, n):
    """truth table over gene indices 0..n-1, keyed by the absent-set bit mask"""
    return tuple(_sem(t, {i for i in range(n) if mask >> i & 1}) for mask in range(1 << n))


def tree_json(t):
    return ["L", t[1]] if t[0] == "L" else [t[0], [tree_json(c) for c in t[1]]]


def tree_from_json(j):
    return ("L", int(j[1])) if j[0] == "L" else (j[0], [tree_from_json(c) for c in j[1]])


_FAMILY = {"and": "w", "or": "w", "AND": "w", "OR": "w", "&": "s", "|": "s"}


def render(t, ids, spelling):
    """text of the tree in one spelling (ia, io, ip, ib)"""
    ia, io, ip, ib = spelling
    tok = {"and": AND_TOK[ia], "or": OR_TOK[io]}
    paren, blank = PAREN[ip], BLANK[ib]
    lp, rp = ("( ", "  )") if blank == "extra" else ("(", ")")

    def sep(tk):
        if blank == "extra":
            return f"  {tk}   "
        if blank == "tight" and _FAMILY[tk] == "s":
            return tk
        return f" {tk} "

    def rec(node, parent_op, root):
        if node[0] == "L":
            s = ids[node[1]]
            return lp + s + rp if paren == "redundant" else s
        tk = tok[node[0]]
        s = sep(tk).join(rec(c, node[0], False) for c in node[1])
        if paren == "redundant":
            return lp + lp + s + rp + rp
        if root:
            return s
        if paren == "full":
            return lp + s + rp
        # minimal: same operator nested -> no parentheses; "and" inside "or" within one token family -> none either
        if node[0] == parent_op:
            return s
        if node[0] == "and" and parent_op == "or" and _FAMILY[tk] == _FAMILY[tok["or"]]:
            return s
        return lp + s + rp
    s = rec(t, None, True)
    return "  " + s + "   " if blank == "extra" else s


# ----------------------------------------------------------------------------------------------------------------------
# checks on one instantiated tree
# ----------------------------------------------------------------------------------------------------------------------
def _gpr_table(gpr, ids, n):
    return tuple(bool(gpr.eval({ids[i] for i in range(n) if mask >> i & 1})) for mask in range(1 << n))


def _variant_checks(kind, orig, make, tree, ids, n, want_table, want_genes, both_ways, out, text):
    """make() -> variant GPR; compare with the tree's table / gene set; orig == variant"""
    try:
        v = make()
    except Exception as e:  # noqa
        out.append((kind, f"{kind} of {text!r} raised {type(e).__name__}: {e}"))
        return 1
    cnt = 1
    try:
        tab = _gpr_table(v, ids, n)
        if tab != want_table:
            out.append((kind, f"{kind} of {text!r} -> {v.to_string()!r}: truth table {tab} expected {want_table}"))
        if set(v.genes) != want_genes:
            out.append((kind, f"{kind} of {text!r} -> {v.to_string()!r}: genes {sorted(v.genes)} expected {sorted(want_genes)}"))
        if both_ways is not None:
            if not (orig == v):
                out.append((kind, f"{kind} of {text!r} -> {v.to_string()!r}: `original == variant` is false"))
            cnt += 1
        if both_ways:
            if not (v == orig):
                out.append((kind, f"{kind} of {text!r} -> {v.to_string()!r}: `variant == original` is false"))
            cnt += 1
    except Exception as e:  # noqa
        out.append((kind, f"comparing the {kind} variant of {text!r} raised {type(e).__name__}: {e}"))
    return cnt


def _skey(node):
    """structural key of a parsed rule (ast.dump prints addresses for the tuple-valued nodes made from & and |)"""
    import ast
    if isinstance(node, ast.Name):
        return node.id
    if isinstance(node, ast.BoolOp):
        return (type(node.op).__name__, type(node.values).__name__, tuple(_skey(v) for v in node.values))
    return repr(type(node))


def check_instance(tree, ids, spellings, with_reaction=True, full_eq=True):
    """-> (n_evaluations, n_texts, n_asts, [(key, failure, text)])
    full_eq False: only the text round trip is compared with ==, the other variants by truth table and gene set"""
    import copy as _copy
    from cobra.core.gene import GPR
    idxs = sorted(set(_leaves(tree)))
    n = len(idxs)
    assert idxs == list(range(n))
    want_table = _table(tree, n)
    want_genes = {ids[i] for i in idxs}
    masks = [{ids[i] for i in range(n) if mask >> i & 1} for mask in range(1 << n)]
    foreign = "zz_foreign"
    fails, evals = [], 0
    seen_text, seen_ast = set(), set()
    for sp in spellings:
        text = render(tree, ids, sp)
        if text in seen_text:
            continue
        seen_text.add(text)
        out = []
        try:
            g = GPR.from_string(text)
        except Exception as e:  # noqa
            fails.append(("eval", f"from_string({text!r}) raised {type(e).__name__}: {e}", text))
            continue
        try:
            got = tuple(bool(g.eval(ko)) for ko in masks)
            evals += len(masks)
            if got != want_table:
                bad = [i for i in range(len(masks)) if got[i] != want_table[i]][0]
                out.append(("eval", f"from_string({text!r}).eval({sorted(masks[bad])}) = {got[bad]}, the expression is "
                                    f"{want_table[bad]} (parsed as {g.to_string()!r})"))
            if bool(g.eval({foreign})) != want_table[0] or bool(g.eval(masks[-1] | {foreign})) != want_table[-1]:
                out.append(("eval", f"from_string({text!r}): a foreign absent gene changes the value"))
            if bool(g.eval(list(masks[-1]))) != want_table[-1] or bool(g.eval()) != want_table[0]:
                out.append(("eval", f"from_string({text!r}): eval(list) / eval() differ from eval(set)"))
            evals += 4
        except Exception as e:  # noqa
            out.append(("eval", f"from_string({text!r}).eval raised {type(e).__name__}: {e}"))
        try:
            if set(g.genes) != want_genes:
                out.append(("genes", f"from_string({text!r}).genes = {sorted(g.genes)} expected {sorted(want_genes)}"))
            evals += 1
        except Exception as e:  # noqa
            out.append(("genes", f"from_string({text!r}).genes raised {type(e).__name__}: {e}"))
        try:
            dump = _skey(g.body)
        except Exception as e:  # noqa
            dump = None
        if dump is not None and dump not in seen_ast and not out:
            seen_ast.add(dump)
            a = (tree, ids, n, want_table, want_genes)
            # last-but-two argument: None = truth table and genes only, False = also `original == variant`,
            # True = also `variant == original`
            one = False if full_eq else None
            evals += _variant_checks("text-roundtrip", g, lambda: GPR.from_string(g.to_string()), *a, full_eq, out, text)
            evals += _variant_checks("text-roundtrip", g, lambda: GPR.from_string(str(g)), *a, None, out, text)
            evals += _variant_checks("copy", g, lambda: g.copy(), *a, one, out, text)
            evals += _variant_checks("copy", g, lambda: _copy.copy(g), *a, None, out, text)
            evals += _variant_checks("copy", g, lambda: _copy.deepcopy(g), *a, None, out, text)
            evals += _variant_checks("pickle", g, lambda: pickle.loads(pickle.dumps(g)), *a, one, out, text)
            evals += _variant_checks("symbolic", g, lambda: GPR.from_symbolic(g.as_symbolic()), *a, one, out, text)
            if with_reaction:
                from cobra import Reaction

                def via_reaction_pickle():
                    r = Reaction("r1")
                    r.gene_reaction_rule = text
                    r2 = pickle.loads(pickle.dumps(r))
                    if {x.id for x in r2.genes} != want_genes:
                        raise AssertionError(f"genes of the unpickled reaction: {sorted(x.id for x in r2.genes)}")
                    return r2.gpr

                def via_reaction_copy():
                    r = Reaction("r1")
                    r.gene_reaction_rule = text
                    r2 = r.copy()
                    if {x.id for x in r2.genes} != want_genes:
                        raise AssertionError(f"genes of the copied reaction: {sorted(x.id for x in r2.genes)}")
                    return r2.gpr
                evals += _variant_checks("reaction-pickle", g, via_reaction_pickle, *a, one, out, text)
                evals += _variant_checks("copy", g, via_reaction_copy, *a, None, out, text)
            # the original must be unchanged by all of the above
            if _gpr_table(g, ids, n) != want_table or set(g.genes) != want_genes:
                out.append(("copy", f"{text!r}: the original rule changed while producing its variants"))
        for k, f in out:
            fails.append((k, f, text))
    return evals, len(seen_text), len(seen_ast), fails


# ----------------------------------------------------------------------------------------------------------------------
# work units
# ----------------------------------------------------------------------------------------------------------------------
_TREES = {}


def _trees(n):
    if n not in _TREES:
        _TREES[n] = abstract_trees(n)
    return _TREES[n]


def _alphabet(offset):
    return [IDS[(offset + j) % len(IDS)] for j in range(4)]


def _unit_rules(args):
    """one chunk of (n_leaves, tree index, offset, spelling set id)"""
    _quiet()
    jobs, with_reaction = args
    evals = texts = asts = 0
    fails, sample = [], None
    for (nl, ti, off, spid, full_eq) in jobs:
        tree = _trees(nl)[ti]
        ids = _alphabet(off)
        sps = SPELLINGS if spid < 0 else THIRDS[spid]
        e, t, a, f = check_instance(tree, ids, sps, with_reaction, full_eq)
        evals, texts, asts = evals + e, texts + t, asts + a
        for key, msg, text in f:
            fails.append({"key": key, "witness": f"rule({text!r})", "failure": msg,
                          "replay": {"kind": "rule", "tree": tree_json(tree), "ids": ids, "text": text}})
        if sample is None:
            sample = {"tree": tree_json(tree), "ids": ids, "text": render(tree, ids, sps[len(sps) // 2])}
    return {"evals": evals, "texts": texts, "asts": asts, "fails": fails, "sample": sample, "instances": len(jobs)}


def check_pair(t1, t2, ids, n):
    """-> (n_eval, was_equal, failure | None)"""
    from cobra.core.gene import GPR
    g1 = GPR.from_string(render(t1, ids, (0, 0, 1, 0)))
    g2 = GPR.from_string(render(t2, ids, (0, 0, 1, 0)))
    try:
        eq = bool(g1 == g2)
    except Exception as e:  # noqa
        return 1, False, f"{g1.to_string()!r} == {g2.to_string()!r} raised {type(e).__name__}: {e}"
    if eq and _table(t1, n) != _table(t2, n):
        ko = [m for m in range(1 << n) if _table(t1, n)[m] != _table(t2, n)[m]][0]
        return 1, True, (f"{g1.to_string()!r} == {g2.to_string()!r} is True but they differ with "
                         f"{sorted(ids[i] for i in range(n) if ko >> i & 1)} absent")
    return 1, eq, None


_PAIR_TREES = {}


def _pair_trees(n_genes, max_leaves):
    key = (n_genes, max_leaves)
    if key not in _PAIR_TREES:
        ts = []
        for nl in range(1, max_leaves + 1):
            ts.extend(abstract_trees(nl, all_assignments=True, n_genes=n_genes))
        _PAIR_TREES[key] = ts
    return _PAIR_TREES[key]


def _unit_pairs(args):
    _quiet()
    rows, ids, n_genes, max_leaves = args
    ts = _pair_trees(n_genes, max_leaves)
    evals = equal = 0
    fails = []
    for i in rows:
        for j in range(len(ts)):
            e, eq, f = check_pair(ts[i], ts[j], ids, n_genes)
            evals += e
            equal += eq
            if f:
                fails.append({"key": "eq-implies-equiv", "failure": f,
                              "witness": f"pair({render(ts[i], ids, (0, 0, 1, 0))!r}, {render(ts[j], ids, (0, 0, 1, 0))!r})",
                              "replay": {"kind": "pair", "t1": tree_json(ts[i]), "t2": tree_json(ts[j]), "ids": ids, "n": n_genes}})
    return {"evals": evals, "equal": equal, "fails": fails}


def _unit_pairs4(args):
    """seeded pairs of 4-leaf trees over 4 identifiers, biased towards pairs with the same gene set"""
    _quiet()
    seed, count, ids = args
    rng = random.Random(seed)
    ts = _pair_trees(4, 4)
    by_genes = {}
    for t in ts:
        by_genes.setdefault(frozenset(_leaves(t)), []).append(t)
    groups = [v for v in by_genes.values() if len(v) > 1]
    evals = equal = 0
    fails = []
    for _ in range(count):
        grp = rng.choice(groups)
        t1, t2 = rng.choice(grp), rng.choice(grp)
        e, eq, f = check_pair(t1, t2, ids, 4)
        evals += e
        equal += eq
        if f:
            fails.append({"key": "eq-implies-equiv", "failure": f,
                          "witness": f"pair({render(t1, ids, (0, 0, 1, 0))!r}, {render(t2, ids, (0, 0, 1, 0))!r})",
                          "replay": {"kind": "pair", "t1": tree_json(t1), "t2": tree_json(t2), "ids": ids, "n": 4}})
    return {"evals": evals, "equal": equal, "fails": fails}


# ----------------------------------------------------------------------------------------------------------------------
# remove_genes
# ----------------------------------------------------------------------------------------------------------------------
def _all_trees():
    out = []
    for nl in (1, 2, 3, 4):
        out.extend(_trees(nl))
    return out


def build_removal_model(trees, ids, spelling=(0, 0, 0, 0)):
    import cobra
    m = cobra.Model("c08")
    mets = [cobra.Metabolite(f"m{i}_c", compartment="c") for i in range(3)]
    rxns = []
    for i, t in enumerate(trees):
        r = cobra.Reaction(f"R{i}")
        r.add_metabolites({mets[i % 3]: -1.0, mets[(i + 1) % 3]: 1.0})
        r.gene_reaction_rule = render(t, ids, spelling)
        rxns.append(r)
    n0 = cobra.Reaction("NORULE")
    n0.add_metabolites({mets[0]: -1.0})
    rxns.append(n0)
    m.add_reactions(rxns)
    return m


def _shift(tree, k, n=4):
    """rotate the gene indices of a tree by k (so that the canonical trees do not always start with gene 0)"""
    if tree[0] == "L":
        return ("L", (tree[1] + k) % n)
    return (tree[0], [_shift(c, k, n) for c in tree[1]])


def check_removal(trees, ids, subset, remove_reactions, as_objects, spelling=(0, 0, 0, 0)):
    """-> (n_checked reactions still catalysable, failures [(text, rule text of the reaction)])"""
    from cobra.manipulation import remove_genes
    m = build_removal_model(trees, ids, spelling)
    S = set(subset)
    names = [ids[i] for i in sorted(S)]
    present = {g.id for g in m.genes}
    names = [x for x in names if x in present]
    if not names:
        return 0, []
    arg = [m.genes.get_by_id(x) for x in names] if as_objects else list(names)
    fails = []
    try:
        remove_genes(m, arg, remove_reactions=remove_reactions)
    except Exception as e:  # noqa
        return 0, [(f"remove_genes({names}, remove_reactions={remove_reactions}) raised {type(e).__name__}: {e}", "")]
    checked = 0
    S_eff = {i for i in S if ids[i] in names}
    for i, t in enumerate(trees):
        if not _sem(t, S_eff):
            continue                       # cannot be catalysed any more: the statement says nothing about it
        checked += 1
        rid = f"R{i}"
        if rid not in m.reactions:
            fails.append((f"reaction {rid} with rule {render(t, ids, spelling)!r} can still be catalysed without {names} "
                          f"but was removed (remove_reactions={remove_reactions})", render(t, ids, spelling)))
            continue
        g = m.reactions.get_by_id(rid).gpr
        for mask in range(16):
            K = {j for j in range(4) if mask >> j & 1}
            try:
                got = bool(g.eval({ids[j] for j in K}))
            except Exception as e:  # noqa
                fails.append((f"{rid}: eval of the new rule {g.to_string()!r} raised {type(e).__name__}: {e}",
                              render(t, ids, spelling)))
                break
            if got != _sem(t, K | S_eff):
                fails.append((f"{rid}: rule {render(t, ids, spelling)!r} after removing {names} is {g.to_string()!r}; with "
                              f"{sorted(ids[j] for j in K)} absent it is {got}, the old rule with the removed genes absent "
                              f"is {_sem(t, K | S_eff)}", render(t, ids, spelling)))
                break
    if "NORULE" not in m.reactions:
        pass  # a reaction without a rule is not covered by the statement
    return checked, fails


def _removal_key(rule, spelling):
    """rules typed with & or | get tuple-valued BoolOp nodes (GPRCleaner.visit_BinOp); ast.NodeTransformer does not
    descend into tuples, so _GeneRemover leaves such nodes untouched: one defect, one key.  Everything else: 'remove-genes'"""
    uses_symbol = (AND_TOK[spelling[0]] == "&" and "&" in rule) or (OR_TOK[spelling[1]] == "|" and "|" in rule)
    return "remove-genes:symbol-operators" if uses_symbol else "remove-genes"


def _removal_witness(rule, removed, rr, as_objects):
    return f"remove({rule!r}, without={removed}, remove_reactions={rr}, as_objects={as_objects})"


def _unit_removal(args):
    _quiet()
    jobs = args
    evals = 0
    fails = []
    alltrees = _all_trees()
    for (start, pack, off, shift, spelling) in jobs:
        trees = [_shift(t, shift) for t in alltrees[start:start + pack]]
        ids = _alphabet(off)
        for mask in range(1, 16):
            subset = [j for j in range(4) if mask >> j & 1]
            for rr in (True, False):
                as_objects = bool((mask + rr) % 2)
                n, f = check_removal(trees, ids, subset, rr, as_objects, spelling)
                evals += n
                for msg, rule in f:
                    # compact witness: the failing reaction alone, if that reproduces; else the whole pack
                    keep = trees
                    if msg.startswith("R") or msg.startswith("reaction R"):
                        num = msg.split("R", 1)[1]
                        idx = int("".join(itertools.takewhile(str.isdigit, num)))
                        one = check_removal([trees[idx]], ids, subset, rr, as_objects, spelling)[1]
                        if one:
                            keep, msg = [trees[idx]], one[0][0]
                    key = _removal_key(rule, spelling)
                    removed = ",".join(ids[j] for j in subset)
                    fails.append({"key": key, "failure": msg,
                                  # class members met in the seeded part are matched by class (protocol); the exact
                                  # witnesses of the class come from the fixed list below
                                  "witness": (f"random:{key}" if key in INPUT_CLASS_KEYS
                                              else _removal_witness(rule, removed, rr, as_objects)),
                                  "replay": {"kind": "removal", "trees": [tree_json(t) for t in keep], "ids": ids,
                                             "subset": subset, "remove_reactions": rr, "as_objects": as_objects,
                                             "spelling": list(spelling), "text": rule}})
    return {"evals": evals, "fails": fails}


# fixed, seed-independent list for the class `remove-genes:symbol-operators`: every tree with <= 3 leaves over a, b, c,
# typed with symbol operators in four ways, every non-empty subset of its genes removed, both remove_reactions settings
FIXED_REMOVAL_IDS = ["a", "b", "c", "d"]
FIXED_REMOVAL_SPELLINGS = [(2, 2, 0, 0), (2, 0, 0, 0), (0, 2, 0, 0), (2, 2, 1, 2)]


def fixed_removal_cases():
    out, seen = [], set()
    for nl in (1, 2, 3):
        for t in _trees(nl):
            genes = sorted(set(_leaves(t)))
            for sp in FIXED_REMOVAL_SPELLINGS:
                rule = render(t, FIXED_REMOVAL_IDS, sp)
                if rule in seen or not ("&" in rule or "|" in rule):
                    continue
                seen.add(rule)
                for mask in range(1, 1 << len(genes)):
                    subset = [g for k, g in enumerate(genes) if mask >> k & 1]
                    for rr in (True, False):
                        out.append((t, sp, subset, rr))
    return out


def _unit_removal_fixed(args):
    _quiet()
    lo, hi = args
    evals = 0
    fails = []
    for (t, sp, subset, rr) in fixed_removal_cases()[lo:hi]:
        n, f = check_removal([t], FIXED_REMOVAL_IDS, subset, rr, rr, sp)
        evals += n
        for msg, rule in f:
            removed = ",".join(FIXED_REMOVAL_IDS[j] for j in subset)
            fails.append({"key": _removal_key(rule, sp), "witness": _removal_witness(rule, removed, rr, rr), "failure": msg,
                          "replay": {"kind": "removal", "trees": [tree_json(t)], "ids": FIXED_REMOVAL_IDS, "subset": subset,
                                     "remove_reactions": rr, "as_objects": rr, "spelling": list(sp), "text": rule}})
    return {"evals": evals, "fails": fails}


# ----------------------------------------------------------------------------------------------------------------------
# driver
# ----------------------------------------------------------------------------------------------------------------------
def _chunks(lst, n):
    return [lst[i:i + n] for i in range(0, len(lst), n)]


def run(tier: str, seed: int) -> dict:
    import multiprocessing as mp
    _quiet()
    t0 = time.time()
    thorough = tier == "thorough"
    N = len(IDS)
    rng = random.Random(seed)
    alphabets4 = 46 if thorough else 12
    # ---- rule instances: (n_leaves, tree index, alphabet offset, spelling third or -1 for all 81, compare all variants with ==)
    jobs = []
    for nl in (1, 2):
        for ti in range(len(_trees(nl))):
            for off in range(N):
                jobs.append((nl, ti, off, -1, True))
    for ti in range(len(_trees(3))):
        for off in range(N):
            if thorough:
                jobs.append((3, ti, off, -1, True))
            elif (off + ti + seed) % 2 == 0:
                jobs.append((3, ti, off, (ti + off // 2 + seed) % 3, (off // 2 + ti) % 3 == 0))
    n4 = len(_trees(4))
    stride = max(1, N // alphabets4)
    for ti in range(n4):
        base = (ti * 7 + seed * 13) % N
        for k in range(alphabets4):
            off = (base + k * stride) % N
            jobs.append((4, ti, off, -1 if thorough else (ti + k + seed) % 3, thorough or k % 3 == 0))
    rng.shuffle(jobs)
    units = [("rules", (c, True)) for c in _chunks(jobs, 60)]
    # ---- pairs (3 identifiers chosen by the seed; every ordered pair)
    pair_ids = [IDS[(seed * 5 + 3) % N], IDS[(seed * 11 + 40) % N], IDS[(seed * 17 + 77) % N]]
    if len(set(pair_ids)) < 3:
        pair_ids = ["a.b", "None", "1abc"]
    n_pair_trees = len(_pair_trees(3, 3))
    rows = list(range(n_pair_trees))
    units += [("pairs", (c, pair_ids, 3, 3)) for c in _chunks(rows, 6)]
    pair4_ids = _alphabet((seed * 19 + 5) % N)
    n_pairs4 = 40000 if thorough else 4000
    units += [("pairs4", (seed * 1000 + i, n_pairs4 // 16, pair4_ids)) for i in range(16)]
    # ---- removals
    alltrees = _all_trees()
    pack = 40
    n_alph_rm = 8 if thorough else 2
    rjobs = []
    for a in range(n_alph_rm):
        off = (seed * 23 + a * 29 + 1) % N
        for start in range(0, len(alltrees), pack):
            sp = SPELLINGS[(start + a * 7 + seed) % 81]
            rjobs.append((start, pack, off, (start // pack + a) % 4, sp))
    units += [("removal", c) for c in _chunks(rjobs, 1)]
    n_fixed = len(fixed_removal_cases())
    units += [("removal_fixed", (lo, min(lo + 60, n_fixed))) for lo in range(0, n_fixed, 60)]

    ctx = mp.get_context("fork")
    nproc = min(16, os.cpu_count() or 1)
    res = []
    with ctx.Pool(nproc) as pool:
        for kind, r in pool.imap_unordered(_dispatch, [(k, a) for k, a in units], chunksize=1):
            res.append((kind, r))
    counts = {"rule_instances": 0, "rule_texts": 0, "distinct_asts": 0, "rule_evaluations": 0, "pair_comparisons": 0,
              "pairs_equal": 0, "removal_reaction_checks": 0, "fixed_removal_reaction_checks": 0}
    fails, samples = [], []
    for kind, r in res:
        fails.extend(r["fails"])
        if kind == "rules":
            counts["rule_instances"] += r["instances"]
            counts["rule_texts"] += r["texts"]
            counts["distinct_asts"] += r["asts"]
            counts["rule_evaluations"] += r["evals"]
        elif kind in ("pairs", "pairs4"):
            counts["pair_comparisons"] += r["evals"]
            counts["pairs_equal"] += r["equal"]
        elif kind == "removal_fixed":
            counts["fixed_removal_reaction_checks"] += r["evals"]
        else:
            counts["removal_reaction_checks"] += r["evals"]
    for (nl, ti, off, spid, _fe) in [j for j in jobs if j[0] == 4][:2] + [j for j in jobs if j[0] == 3][:1]:
        tree, ids = _trees(nl)[ti], _alphabet(off)
        sps = SPELLINGS if spid < 0 else THIRDS[spid]
        samples.append({"tree": tree_json(tree), "ids": ids, "text": render(tree, ids, sps[(ti + off) % len(sps)])})
    # one failure per distinct witness; the fixed part is reported completely, the seeded part up to SEEDED_CAP per key
    fails.sort(key=lambda f: (f["key"], f["witness"].startswith("random:"), len(f["witness"]), f["witness"], str(f["replay"])))
    kept, per, seen, n_seeded = [], {}, set(), {}
    fixed_w = {_removal_witness(render(t, FIXED_REMOVAL_IDS, sp), ",".join(FIXED_REMOVAL_IDS[j] for j in sub), rr, rr)
               for (t, sp, sub, rr) in fixed_removal_cases()}
    for f in fails:
        per[f["key"]] = per.get(f["key"], 0) + 1
        if f["witness"] in seen:
            continue
        if f["witness"] not in fixed_w:
            n_seeded[f["key"]] = n_seeded.get(f["key"], 0) + 1
            if n_seeded[f["key"]] > SEEDED_CAP:
                continue
        seen.add(f["witness"])
        kept.append(f)
    return {
        "evaluations": (counts["rule_evaluations"] + counts["pair_comparisons"] + counts["removal_reaction_checks"]
                        + counts["fixed_removal_reaction_checks"]),
        "distinct_nontrivial": (counts["rule_texts"] + counts["pair_comparisons"] + counts["removal_reaction_checks"]
                                + counts["fixed_removal_reaction_checks"]),
        "rule": "distinct rule texts (tree x alphabet x spelling, deduplicated by text; each evaluated on every knock-out "
                "subset, round trips once per distinct parsed AST) + ordered rule pairs compared with == + (reaction, removed "
                "gene set, remove_reactions) triples whose reaction can still be catalysed",
        "bounds": {"max_leaves": 4, "max_depth": 3, "abstract_trees": sum(len(_trees(n)) for n in (1, 2, 3, 4)),
                   "identifiers": N, "alphabets_per_tree_le2_leaves": N, "alphabets_per_3leaf_tree": N if thorough else (N + 1) // 2,
                   "alphabets_per_4leaf_tree": alphabets4,
                   "spellings": 81, "spellings_per_3or4leaf_instance": 81 if thorough else 27,
                   "all_variants_compared_with_eq": "every instance" if thorough else "every third instance (text round trip: all)",
                   "pair_trees_le3_leaves_3_genes": n_pair_trees, "pairs_4leaf_sampled": n_pairs4,
                   "removal_alphabets": n_alph_rm, "removal_subsets": 15, "fixed_removal_cases": n_fixed,
                   "failures_total": len(fails),
                   "failures_per_key": per, "wall_s": round(time.time() - t0, 1)},
        "counts": counts,
        "exhaustive": True,
        "samples": samples[:3],
        "failures": kept,
    }


def _dispatch(ka):
    kind, a = ka
    fn = {"rules": _unit_rules, "pairs": _unit_pairs, "pairs4": _unit_pairs4, "removal": _unit_removal,
          "removal_fixed": _unit_removal_fixed}[kind]
    return kind, fn(a)


def replay(payload_replay: dict):
    _quiet()
    p = payload_replay
    if p["kind"] == "rule":
        tree = tree_from_json(p["tree"])
        ids = list(p["ids"])
        # find the spelling that gives the recorded text (fall back to all spellings)
        sps = [s for s in SPELLINGS if render(tree, ids, s) == p.get("text")] or SPELLINGS
        _, _, _, fails = check_instance(tree, ids, sps[:1] if p.get("text") else sps, True)
        return fails[0][1] if fails else None
    if p["kind"] == "pair":
        _, _, f = check_pair(tree_from_json(p["t1"]), tree_from_json(p["t2"]), list(p["ids"]), int(p["n"]))
        return f
    if p["kind"] == "removal":
        trees = [tree_from_json(j) for j in p["trees"]]
        _, f = check_removal(trees, list(p["ids"]), list(p["subset"]), bool(p["remove_reactions"]), bool(p["as_objects"]),
                             tuple(p.get("spelling", (0, 0, 0, 0))))
        return f[0][0] if f else None
    raise ValueError(f"unknown replay kind {p['kind']!r}")
