"""C17 (bounded tier) — loopless methods remove cycles without changing what matters.

Real code under test: cobra.flux_analysis.loopless.loopless_solution (fluxes=None and fluxes=<vector>) and add_loopless
(followed by Model.optimize on the model's and on other objectives), GLPK.
Oracle: bcc.oracle_lp (exact rational LP).

Models: rings of length k = 2,3,4 (C_i: c_i -> c_{i+1 mod k}) in every reversibility pattern {F:(0,U), R:(-U,U), B:(-U,0)}^k,
  family A  ring on the path  (import at c_0, export at c_j: the two arcs are parallel routes, the ring is a loop),
  family B  ring detached from a separate path EX_in -> p0 -P0-> p1 -> EX_out,
  family C  ring hanging on the path metabolite p1 (shares a metabolite, no reaction),
  objective on the export (not in a cycle), on a path reaction (internal, not in a cycle) or on a ring reaction (in the
  cycle), direction max or min, exchanges written either way, optional doubled stoichiometry of a ring reaction, optional
  ring capacity 10, optional small global bound (big-M adequacy), plus seeded random networks (<= 6 internal reactions).

Asymmetric magnitudes: ring reactions with (-3U, U) and (-U, 3U); route models (route_model) in which the largest |bound|
is a lower bound (mirrored: an upper bound) that the best cycle-free distribution needs — EX_A and v1 written against the
flow with (-3000, 1000), sinks capped at 1000, an unrelated 2-cycle: cycle-free optimum 2000 — so that add_loopless' big-M
must be the largest |bound| on either side.
Fixed, seed-independent part: fixed_small_specs() (witnesses of the open class add_loopless:optimum-small-bounds; every
failure carries "witness" = "<spec id>:<objective>:<direction>", list in KNOWN_C17.json) and route_specs().

loopless_solution(model, fluxes=s) for start vectors s obtained from the same model: None (optimize inside), the
optimize() vector, a pFBA vector, FVA vertices at fraction 1 (optimal, usually with a spinning loop), and — the quantifier
says "any starting flux vector obtained from the same model" — feasible sub-optimal ones (optimum of another objective,
FVA vertex at fraction 0.5).  Expected, relative to s:                                              [key loopless_solution:*]
  status optimal (s itself meets every condition, so the documented problem is feasible)           [status | suboptimal-start]
  steady state, in bounds                                                                          [infeasible-flux]
  c.v == c.s and objective_value == c.s    [suboptimal-start if c.s is not the model optimum, else min-direction for a
                                            minimisation model, else objective]
  boundary fluxes equal those of s                                                                 [boundary]
  no reaction reversed, none grown in magnitude                                                    [reversed | grown]
  no removable internal cycle                                                                      [cycle-left]
 Test for the last clause (justification): a cycle that can be *removed from v* is a non-zero w supported on internal
 reactions with S w = 0, conformal to v (w_i v_i >= 0, |w_i| <= |v_i|: removing it neither reverses nor grows a flux with
 respect to v, hence with respect to s), leaving v - w in bounds and c.(v - w) = c.v; boundary fluxes are untouched since
 w is internal.  Exact LP: maximise sum_i |w_i| under exactly these rows; the clause holds iff the maximum is 0 (<= 1e-6
 scale).  This asks *less* than "v minimises total internal flux under the conditions" (which also forbids trading flux
 between reactions along a non-conformal null-space vector); LP-minimality implies it (DESIGN C17 lemma), so the real
 code must pass, and the statement demands no more.

add_loopless(model): optimum (model objective and two further objectives set afterwards) vs brute force over sign patterns
of the internal reactions: for sigma in {+,-}^n (n <= 6): sigma is thermodynamically feasible iff no non-zero internal
cycle is conformal to sigma (equivalently potentials with G_i sigma_i < 0 exist — Gordan), tested by an exact LP; for each
feasible sigma the exact LP max/min c.v with sigma_i v_i >= 0.  A cycle-free v extends to a feasible full pattern (perturb
the potentials generically), so the best value over feasible patterns is the best cycle-free objective.   [add_loopless:*]
  status/optimum  [add_loopless:optimum | add_loopless:optimum-small-bounds when max |bound| < 4],  returned fluxes feasible
  [add_loopless:infeasible-flux] and cycle-free: no internal cycle conformal to the signs of the fluxes with |v| > 1e-6
  [add_loopless:cycle-in-optimum].
Not covered: loopless FVA (flux_variability_analysis(loopless=True) / loopless_fva_iter) — the statement is about
loopless_solution and add_loopless only; infinite bounds (add_loopless' big-M is max |bound|).
"""
import itertools
import math
import random
import time
from fractions import Fraction

from bcc import oracle_lp
from bcc import c09_util as U

KNOWN_KEYS = set()
INF = float("inf")
TOL = 1e-6
REV = {"F": (0.0, 1.0), "R": (-1.0, 1.0), "B": (-1.0, 0.0)}


# ----------------------------------------------------------------------------------------------------------------------
# models
# ----------------------------------------------------------------------------------------------------------------------
def ring_model(family, k, rev, obj, direction="max", U_ring=1000.0, ex_rev=False, coef2=None, small=None, j=None,
               asym=None):
    """asym = (neg, pos): ring reactions get (-neg*U_ring, pos*U_ring) instead of symmetric magnitudes"""
    import cobra
    m = cobra.Model(f"ring{family}{k}{rev}")
    cs = [cobra.Metabolite(f"c{i}", compartment="c") for i in range(k)]
    rxns = []

    def rxn(rid, st, bounds):
        r = cobra.Reaction(rid)
        r.add_metabolites(st)
        r.bounds = bounds
        rxns.append(r)
        return r

    def exchange(rid, met, lb, ub):
        # `met -->` with (lb, ub), or written the other way round with mirrored bounds
        if ex_rev:
            rxn(rid, {met: 1.0}, (-ub, -lb))
        else:
            rxn(rid, {met: -1.0}, (lb, ub))
    for i in range(k):
        a = 2.0 if coef2 == i else 1.0
        lo, hi = REV[rev[i]]
        if asym:
            lo, hi = lo * asym[0], hi * asym[1]
        rxn(f"C{i}", {cs[i]: -a, cs[(i + 1) % k]: a}, (lo * U_ring, hi * U_ring))
    if family == "A":
        j = j if j is not None else max(1, k // 2)
        exchange("EX_in", cs[0], -10.0, 0.0)
        exchange("EX_out", cs[j], 0.0, 1000.0)
    else:
        p0 = cobra.Metabolite("p0", compartment="c")
        p1 = cs[0] if family == "C" else cobra.Metabolite("p1", compartment="c")
        exchange("EX_in", p0, -10.0, 0.0)
        rxn("P0", {p0: -1.0, p1: 1.0}, (0.0, 1000.0))
        exchange("EX_out", p1, 0.0, 1000.0)
    m.add_reactions(rxns)
    if small is not None:
        for r in m.reactions:
            r.bounds = (max(r.lower_bound, -small), min(r.upper_bound, small))
    m.objective = obj
    if ex_rev and obj in ("EX_out", "EX_in"):
        # keep "more export is better" when the exchange is written the other way round
        from cobra.util.solver import set_objective
        set_objective(m, {m.reactions.get_by_id(obj): -1.0})
    m.objective_direction = direction
    return m


def route_model(neg=3000.0, pos=1000.0, mirrored=False, ex_rev=False, direction="max", loop="RR", sinks=2, obj="sinks"):
    """the largest |bound| is a *lower* bound (mirrored: an upper bound) and the best cycle-free distribution needs it:
    EX_A: A <=> (uptake = the big side), v1: B <=> A written against the flow (mirrored: A <=> B written with it),
    `sinks` routes B --> S_i --> out capped at min(neg, pos), an unrelated internal 2-cycle X <=> Y.
    best cycle-free sum of sink exports = min(big side, sinks * cap)"""
    import cobra
    m = cobra.Model(f"route{'M' if mirrored else ''}{int(neg)}_{int(pos)}")
    A, B, X, Y = (cobra.Metabolite(x, compartment="c") for x in ("A", "B", "X", "Y"))
    rxns = []

    def rxn(rid, st, bounds):
        r = cobra.Reaction(rid)
        r.add_metabolites(st)
        r.bounds = bounds
        rxns.append(r)
    cap = min(neg, pos)
    if not mirrored:
        # flux < 0 = uptake / A -> B; lower bounds -neg, upper bounds pos
        if ex_rev:
            rxn("EX_A", {A: 1.0}, (-pos, neg))
        else:
            rxn("EX_A", {A: -1.0}, (-neg, pos))
        rxn("v1", {B: -1.0, A: 1.0}, (-neg, pos))
    else:
        # flux > 0 = uptake / A -> B; upper bounds neg (the big side), lower bounds -pos
        if ex_rev:
            rxn("EX_A", {A: -1.0}, (-neg, pos))
        else:
            rxn("EX_A", {A: 1.0}, (-pos, neg))
        rxn("v1", {A: -1.0, B: 1.0}, (-pos, neg))
    outs = []
    for i in range(sinks):
        S = cobra.Metabolite(f"S{i}", compartment="c")
        rxn(f"v{i + 2}", {B: -1.0, S: 1.0}, (0.0, cap))
        rxn(f"EX_S{i}", {S: -1.0}, (0.0, cap))
        outs.append(f"EX_S{i}")
    lo0, hi0 = REV[loop[0]]
    lo1, hi1 = REV[loop[1]]
    rxn("L0", {X: -1.0, Y: 1.0}, (lo0 * cap, hi0 * cap))
    rxn("L1", {Y: -1.0, X: 1.0}, (lo1 * cap, hi1 * cap))
    m.add_reactions(rxns)
    from cobra.util.solver import set_objective
    sign = 1.0 if direction == "max" else -1.0
    if obj == "sinks":
        set_objective(m, {m.reactions.get_by_id(o): sign for o in outs})
    else:
        # the big reaction itself: its flux runs against (mirrored: with) the way it is written
        set_objective(m, {m.reactions.v1: sign * (1.0 if mirrored else -1.0)})
    m.objective_direction = direction
    return m


IN_B = [(-3000.0, 1000.0), (-1000.0, 3000.0), (-2000.0, 500.0)] + [(0.0, 1000.0)] * 3 + [(-1000.0, 1000.0)] * 4 + [(0.0, 10.0), (-10.0, 10.0), (-1000.0, 0.0), (1.0, 10.0), (-5.0, 1000.0)]
EX_B = [(-10.0, 1000.0), (-1000.0, 1000.0), (0.0, 1000.0), (-5.0, 10.0), (-10.0, 0.0), (-3000.0, 1000.0), (-2000.0, 0.0)]


def rand_model(rng):
    import cobra
    n_mets = rng.randint(2, 4)
    m = cobra.Model(f"c17_{rng.randint(0, 10**6)}")
    mets = [cobra.Metabolite(f"m{i}", compartment="c") for i in range(n_mets)]
    rxns = []
    for i, met in enumerate(mets):
        if i in (0, n_mets - 1) or rng.random() < 0.5:
            r = cobra.Reaction(f"EX_m{i}")
            lb, ub = rng.choice(EX_B)
            if rng.random() < 0.25:
                r.add_metabolites({met: 1.0})
                lb, ub = -ub, -lb
            else:
                r.add_metabolites({met: -1.0})
            r.bounds = (lb, ub)
            rxns.append(r)
    sto = []
    for i in range(rng.randint(3, 6)):
        r = cobra.Reaction(f"R{i}")
        if sto and rng.random() < 0.4:
            base = rng.choice(sto)
            st = {k: -v for k, v in base.items()} if rng.random() < 0.5 else dict(base)
        elif n_mets >= 3 and rng.random() < 0.2:
            a, b, c = rng.sample(range(n_mets), 3)
            st = {a: -1.0, b: -1.0, c: 1.0} if rng.random() < 0.5 else {a: -1.0, b: 1.0, c: 1.0}
        else:
            a, b = rng.sample(range(n_mets), 2)
            st = {a: -float(rng.choice([1, 1, 1, 2])), b: float(rng.choice([1, 1, 1, 2]))}
        sto.append(st)
        r.add_metabolites({mets[k]: v for k, v in st.items()})
        r.bounds = rng.choice(IN_B)
        rxns.append(r)
    m.add_reactions(rxns)
    from cobra.util.solver import set_objective
    objr = rng.choice(m.reactions)
    coefs = {objr: 1.0}
    if rng.random() < 0.25:
        coefs[rng.choice([r for r in m.reactions if r is not objr])] = float(rng.choice([-1, 2]))
    set_objective(m, coefs)
    m.objective_direction = rng.choice(["max"] * 3 + ["min"])
    return m


def internal_ids(model):
    return [r.id for r in model.reactions if len(r._metabolites) != 1]


def conformal_cycle(model, signs):
    """max sum u over internal cycles conformal to signs ({rid: +-1}); > 0 iff such a cycle exists"""
    if not signs:
        return Fraction(0)
    lp = oracle_lp.LP()
    for rid in signs:
        lp.var("u_" + rid, 0.0, 1.0)
    for mid, row in U.stoich(model).items():
        coefs = {"u_" + rid: c * signs[rid] for rid, c in row.items() if rid in signs}
        if coefs:
            lp.con(coefs, 0.0, 0.0)
    st, val, _ = lp.solve({"u_" + rid: 1.0 for rid in signs}, "max")
    return val


def removable_cycle(model, v, c):
    """exact LP of the docstring: the largest conformal internal cycle that can be subtracted from v"""
    ints = [rid for rid in internal_ids(model) if abs(v[rid]) > 1e-9]
    if not ints:
        return Fraction(0)
    lp = oracle_lp.LP()
    sg = {}
    for rid in ints:
        r = model.reactions.get_by_id(rid)
        x = v[rid]
        sg[rid] = 1.0 if x > 0 else -1.0
        cap = abs(x)
        if x > 0 and not math.isinf(r.lower_bound):
            cap = min(cap, max(x - r.lower_bound, 0.0))
        if x < 0 and not math.isinf(r.upper_bound):
            cap = min(cap, max(r.upper_bound - x, 0.0))
        lp.var("u_" + rid, 0.0, cap)
    for mid, row in U.stoich(model).items():
        coefs = {"u_" + rid: co * sg[rid] for rid, co in row.items() if rid in sg}
        if coefs:
            lp.con(coefs, 0.0, 0.0)
    oc = {"u_" + rid: co * sg[rid] for rid, co in c.items() if rid in sg}
    if oc:
        lp.con(oc, 0.0, 0.0)
    st, val, _ = lp.solve({"u_" + rid: 1.0 for rid in ints}, "max")
    return val


def loopless_best(model, objectives):
    """brute force over sign patterns -> list of (status, best value) per (coefs, direction)"""
    ints = internal_ids(model)
    lp0, _, _ = oracle_lp.fba_lp(model)
    best = [None] * len(objectives)
    n_feasible_patterns = 0
    for pat in itertools.product((1.0, -1.0), repeat=len(ints)):
        signs = dict(zip(ints, pat))
        # a sign that the bounds exclude leaves only v_i = 0: the reaction is then outside the support
        eff = {}
        lp = lp0.copy()
        for rid, s in signs.items():
            lb, ub = lp.vars[rid]
            if s > 0:
                lb = max(lb, 0.0)
            else:
                ub = min(ub, 0.0)
            lp.vars[rid] = (lb, ub)
            if lb > ub:
                eff = None
                break
            if not (lb == 0.0 and ub == 0.0):
                eff[rid] = s
        if eff is None:
            continue
        if conformal_cycle(model, eff) > 0:
            continue
        n_feasible_patterns += 1
        for i, (coefs, d) in enumerate(objectives):
            st, val, _ = lp.solve(coefs, d)
            if st == "optimal":
                if best[i] is None or (d == "max" and val > best[i]) or (d == "min" and val < best[i]):
                    best[i] = val
    return best, n_feasible_patterns


# ----------------------------------------------------------------------------------------------------------------------
# cases
# ----------------------------------------------------------------------------------------------------------------------
def model_cases(model, rng, tier, tag):
    desc = U.describe(model)
    lp, c, d = oracle_lp.fba_lp(model)
    st, opt, _ = lp.solve(c, d)
    if st != "optimal":
        return []
    ints = internal_ids(model)
    if len(ints) > 6 or any(math.isinf(b) for r in model.reactions for b in r.bounds):
        return []
    rids = [r.id for r in model.reactions]
    cases = []
    starts = [["none"], ["optimize"], ["pfba"]]
    cand = [[rid, dd] for rid in ints for dd in ("max", "min")]
    rng.shuffle(cand)
    n_fva = 3 if tier == "quick" else 6
    starts += [["fva", rid, dd, 1.0] for rid, dd in cand[:n_fva]]
    cand2 = [[rid, dd] for rid in rids for dd in ("max", "min")]
    rng.shuffle(cand2)
    starts += [["other", rid, dd] for rid, dd in cand2[: (2 if tier == "quick" else 4)]]
    starts += [["fva", rid, dd, 0.5] for rid, dd in cand[n_fva:n_fva + 1]]
    for s in starts:
        cases.append({"task": "loopless_solution", "start": s, "as_dict": rng.random() < 0.5, "model": desc, "tag": tag})
    extra = [[{rid: 1.0}, dd] for rid, dd in cand[:2]]
    cases.append({"task": "add_loopless", "objectives": extra, "model": desc, "tag": tag})
    return cases


def fixed_small_specs():
    """(witness base, ring_model kwargs): every bound clipped to a small number, so that add_loopless' delta_g range
    1 <= |G| <= max |bound| is too narrow (NOTES_C17 finding 3).  Seed-independent."""
    out = []
    for small in (1.0, 2.0, 3.0, 5.0):
        for family, k, rev in (("A", 3, "FFB"), ("A", 4, "FFFB"), ("A", 4, "FFBB"), ("A", 2, "FB"), ("B", 3, "RRR"),
                               ("A", 3, "RRR"), ("A", 4, "RRRR")):
            j = {3: 2, 4: 3}.get(k) if (family == "A" and rev.endswith("B") and k > 2) else None
            out.append((f"small-fixed#{family}{k}{rev}:bound={small:g}",
                        dict(family=family, k=k, rev=rev, obj="EX_out", direction="max", small=small, j=j)))
    # two parallel routes that are both needed (ring capacity 1, import 2): potentials need |G| >= 3 > max |bound| = 2
    out.append(("small-fixed#A4FFFB:bound=2:ring=1",
                dict(family="A", k=4, rev="FFFB", obj="EX_out", direction="max", small=2.0, j=3, U_ring=1.0)))
    out.append(("small-fixed#A3FFB:bound=3:ring=2",
                dict(family="A", k=3, rev="FFB", obj="EX_out", direction="max", small=3.0, j=2, U_ring=2.0)))
    return out


def route_specs():
    out = []
    for neg, pos in ((3000.0, 1000.0), (1500.0, 1000.0), (3000.0, 10.0)):
        for mirrored in (False, True):
            for ex_rev in (False, True):
                out.append(dict(neg=neg, pos=pos, mirrored=mirrored, ex_rev=ex_rev))
    out.append(dict(neg=3000.0, pos=1000.0, direction="min"))
    out.append(dict(neg=3000.0, pos=1000.0, mirrored=True, direction="min"))
    out.append(dict(neg=3000.0, pos=1000.0, obj="v1"))
    out.append(dict(neg=3000.0, pos=1000.0, mirrored=True, obj="v1", direction="min"))
    out.append(dict(neg=3000.0, pos=1000.0, loop="FB", sinks=3))
    out.append(dict(neg=3000.0, pos=1000.0, loop="FF", sinks=1))
    return out


def build_cases(tier, seed):
    rng = random.Random(seed * 104729 + 17)
    specs = []
    for family in "ABC":
        for k in (2, 3, 4):
            pats = ["".join(p) for p in itertools.product("FRB", repeat=k)]
            objs = ["EX_out", "C0", f"C{k - 1}"] if family == "A" else ["EX_out", "P0", "C0"]
            for rev in pats:
                combos = [(o, dd) for o in objs for dd in ("max", "min")]
                if tier == "quick":
                    if k == 4 and rng.random() > 0.22:
                        continue
                    # rotate deterministically through objectives, bias to max, keep one random min
                    pick = [combos[(pats.index(rev) * 2) % len(combos)]]
                    if rng.random() < 0.45:
                        pick.append(rng.choice(combos))
                else:
                    pick = combos
                for o, dd in dict.fromkeys(pick):
                    var = {"U_ring": rng.choice([1000.0, 1000.0, 10.0]), "ex_rev": rng.random() < 0.3,
                           "coef2": rng.choice([None, None, None, rng.randrange(k)]), "small": None}
                    if family == "A" and k >= 3:
                        var["j"] = rng.choice([1, k // 2, k - 1])
                    specs.append(dict(family=family, k=k, rev=rev, obj=o, direction=dd, **var))
    # asymmetric magnitudes (lower bounds larger than every upper bound and vice versa) on rings
    for family, k, rev, o in (("A", 2, "RR", "EX_out"), ("A", 3, "RRR", "C0"), ("B", 3, "RRR", "C0"), ("C", 2, "RB", "C1"),
                              ("A", 4, "RRRB", "EX_out"), ("B", 2, "RR", "C1")):
        for asym in ((3.0, 1.0), (1.0, 3.0)):
            for dd in ("max", "min"):
                specs.append(dict(family=family, k=k, rev=rev, obj=o, direction=dd, asym=asym,
                                  ex_rev=rng.random() < 0.3, j=(k - 1 if family == "A" and k > 2 else None)))
    cases = []
    # fixed, seed-independent part: witnesses of the open class add_loopless:optimum-small-bounds (KNOWN_C17.json) ...
    for base, sp in fixed_small_specs():
        m = ring_model(**sp)
        k = sp["k"]
        cases.append({"task": "add_loopless", "objectives": [[{"C0": 1.0}, "max"], [{f"C{k - 1}": 1.0}, "min"]],
                      "model": U.describe(m), "tag": "small-fixed", "witness_base": base})
    # ... and the asymmetric route models (big-M must be the largest |bound|, not the largest upper bound)
    for kw in route_specs():
        m = route_model(**kw)
        cases.append({"task": "add_loopless", "objectives": [[{"v1": 1.0}, "max"], [{"v1": 1.0}, "min"], [{"L0": 1.0}, "max"]],
                      "model": U.describe(m), "tag": "route"})
        for st in (["none"], ["optimize"], ["fva", "L0", "max", 1.0], ["fva", "L1", "min", 1.0], ["other", "v1", "min"],
                   ["other", "v1", "max"]):
            cases.append({"task": "loopless_solution", "start": st, "as_dict": False, "model": U.describe(m), "tag": "route"})
    for sp in specs:
        m = ring_model(**sp)
        cases += model_cases(m, rng, tier, "ring")
    n_rand = 60 if tier == "quick" else 700
    made = tries = 0
    while made < n_rand and tries < 20 * n_rand:
        tries += 1
        m = rand_model(rng)
        cs = model_cases(m, rng, tier, "random")
        if cs:
            made += 1
            cases += cs
    return cases


# ----------------------------------------------------------------------------------------------------------------------
# one case
# ----------------------------------------------------------------------------------------------------------------------
def start_vector(model, start):
    """-> flux dict or None (start not available, e.g. the other objective is unbounded)"""
    from cobra.flux_analysis import pfba
    from cobra.util.solver import fix_objective_as_constraint
    kind = start[0]
    if kind == "optimize":
        sol = model.optimize()
    elif kind == "pfba":
        sol = pfba(model)
    elif kind == "fva":
        with model:
            fix_objective_as_constraint(model, fraction=start[3])
            model.objective = model.reactions.get_by_id(start[1])
            model.objective_direction = start[2]
            sol = model.optimize()
    elif kind == "other":
        with model:
            model.objective = model.reactions.get_by_id(start[1])
            model.objective_direction = start[2]
            sol = model.optimize()
    else:
        raise ValueError(kind)
    if sol.status != "optimal":
        return None
    return sol.fluxes


def check_loopless_solution(case):
    from cobra.flux_analysis.loopless import loopless_solution
    model = U.rebuild(case["model"])
    lp, c, d = oracle_lp.fba_lp(model)
    st, opt, _ = lp.solve(c, d)
    fails = []
    start = case["start"]
    if start[0] == "none":
        # the documented start is the model's own optimum; its vector is not observable, its objective value is
        s = None
        cs = float(opt)
        try:
            sol = loopless_solution(model)
        except Exception as e:  # noqa - the code under test raised on a legitimate input
            return {"failures": [("loopless_solution:exception", f"loopless_solution(model) raised {e!r}")],
                    "nontrivial": True}
    else:
        ser = start_vector(model, start)
        if ser is None:
            return {"failures": [], "nontrivial": False, "evaluations": 0}
        s = U.fluxdict(ser)
        if U.flux_problems(model, s):
            return {"failures": [], "nontrivial": False, "evaluations": 0}
        cs = sum(co * s[rid] for rid, co in c.items())
        try:
            sol = loopless_solution(model, fluxes=dict(s) if case["as_dict"] else ser)
        except Exception as e:  # noqa
            return {"failures": [("loopless_solution:exception", f"loopless_solution(model, fluxes={s}) raised {e!r}")],
                    "nontrivial": True}
    suboptimal = not oracle_lp.close(cs, opt)
    start_loop = None
    if s is not None:
        start_loop = float(removable_cycle(model, s, c))
    nontrivial = bool(start_loop and start_loop > TOL) or suboptimal
    info = {"c.start": cs, "optimum": float(opt), "start_removable_cycle": start_loop}
    if sol is None or sol.status != "optimal":
        key = "loopless_solution:suboptimal-start" if suboptimal else "loopless_solution:status"
        fails.append((key, f"start vector is feasible for the model (c.s = {cs!r}, model optimum {float(opt)!r}) but "
                           f"loopless_solution returned status {None if sol is None else sol.status}"))
        return {"failures": fails, "nontrivial": nontrivial, "info": info}
    v = U.fluxdict(sol.fluxes)
    for p in U.flux_problems(model, v):
        fails.append(("loopless_solution:infeasible-flux", p))
    cv = sum(co * v[rid] for rid, co in c.items())
    info["c.result"] = cv
    if not oracle_lp.close(cv, cs) or not oracle_lp.close(sol.objective_value, cs):
        key = "loopless_solution:objective"
        if suboptimal:
            key = "loopless_solution:suboptimal-start"
        elif d == "min":
            key = "loopless_solution:min-direction"
        fails.append((key, f"objective of the start c.s = {cs!r}, of the result c.v = {cv!r}, reported objective_value "
                           f"{sol.objective_value!r} (model optimum {float(opt)!r}, direction {d})"))
    if s is not None:
        scale = max([1.0] + [abs(x) for x in s.values()])
        for r in model.reactions:
            a, b = s[r.id], v[r.id]
            if len(r._metabolites) == 1:
                if not oracle_lp.close(a, b):
                    fails.append(("loopless_solution:boundary", f"boundary flux {r.id}: start {a!r} result {b!r}"))
            else:
                if (a >= 0 and b < -TOL * scale) or (a <= 0 and b > TOL * scale):
                    fails.append(("loopless_solution:reversed", f"{r.id}: start {a!r} result {b!r}"))
                elif abs(b) > abs(a) + TOL * scale:
                    fails.append(("loopless_solution:grown", f"{r.id}: start {a!r} result {b!r}"))
    left = removable_cycle(model, v, c)
    info["result_removable_cycle"] = float(left)
    if left > TOL * max([1.0] + [abs(x) for x in v.values()]):
        fails.append(("loopless_solution:cycle-left", f"an internal cycle of total size {float(left)!r} can still be removed "
                                                      f"from the result {v}"))
    return {"failures": fails, "nontrivial": nontrivial, "info": info}


def check_add_loopless(case):
    from cobra.flux_analysis.loopless import add_loopless
    model = U.rebuild(case["model"])
    _, c, d = oracle_lp.fba_lp(model)
    objectives = [[c, d]] + [[dict(o), dd] for o, dd in case["objectives"]]
    best, n_pat = loopless_best(model, objectives)
    lp, _, _ = oracle_lp.fba_lp(model)
    max_bound = max(abs(b) for r in model.reactions for b in r.bounds)
    fails = []
    info = {"feasible_sign_patterns": n_pat, "internal": len(internal_ids(model)), "exact": [None if b is None else float(b) for b in best]}
    nontrivial = False
    try:
        add_loopless(model)
    except Exception as e:  # noqa
        return {"failures": [("add_loopless:exception", f"add_loopless raised {e!r}")], "nontrivial": True, "info": info}
    for i, (coefs, dd) in enumerate(objectives):
        try:
            if i > 0:
                from cobra.util.solver import set_objective
                set_objective(model, {model.reactions.get_by_id(k): v for k, v in coefs.items()})
                model.objective_direction = dd
            sol = model.optimize()
        except Exception as e:  # noqa
            fails.append(("add_loopless:exception", f"optimize after add_loopless raised {e!r} ({coefs}, {dd})"))
            continue
        plain = lp.solve(coefs, dd)[1]
        if best[i] is not None and plain is not None and not oracle_lp.close(plain, best[i]):
            nontrivial = True
        okey = "add_loopless:optimum-small-bounds" if max_bound < 4 else "add_loopless:optimum"
        det = "+".join(f"{v:g}*{k}" for k, v in sorted(coefs.items())) + ":" + dd
        if best[i] is None:
            if sol.status == "optimal":
                fails.append((okey, f"no cycle-free distribution exists but status optimal ({coefs}, {dd})", det))
            continue
        if sol.status != "optimal":
            fails.append((okey, f"objective {coefs} {dd}: best cycle-free value {float(best[i])!r} but status {sol.status} "
                                f"(max |bound| = {max_bound})", det))
            continue
        if not oracle_lp.close(sol.objective_value, best[i]):
            fails.append((okey, f"objective {coefs} {dd}: optimum after add_loopless {sol.objective_value!r}, best "
                                f"cycle-free value {float(best[i])!r} (plain FBA {float(plain)!r}, max |bound| = {max_bound})", det))
        v = U.fluxdict(sol.fluxes)
        for p in U.flux_problems(model, v):
            fails.append(("add_loopless:infeasible-flux", p))
        signs = {rid: (1.0 if v[rid] > 0 else -1.0) for rid in internal_ids(model) if abs(v[rid]) > TOL}
        if conformal_cycle(model, signs) > 0:
            fails.append(("add_loopless:cycle-in-optimum", f"objective {coefs} {dd}: reported optimum {v} contains an "
                                                           f"internal cycle"))
    return {"failures": fails, "nontrivial": nontrivial, "info": info, "evaluations": len(objectives)}


def run_case(case):
    U.silence()
    res = check_loopless_solution(case) if case["task"] == "loopless_solution" else check_add_loopless(case)
    res.setdefault("evaluations", 1)
    light = {k: v for k, v in case.items() if k != "model"}
    res["sig"] = U.case_sig([U.model_sig(case["model"]), light])
    out = []
    for f in res["failures"]:
        k, msg = f[0], f[1]
        rec = {"key": k, "failure": f"{case['model']['id']} {light}: {msg}", "replay": case}
        if case.get("witness_base"):
            rec["witness"] = case["witness_base"] + ":" + (f[2] if len(f) > 2 else k)
        out.append(rec)
    res["failures"] = out
    res["sample"] = {"case": light, "model": case["model"], "info": res.get("info")}
    return res


def run(tier: str, seed: int) -> dict:
    t0 = time.time()
    U.silence()
    cases = build_cases(tier, seed)
    t_gen = time.time() - t0
    deadline = (55 if tier == "quick" else 840) - t_gen
    results = U.run_pool(run_case, cases, deadline=max(10, deadline), chunksize=4)
    n_models = len({U.model_sig(c["model"]) for c in cases})
    rule = ("ring models (length 2-4, every reversibility pattern F/R/B per ring reaction; on the path / detached / hanging "
            "on a path metabolite; objective on export, path reaction or ring reaction; max/min; exchanges written either way; "
            "doubled stoichiometry; ring capacity 10 or 1000; small global bounds) + seeded random networks (<= 6 internal "
            "reactions); per model: loopless_solution from {None, optimize, pFBA, FVA vertices at fraction 1, other "
            "objective's optimum, FVA vertex at fraction .5} and add_loopless with 3 objectives; distinct = distinct (model "
            "structure, task, start/objectives); non-trivial = the start contains a removable internal cycle or is "
            "sub-optimal (loopless_solution), resp. the cycle-free optimum differs from plain FBA for some objective "
            "(add_loopless)")
    bounds = {"models": n_models, "ring_lengths": [2, 3, 4], "max_internal_reactions": 6, "sign_patterns": "2^n, n <= 6",
              "quick_samples_k4": "22% of the 81 patterns per family" if tier == "quick" else "all", "seed": seed,
              "tier": tier, "cases_generated": len(cases)}
    return U.assemble(cases, results, rule, bounds, exhaustive=False, t0=t0)


def replay(payload_replay: dict):
    U.silence()
    res = run_case(payload_replay)
    if res.get("failures"):
        return "; ".join(f"[{f['key']}] {f['failure']}" for f in res["failures"])
    return None
