"""C16 (bounded tier) - every flux sample is a feasible flux distribution.

case = (model, method, processes, n, thinning, seed, nproj)
  model     generated feasible model with finite bounds whose flux space is not a single point (decided by the exact LP
            oracle), in one of the flavours homogeneous / forced (lb > 0 or ub < 0) / fixed non-zero / fixed zero /
            extra flux constraints (two-sided and one-sided) / extra constraint with an extra variable / everything at once,
            plus hand-made chains with an internal cycle
  method    sample(model, n, method=...) for achr, optgp (processes 1, 2), and the sampler objects ACHRSampler /
            OptGPSampler (with nproj small enough to exercise the re-projection) in reaction space and in solver-variable
            space (sample(n, fluxes=False)), first and second call of the same sampler object

checks (tolerance: the sampler's documented feasibility_tol = bounds_tol = model.tolerance, the same comparisons
        validate() makes: |S v - b| < tol, v > lb - tol, v < ub + tol)
  rows     number of rows == n (OptGP: ceil(n / processes) * processes)
  columns  reaction ids in model order / solver variable names in solver order
  valid    every row: steady state, flux bounds (variable space: the forward / reverse bounds F(lb, ub), extra variable
           bounds) and the extra constraints, computed from the Python objects of the model and from the constraint
           specification this driver added - not from cobra's constraint_matrices
  spaces   the reaction-space sample of a sampler equals forward - reverse of the variable-space sample of an identical
           sampler (same seed)
  seed     the same call with the same seed gives the same samples
  validate sampler.validate(samples) == 'v' exactly for the rows the independent check accepts, and the letters l / u / e
           of deliberately broken rows agree with the independent classification
  frame    flat observation of the model (content, GLPK problem, objective, tolerances) unchanged
"""
import math
import random
import time

from .. import gen, views
from ..c12_common import quiet, flat_obs, diff_obs, fmt_diff, run_tasks, collect_failures
from ..oracle_lp import LP

KNOWN_KEYS = set()
FLAVOURS = ("homogeneous", "forced", "fixed", "fixed0", "cons", "consvar", "all", "conseq_neg", "conseq_pos", "consvar_mid")


# ------------------------------------------------------------------------------------------------ models
def build(spec):
    """spec = ['rnd', k, flavour] | ['hand', name, flavour] -> (model, cons) ; cons = list of
    (name, {reaction id: coef}, extra variable name | None, extra coef, lb | None, ub | None)"""
    quiet()
    kind, k, flavour = spec
    rng = random.Random(f"C16-model-{kind}-{k}")
    if kind == "rnd":
        m0 = gen.random_model(rng, n_mets=rng.randint(2, 4), n_rxns=rng.randint(3, 6), bounds=gen.SAFE_BOUNDS,
                              with_genes=False)
        # the order of the reactions / metabolites is not alphabetical (column order and the forward / reverse index
        # maps of the samplers are then visible)
        desc = gen.describe(m0)
        rng.shuffle(desc["reactions"])
        rng.shuffle(desc["metabolites"])
        m = gen.rebuild(desc)
    elif k == "cycle":
        m = gen.linear_chain(3, cyc=True, bounds={"CYC": (-20.0, 30.0)})
    elif k == "chain_rev":
        m = gen.linear_chain(2, reverse_exchange=True)
    else:
        raise ValueError(k)
    rs = list(m.reactions)
    pick = rs[rng.randrange(len(rs))]
    other = rs[(rs.index(pick) + 1 + rng.randrange(len(rs) - 1)) % len(rs)]
    cons = []
    if flavour in ("forced", "all"):
        lb, ub = pick.bounds
        pick.bounds = (1.0, max(ub, 2.0)) if ub > 0 else (min(lb, -2.0), -1.0)
    if flavour == "fixed":
        lb, ub = pick.bounds
        pick.bounds = (2.0, 2.0) if ub >= 2 else (-2.0, -2.0)
    if flavour in ("fixed0", "all"):
        other.bounds = (0.0, 0.0)
    if flavour in ("cons", "all"):
        a, b = rs[0], rs[-1]
        c1 = m.problem.Constraint(a.flux_expression - 2 * b.flux_expression, lb=-5, ub=6, name="uc_two_sided")
        c2 = m.problem.Constraint(a.flux_expression + b.flux_expression, ub=8, name="uc_upper_only")
        m.add_cons_vars([c1, c2])
        cons.append(("uc_two_sided", {a.id: 1.0, b.id: -2.0}, None, 0.0, -5.0, 6.0))
        cons.append(("uc_upper_only", {a.id: 1.0, b.id: 1.0}, None, 0.0, None, 8.0))
    if flavour in ("conseq_neg", "conseq_pos"):
        # an extra EQUALITY row with a non-zero right-hand side of either sign (added after a seeded change that lost the abs() in
        # constraint_matrices' test for a non-zero right-hand side was missed: only inequality rows and fixed fluxes were generated)
        a, b = rs[0], rs[-1]
        rhs = -2.0 if flavour == "conseq_neg" else 2.0
        c4 = m.problem.Constraint(a.flux_expression - b.flux_expression, lb=rhs, ub=rhs, name="uc_equality")
        m.add_cons_vars([c4])
        cons.append(("uc_equality", {a.id: 1.0, b.id: -1.0}, None, 0.0, rhs, rhs))
    if flavour in ("consvar", "all"):
        a = rs[len(rs) // 2]
        uv = m.problem.Variable("uv", lb=0, ub=5)
        c3 = m.problem.Constraint(a.flux_expression + uv, lb=-3, ub=4, name="uc_with_variable")
        m.add_cons_vars([uv, c3])
        cons.append(("uc_with_variable", {a.id: 1.0}, "uv", 1.0, -3.0, 4.0))
    if flavour == "consvar_mid":
        # the extra variable sits IN FRONT OF a reaction's variables in the solver (auxiliary variable added, then one more reaction):
        # the forward / reverse index maps of the samplers must come from the variables' positions, not from 2 * i, 2 * i + 1
        # (added after the seeded change C16-hrsampler-positional-variable-indices was missed: every generated model had its
        # extra variables behind all reaction variables)
        a, last = rs[0], rs[-1]
        m.remove_reactions([last])
        uv = m.problem.Variable("uv", lb=0, ub=5)
        c3 = m.problem.Constraint(a.flux_expression + uv, lb=-3, ub=4, name="uc_with_variable")
        m.add_cons_vars([uv, c3])
        m.add_reactions([last])
        cons.append(("uc_with_variable", {a.id: 1.0}, "uv", 1.0, -3.0, 4.0))
    return m, cons


def oracle(m, cons):
    """exact LP of the model + the driver's constraints -> (feasible, number of reactions with a non-degenerate range)"""
    lp = LP()
    for r in m.reactions:
        lp.var(r.id, float(r.lower_bound), float(r.upper_bound))
    rows = {x.id: {} for x in m.metabolites}
    for r in m.reactions:
        for x, c in r.metabolites.items():
            rows[x.id][r.id] = float(c)
    for coefs in rows.values():
        lp.con(coefs, 0.0, 0.0)
    for name, coefs, ev, ec, lb, ub in cons:
        cc = dict(coefs)
        if ev:
            lp.var(ev, 0.0, 5.0)
            cc[ev] = ec
        lp.con(cc, -math.inf if lb is None else lb, math.inf if ub is None else ub)
    if not lp.feasible():
        return False, 0
    free = 0
    for r in m.reactions:
        lo, hi = lp.range_of(r.id)
        if lo is not None and hi is not None and hi - lo > 1e-3:
            free += 1
    return True, free


HAND_SPECS = [["hand", "cycle", fl] for fl in FLAVOURS] + [["hand", "chain_rev", "cons"], ["hand", "chain_rev", "homogeneous"]]


def model_specs(tier, seed):
    """-> (fixed specs: hand-made, the same for every seed; seeded specs: random models drawn from the seed)"""
    per = 4 if tier == "quick" else 12
    fixed = []
    for spec in HAND_SPECS:
        m, cons = build(spec)
        ok, free = oracle(m, cons)
        if ok and free >= 2:
            fixed.append(spec)
    seeded = []
    for fl in FLAVOURS:
        got, k = 0, seed * 1000
        while got < per and k < seed * 1000 + 400:
            m, cons = build(["rnd", k, fl])
            ok, free = oracle(m, cons)
            if ok and free >= 2:
                seeded.append(["rnd", k, fl])
                got += 1
            k += 1
    return fixed, seeded


# ------------------------------------------------------------------------------------------------ independent checks
def flux_violations(m, cons, v, tol, with_cons=True):
    """v: {reaction id: flux} -> sorted set of letters: e (steady state), l, u (flux bounds), c (extra constraint)"""
    bad = set()
    for x in m.metabolites:
        s = 0.0
        for r in x.reactions:
            s += r.metabolites[x] * v[r.id]
        if not abs(s) < tol:
            bad.add("e")
    for r in m.reactions:
        if not v[r.id] - r.lower_bound > -tol:
            bad.add("l")
        if not r.upper_bound - v[r.id] > -tol:
            bad.add("u")
    if with_cons:
        for name, coefs, ev, ec, lb, ub in cons:
            val = sum(c * v[rid] for rid, c in coefs.items())
            lo, hi = val, val
            if ev:  # exists a value of the extra variable within its bounds [0, 5]
                ends = sorted([val + ec * 0.0, val + ec * 5.0])
                lo, hi = ends
            if lb is not None and not hi - lb > -tol:
                bad.add("c")
            if ub is not None and not ub - lo > -tol:
                bad.add("c")
    return bad


def variable_violations(m, cons, x, tol):
    """x: {solver variable name: value} -> letters e, l, u (variable bounds F(lb, ub)), c"""
    bad = set()
    v = {}
    for r in m.reactions:
        f, b = views.var_bounds_for(r.lower_bound, r.upper_bound)
        for nm, (lo, hi) in ((r.id, f), (r.reverse_id, b)):
            if not x[nm] - lo > -tol:
                bad.add("l")
            if not hi - x[nm] > -tol:
                bad.add("u")
        v[r.id] = x[r.id] - x[r.reverse_id]
    bad |= {c for c in flux_violations(m, [], v, tol) if c == "e"}
    for name, coefs, ev, ec, lb, ub in cons:
        val = sum(c * v[rid] for rid, c in coefs.items())
        if ev:
            if not x[ev] - 0.0 > -tol:
                bad.add("l")
            if not 5.0 - x[ev] > -tol:
                bad.add("u")
            val += ec * x[ev]
        if lb is not None and not val - lb > -tol:
            bad.add("c")
        if ub is not None and not ub - val > -tol:
            bad.add("c")
    return bad, v


def expected_code(bad):
    """validate()'s documented code for a row with the bound / equality violations in `bad`"""
    s = "".join(c for c in "lue" if c in bad)
    return s or "v"


# ------------------------------------------------------------------------------------------------ the case
def run_case(spec, method, processes, n, thinning, seed, nproj):
    """-> ({key: text}, info)"""
    quiet()
    import numpy as np
    from cobra.sampling import sample, ACHRSampler, OptGPSampler
    fails = {}
    m, cons = build(spec)
    tol = m.tolerance
    rids = [r.id for r in m.reactions]
    before = flat_obs(m, with_opt=False)
    what = f"{method} processes={processes} n={n} thinning={thinning} seed={seed} nproj={nproj} on {spec}"
    exp_rows = n if method == "achr" or processes <= 1 else int(math.ceil(n / processes)) * processes
    info = {"rows": 0, "outcome": "returned"}

    def fail(key, text):
        fails.setdefault(f"{method}:{key}", f"{what}: {text}")

    def check_flux_frame(df, label, rows):
        if list(df.columns) != rids:
            fail("columns", f"{label}: columns {list(df.columns)} are not the model's reactions in order {rids}")
            return None
        if len(df) != rows:
            fail("row-count", f"{label}: {len(df)} rows, expected {rows}")
        ok = []
        for i in range(len(df)):
            v = {rid: float(df.iloc[i][rid]) for rid in rids}
            bad = flux_violations(m, cons, v, tol)
            info["rows"] += 1
            ok.append(bad)
            if bad:
                fail("infeasible-sample:" + "".join(sorted(bad)), f"{label}: row {i} violates {sorted(bad)} "
                     f"(e steady state, l/u bounds, c extra constraint): {v}")
        return ok

    try:
        # 1. the sample() function, twice with the same seed
        d1 = sample(m, n, method=method, thinning=thinning, processes=processes, seed=seed)
        d2 = sample(m, n, method=method, thinning=thinning, processes=processes, seed=seed)
        check_flux_frame(d1, "sample()", exp_rows)
        if d1.shape != d2.shape or not np.allclose(d1.values, d2.values, rtol=0, atol=1e-12):
            fail("seed-not-reproducible", "two calls of sample() with the same seed differ")

        # 2. sampler objects: variable space and reaction space from identical samplers
        def mk():
            if method == "achr":
                return ACHRSampler(m, thinning=thinning, seed=seed, nproj=nproj)
            return OptGPSampler(m, thinning=thinning, processes=processes, seed=seed, nproj=nproj)
        vnames = [v.name for v in m.variables]
        has_rows = "with-constraints" if cons else "without-constraints"

        def validated(sampler, values, expected, space, label):
            """compare validate() with the independent classification; expected entries: code string, or None = 'not v'"""
            try:
                codes = list(sampler.validate(values))
            except Exception as e:  # noqa
                fails.setdefault(f"validate:{space}:{has_rows}", f"{what}: {label}: validate() raised {type(e).__name__}: {e}")
                return
            wrong = len(codes) != len(expected) or any((c != e) if e is not None else (c == "v") for c, e in zip(codes, expected))
            if wrong:
                fails.setdefault(f"validate:{space}:{has_rows}", f"{what}: {label}: validate() says {codes}, independent check "
                                 f"{[e or 'not v' for e in expected]}")

        # ACHR seeds numpy's global generator when the sampler is CONSTRUCTED: build and use one sampler after the other
        s1 = mk()
        if s1.model is m:
            fail("works-on-the-model-itself", "the sampler holds the model itself, not a copy")
        if s1.feasibility_tol != tol or s1.bounds_tol != tol:
            fail("tolerance", f"sampler tolerances {s1.feasibility_tol}/{s1.bounds_tol} are not the model's {tol}")
        xvs = [s1.sample(n, fluxes=False) for _ in (1, 2)]      # second call: continuing chain of the same object
        s2 = mk()
        xfs = [s2.sample(n, fluxes=True) for _ in (1, 2)]
        for rnd, (xv, xf) in enumerate(zip(xvs, xfs), 1):
            label = f"sampler object, call {rnd}"
            if list(xv.columns) != vnames:
                fail("columns", f"{label}: variable-space columns {list(xv.columns)} are not the solver variables in order {vnames}")
                break
            if len(xv) != exp_rows:
                fail("row-count", f"{label}: {len(xv)} variable-space rows, expected {exp_rows}")
            okf = check_flux_frame(xf, label + " (reaction space)", exp_rows)
            okv = []
            fl = []
            for i in range(len(xv)):
                x = {nm: float(xv.iloc[i][nm]) for nm in vnames}
                bad, v = variable_violations(m, cons, x, tol)
                info["rows"] += 1
                okv.append(bad)
                fl.append([v[r] for r in rids])
                if bad:
                    fail("infeasible-sample:variable-space:" + "".join(sorted(bad)),
                         f"{label}: variable-space row {i} violates {sorted(bad)}: {x}")
            if okf is not None and len(xf) == len(xv) and not np.allclose(np.array(fl), xf.values, rtol=0, atol=1e-9):
                fail("spaces-disagree", f"{label}: the reaction-space sample is not forward - reverse of the variable-space "
                     f"sample of an identical sampler (max difference {np.abs(np.array(fl) - xf.values).max():.3g})")
            if rnd == 1 and nproj is None and okf is not None and xf.shape == d1.shape and \
                    not np.allclose(xf.values, d1.values, rtol=0, atol=1e-12):
                fail("seed-not-reproducible", "the sampler object and sample() with the same arguments and seed differ")
            # 3. validate() against the independent check
            if okf is not None:
                validated(s2, xf.values, [expected_code(b - {"c"}) for b in okf], "reaction-space", label)
            validated(s1, xv.values, ["v" if not b else None for b in okv], "variable-space", label)
        # 4. validate() on deliberately broken rows (reaction space)
        base = d1.values[0].copy() if len(d1) else None
        if base is not None and list(d1.columns) == rids:
            rng = random.Random(f"C16-break-{seed}-{n}")
            broken = []
            for _ in range(4):
                row = base.copy()
                j = rng.randrange(len(rids))
                r = m.reactions[j]
                row[j] = r.upper_bound + 1.0 if rng.random() < 0.5 else r.lower_bound - 1.0
                broken.append(row)
            exp = [expected_code(flux_violations(m, cons, dict(zip(rids, map(float, row))), tol, with_cons=False)) for row in broken]
            validated(s2, np.array(broken), exp, "reaction-space", "deliberately broken rows")
        # 5. variable space: rows on the line through two samples (steady state kept) that break ONLY an extra constraint
        if cons and len(xvs[0]) >= 2 and list(xvs[0].columns) == vnames:
            x1, x2 = xvs[0].values[0], xvs[0].values[-1]
            only_c = []
            for t in (1.5, 2.0, 3.0, 5.0, 10.0, 30.0, -0.5, -1.0, -2.0, -4.0, -9.0, -29.0):
                row = x1 + t * (x2 - x1)
                bad, _ = variable_violations(m, cons, dict(zip(vnames, map(float, row))), tol)
                if bad == {"c"}:
                    only_c.append(row)
            if only_c:
                validated(s1, np.array(only_c), [None] * len(only_c), "variable-space",
                          "rows that satisfy steady state and variable bounds but break an extra constraint")
    except Exception as e:  # noqa  (a sampler may refuse a model; it must still leave it alone)
        info["outcome"] = f"raised {type(e).__name__}: {str(e)[:80]}"
        # the models are pre-selected by the exact oracle (feasible, finite bounds, >= 2 reactions with a non-degenerate
        # range): the requested number of samples has to be returned - except for the two refusals the samplers document
        # (flux space is a single point / an inhomogeneous problem whose flux space is a line: 2 warm-up points)
        documented = isinstance(e, ValueError) and ("only 2 search directions" in str(e) or "single point" in str(e))
        if not documented:
            fail("raised", f"no samples: {type(e).__name__}: {e}")
    d = diff_obs(before, flat_obs(m, with_opt=False))
    if d:
        fail("model-changed", f"the model changed: {fmt_diff(d)}")
    return fails, info


def _run_task(task):
    f, info = run_case(task["model"], task["method"], task["processes"], task["n"], task["thinning"], task["seed"], task["nproj"])
    return task, f, info


COMBOS = {"quick": [(1, 1), (4, 2), (7, 5), (12, 1)], "thorough": [(1, 1), (2, 1), (4, 2), (7, 5), (12, 1), (25, 10), (40, 3)]}
FIXED_SAMPLER_SEEDS = {"quick": [1, 2, 3], "thorough": [1, 2, 3, 4, 5, 6]}


def tasks_for(tier, seed):
    """FIXED part: hand-made models x methods x (n, thinning) x fixed sampler seeds, nproj a fixed function of the case;
    SEEDED part: random models, sampler seeds and nproj drawn from the seed."""
    fixed, seeded = model_specs(tier, seed)
    rng = random.Random(f"C16-run-{seed}")
    sseeds = [1000 + seed * 7 + i for i in (1, 2, 3)] if tier == "quick" else [1000 + seed * 7 + i for i in range(1, 7)]
    tasks = []
    for part, specs, seeds in ((True, fixed, FIXED_SAMPLER_SEEDS[tier]), (False, seeded, sseeds)):
        for spec in specs:
            for method, procs in (("achr", 1), ("optgp", 1), ("optgp", 2)):
                for n, th in COMBOS[tier]:
                    for sd in seeds:
                        if procs == 2 and tier == "quick" and (n, th) in ((1, 1), (12, 1)) and sd != seeds[0]:
                            continue
                        nproj = [None, 1, 3, 7][(n + th + sd) % 4] if part else rng.choice([None, 1, 3, 7])
                        tasks.append({"model": spec, "method": method, "processes": procs, "n": n, "thinning": th, "seed": sd,
                                      "nproj": nproj, "fixed": part})
    return tasks, fixed + seeded


def witness(task):
    return (f"{':'.join(map(str, task['model']))}|{task['method']}|p{task['processes']}|n{task['n']}|t{task['thinning']}|s{task['seed']}"
            f"|nproj{task['nproj']}")


def execute(tasks, tier="quick", seed=0):
    order = list(range(len(tasks)))
    random.Random(seed).shuffle(order)
    shuffled = [tasks[i] for i in order]
    res = run_tasks(_run_task, shuffled, nproc=16, task_timeout=240 if tier == "quick" else 900)
    items = []
    rows = 0
    nontrivial = 0
    raised = {}
    for task, (status, val) in zip(shuffled, res):
        if status != "ok":
            f = {f"{task['method']}:{status}": f"task {task} ended with {status}: {val}"}
        else:
            _, f, info = val
            rows += info["rows"]
            if info["outcome"] == "returned":
                nontrivial += 1
            else:
                raised[info["outcome"]] = raised.get(info["outcome"], 0) + 1
        items.append((task["fixed"], witness(task), {k: v for k, v in task.items() if k != "fixed"}, f))
    return collect_failures(items), len(res), nontrivial, {"rows_checked": rows, "raised": raised}


def run(tier="quick", seed=0):
    quiet()
    import cobra  # noqa: F401
    t0 = time.time()
    tasks, specs = tasks_for(tier, seed)
    out_f, n, nontrivial, extra = execute(tasks, tier, seed)
    return {
        "evaluations": n,
        "distinct_nontrivial": nontrivial,
        "rule": "case = (model, method, processes, n, thinning, seed, nproj): sample() twice + two sampler objects sampled twice "
                "in both spaces + validate(); every returned row is checked; distinct by construction; non-trivial = the "
                "samplers returned samples (models are pre-selected by the exact oracle: feasible, >= 2 reactions with a "
                "non-degenerate range). Fixed part: hand-made models with fixed sampler seeds - every failing witness reported; "
                "seeded part: random models / sampler seeds drawn from the seed - one entry per class, witness random:<class>",
        "bounds": dict({"models": len(specs), "flavours": list(FLAVOURS), "metabolites": "2-4", "reactions": "3-6 + exchanges",
                        "n": sorted({t["n"] for t in tasks}), "thinning": sorted({t["thinning"] for t in tasks}),
                        "nproj": [None, 1, 3, 7], "processes": [1, 2], "seconds": round(time.time() - t0, 1)}, **extra),
        "exhaustive": False,
        "samples": [{k: v for k, v in tasks[i].items() if k != "fixed"} for i in (0, len(tasks) // 2, len(tasks) - 1)],
        "failures": out_f,
    }


def replay(payload):
    quiet()
    f, _ = run_case(payload["model"], payload["method"], payload["processes"], payload["n"], payload["thinning"],
                    payload["seed"], payload["nproj"])
    key = payload.get("key")
    if key is None:
        return "; ".join(f"{k}: {v}" for k, v in f.items()) or None
    return f.get(key)
