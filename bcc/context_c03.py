"""C03 helper: model recipes, the alphabet of context-aware operations, the nested-`with` executor with the
snapshot oracle, and the shrinker that turns a failing history into a minimal one with a stable key.

Everything a case needs is JSON-able:

    case    = {"model": recipe, "prog": block}
    block   = {"with": [item, ...], "exit": "normal" | "raise", "catch": bool?}
    item    = block | op
    op      = {"op": <name in OPS>, "k": <coarse kind label used in keys>, <arguments...>, "catch": bool?}

Semantics of the executor (mirrors the Python `with` statement on the real `cobra.Model`):
  * a block calls `model.__enter__()`, takes `views.snapshot(model)`, runs its items in order, raises a sentinel
    exception at its end when exit == "raise", then calls `model.__exit__(exc_type, exc, tb)`;
  * an exception raised by an operation (naturally: duplicate id, lb>ub, unknown id, ...) leaves the enclosing block(s)
    through `__exit__` exactly like the sentinel, unless the op/block carries "catch": true (a `try/except` directly
    around that statement), in which case the enclosing block goes on with its next item;
  * after every `__exit__`: the exit did not raise, the snapshot equals the one taken at the entry of THAT block
    (modulo list order, floats to 1e-9 relative), and `check_xref` / `check_lp_reported` report what they reported
    at entry (i.e. nothing, for the outermost block of a well-formed recipe).
"""
import copy
import json
import logging
import math
import random
import re
import warnings

from . import gen, views

warnings.filterwarnings("ignore")
logging.getLogger("cobra").setLevel(logging.CRITICAL)
logging.getLogger("optlang").setLevel(logging.CRITICAL)

INF = float("inf")


# --------------------------------------------------------------------------------------------------------------------
# model recipes
# --------------------------------------------------------------------------------------------------------------------
def toy_model(objective=None, direction="max", group=False, rules=None, bounds=None):
    """EX_a_e: a_e <=> ; TR: a_e -> a_c (g1); R1: a_c -> b_c (g1 and g2); R2: b_c <=> c_c (g2 or g3); DM_c_c: c_c ->
    two compartments (so that exchanges / medium / add_boundary work), names, formulas, annotation, 3 genes."""
    import cobra
    m = cobra.Model("toy")
    a_e = cobra.Metabolite("a_e", compartment="e", name="A ext", formula="C1H2", charge=0)
    a_c = cobra.Metabolite("a_c", compartment="c", name="A", formula="C1H2", charge=0)
    b_c = cobra.Metabolite("b_c", compartment="c", name="B", formula="C1H2", charge=0)
    c_c = cobra.Metabolite("c_c", compartment="c", name="C", formula="C1H2", charge=0)
    c_c.annotation["kegg.compound"] = ["C00001"]
    ex = cobra.Reaction("EX_a_e", name="A exchange", lower_bound=-10.0, upper_bound=1000.0)
    ex.add_metabolites({a_e: -1.0})
    ex.annotation["sbo"] = "SBO:0000627"
    tr = cobra.Reaction("TR", name="A transport", lower_bound=0.0, upper_bound=1000.0)
    tr.add_metabolites({a_e: -1.0, a_c: 1.0})
    r1 = cobra.Reaction("R1", name="first", subsystem="S1", lower_bound=0.0, upper_bound=1000.0)
    r1.add_metabolites({a_c: -1.0, b_c: 1.0})
    r2 = cobra.Reaction("R2", name="second", subsystem="S1", lower_bound=-1000.0, upper_bound=1000.0)
    r2.add_metabolites({b_c: -2.0, c_c: 2.0})
    dm = cobra.Reaction("DM_c_c", name="C demand", lower_bound=0.0, upper_bound=1000.0)
    dm.add_metabolites({c_c: -1.0})
    r2.notes["n"] = "note"
    m.add_reactions([ex, tr, r1, r2, dm])
    rl = {"TR": "g1", "R1": "g1 and g2", "R2": "g2 or g3"}
    rl.update(rules or {})
    for rid, rule in rl.items():
        m.reactions.get_by_id(rid).gene_reaction_rule = rule
    for rid, b in (bounds or {}).items():
        m.reactions.get_by_id(rid).bounds = tuple(b)
    m.genes.get_by_id("g1").name = "gene one"
    m.compartments = {"e": "extracellular", "c": "cytosol"}
    from cobra.util.solver import set_objective
    set_objective(m, {m.reactions.get_by_id(k): v for k, v in (objective or {"DM_c_c": 1.0}).items()})
    m.objective_direction = direction
    if group:
        from cobra.core import Group
        m.add_groups([Group("grp1", name="group one", kind="partonomy",
                            members=[m.reactions.R1, m.metabolites.b_c, m.genes.g2])])
    return m


def build_model(recipe):
    kind = recipe["kind"]
    args = dict(recipe.get("args", {}))
    if kind == "toy":
        m = toy_model(**args)
    elif kind == "chain":
        m = gen.linear_chain(**args)
    elif kind == "random":
        b = args.pop("bounds", "SAFE")
        m = gen.random_model(random.Random(recipe["seed"]), bounds=gen.SAFE_BOUNDS if b == "SAFE" else gen.BOUNDS, **args)
    elif kind == "desc":
        m = gen.rebuild(recipe["desc"])
    else:
        raise ValueError(kind)
    for op in recipe.get("pre", []):  # operations applied before any context is opened
        OPS[op["op"]](m, op)
    return m


# --------------------------------------------------------------------------------------------------------------------
# operations
# --------------------------------------------------------------------------------------------------------------------
def _R(m, rid):
    return m.reactions.get_by_id(rid)


def _M(m, mid):
    return m.metabolites.get_by_id(mid)


def _G(m, gid):
    return m.genes.get_by_id(gid)


def _num(x):
    if x == "inf":
        return INF
    if x == "-inf":
        return -INF
    return x


def _met_dict(m, mets):
    """[[id, coef, mode]]: mode obj = the model's object, str = identifier, new = a fresh Metabolite object"""
    import cobra
    out = {}
    for mid, coef, mode in mets:
        if mode == "obj":
            key = _M(m, mid)
        elif mode == "str":
            key = mid
        else:
            key = cobra.Metabolite(mid, compartment="c", name="fresh " + mid)
        out[key] = coef
    return out


def _mk_reaction(m, spec):
    import cobra
    r = cobra.Reaction(spec["id"], name=spec.get("name", ""), lower_bound=_num(spec.get("lb", 0.0)),
                       upper_bound=_num(spec.get("ub", 1000.0)))
    fresh = {}
    mets = {}
    for mid, coef, mode in spec["mets"]:
        if mode == "obj":
            met = _M(m, mid)
        else:
            met = fresh.setdefault(mid, cobra.Metabolite(mid, compartment=spec.get("comp", "c")))
        mets[met] = coef
    r.add_metabolites(mets)
    if spec.get("rule"):
        r.gene_reaction_rule = spec["rule"]
    return r


def _mk_reactions(m, specs):
    import cobra
    shared = {}
    out = []
    for spec in specs:
        r = cobra.Reaction(spec["id"], name=spec.get("name", ""), lower_bound=_num(spec.get("lb", 0.0)),
                           upper_bound=_num(spec.get("ub", 1000.0)))
        mets = {}
        for mid, coef, mode in spec["mets"]:
            if mode == "obj":
                met = _M(m, mid)
            else:
                met = shared.setdefault(mid, cobra.Metabolite(mid, compartment=spec.get("comp", "c")))
            mets[met] = coef
        r.add_metabolites(mets)
        if spec.get("rule"):
            r.gene_reaction_rule = spec["rule"]
        out.append(r)
    return out


def _expr(m, terms, local=None):
    from optlang.symbolics import Zero
    e = Zero
    for name, coef in terms.items():
        if name.startswith("var:"):
            vn = name[4:]
            v = (local or {}).get(vn)
            if v is None:
                v = m.variables[vn]
            e = e + coef * v
        else:
            e = e + coef * _R(m, name).flux_expression
    return e


def op_bounds(m, a):
    _R(m, a["r"]).bounds = (_num(a["lb"]), _num(a["ub"]))


def op_lower_bound(m, a):
    _R(m, a["r"]).lower_bound = _num(a["x"])


def op_upper_bound(m, a):
    _R(m, a["r"]).upper_bound = _num(a["x"])


def op_r_knock_out(m, a):
    _R(m, a["r"]).knock_out()


def op_g_knock_out(m, a):
    _G(m, a["g"]).knock_out()


def op_knock_out_model_genes(m, a):
    from cobra.manipulation import knock_out_model_genes
    knock_out_model_genes(m, list(a["genes"]))


def op_g_functional(m, a):
    _G(m, a["g"]).functional = a["x"]


def op_objective(m, a):
    how = a["how"]
    if how == "reaction":
        m.objective = _R(m, a["r"])
    elif how == "id":
        m.objective = a["r"]
    elif how == "dict":
        m.objective = {_R(m, k): v for k, v in a["terms"].items()}
    elif how == "expr":
        m.objective = _expr(m, a["terms"])
    elif how == "Objective":
        m.objective = m.problem.Objective(_expr(m, a["terms"]), direction=a.get("direction", "max"))
    else:
        raise ValueError(how)


def op_objective_coefficient(m, a):
    _R(m, a["r"]).objective_coefficient = a["x"]


def op_objective_direction(m, a):
    m.objective_direction = a["x"]


def op_add_metabolites(m, a):
    _R(m, a["r"]).add_metabolites(_met_dict(m, a["mets"]), combine=a.get("combine", True))


def op_subtract_metabolites(m, a):
    _R(m, a["r"]).subtract_metabolites(_met_dict(m, a["mets"]), combine=a.get("combine", True))


def op_imul(m, a):
    r = _R(m, a["r"])
    r *= a["x"]


def _other(m, a):
    if "ref" in a["other"]:
        return _R(m, a["other"]["ref"])
    return _mk_reaction(m, a["other"]["new"])


def op_iadd(m, a):
    r = _R(m, a["r"])
    r += _other(m, a)


def op_isub(m, a):
    r = _R(m, a["r"])
    r -= _other(m, a)


def op_gpr(m, a):
    _R(m, a["r"]).gene_reaction_rule = a["rule"]


def op_gpr_obj(m, a):
    from cobra.core.gene import GPR
    _R(m, a["r"]).gpr = GPR.from_string(a["rule"])


def op_build_reaction_from_string(m, a):
    _R(m, a["r"]).build_reaction_from_string(a["s"], verbose=False)


def op_add_reactions(m, a):
    m.add_reactions(_mk_reactions(m, a["specs"]))


def op_remove_reactions(m, a):
    if a.get("as", "obj") == "obj":
        what = [_R(m, r) for r in a["rs"]]
    else:
        what = list(a["rs"])
    m.remove_reactions(what, remove_orphans=a.get("remove_orphans", False))


def op_r_remove_from_model(m, a):
    _R(m, a["r"]).remove_from_model(remove_orphans=a.get("remove_orphans", False))


def op_add_model_metabolites(m, a):
    import cobra
    m.add_metabolites([cobra.Metabolite(i, compartment="c", name="added " + i) for i in a["ids"]])


def op_remove_metabolites(m, a):
    m.remove_metabolites([_M(m, i) for i in a["ms"]], destructive=a.get("destructive", False))


def op_m_remove_from_model(m, a):
    _M(m, a["m"]).remove_from_model(destructive=a.get("destructive", False))


def op_add_boundary(m, a):
    kw = {}
    for k in ("reaction_id", "lb", "ub", "sbo_term"):
        if k in a:
            kw[k] = a[k]
    m.add_boundary(_M(m, a["m"]), type=a["type"], **kw)


def _mk_consvars(m, what):
    prob = m.problem
    out, local = [], {}
    for w in what:
        if w["t"] == "var":
            v = prob.Variable(w["name"], lb=w.get("lb"), ub=w.get("ub"))
            local[w["name"]] = v
            out.append(v)
        else:
            out.append(prob.Constraint(_expr(m, w["expr"], local), lb=w.get("lb"), ub=w.get("ub"), name=w["name"]))
    return out


def op_add_cons_vars(m, a):
    m.add_cons_vars(_mk_consvars(m, a["what"]))


def op_remove_cons_vars(m, a):
    what = []
    for t, name in a["names"]:
        what.append(m.constraints[name] if t == "cons" else m.variables[name])
    m.remove_cons_vars(what)


def op_remove_genes(m, a):
    from cobra.manipulation import remove_genes
    remove_genes(m, list(a["gs"]), remove_reactions=a.get("remove_reactions", True))


def op_rename_genes(m, a):
    from cobra.manipulation.modify import rename_genes
    rename_genes(m, dict(a["map"]))


def op_medium(m, a):
    m.medium = dict(a["medium"])


def op_merge(m, a):
    other = build_model(a["other"])
    m.merge(other, inplace=True, objective=a.get("objective", "left"), prefix_existing=a.get("prefix_existing"))


def op_solver(m, a):
    m.solver = a["x"]


def op_add_pfba(m, a):
    from cobra.flux_analysis.parsimonious import add_pfba
    obj = a.get("objective")
    if obj is not None:
        obj = {_R(m, k): v for k, v in obj.items()}
    add_pfba(m, objective=obj, fraction_of_optimum=a.get("fraction", 1.0))


def op_add_moma(m, a):
    from cobra.flux_analysis.moma import add_moma
    sol = m.optimize() if a.get("solution") == "given" else None
    add_moma(m, solution=sol, linear=True)


def _finite_bounds(m, what):
    """ROOM and the loopless formulation multiply by the reaction bounds; with an infinite bound the coefficient is inf
    and GLPK calls abort() at the next optimisation, killing the interpreter (nothing to do with contexts).  A caller
    has to check this himself, so the harness does."""
    if any(math.isinf(b) for r in m.reactions for b in r.bounds):
        raise ValueError(f"{what} needs finite bounds")


def op_add_room(m, a):
    from cobra.flux_analysis.room import add_room
    _finite_bounds(m, "add_room")
    sol = m.optimize() if a.get("solution") == "given" else None
    add_room(m, solution=sol, linear=a.get("linear", True))


def op_fix_objective(m, a):
    from cobra.util.solver import fix_objective_as_constraint
    kw = {}
    if "bound" in a:
        kw["bound"] = a["bound"]
    fix_objective_as_constraint(m, fraction=a.get("fraction", 1.0), **kw)


def op_add_loopless(m, a):
    from cobra.flux_analysis.loopless import add_loopless
    _finite_bounds(m, "add_loopless")
    add_loopless(m)


def op_add_lp_feasibility(m, a):
    from cobra.util.solver import add_lp_feasibility
    add_lp_feasibility(m)


def op_add_absolute_expression(m, a):
    from cobra.util.solver import add_absolute_expression
    add_absolute_expression(m, _expr(m, a["terms"]), name=a["name"], ub=a.get("ub"), difference=a.get("difference", 0.0))


OPS = {k[3:]: v for k, v in list(globals().items()) if k.startswith("op_")}


# --------------------------------------------------------------------------------------------------------------------
# alphabet: the operations instantiated on a given model
# --------------------------------------------------------------------------------------------------------------------
def _roles(m):
    """pick the elements the alphabet refers to (deterministic in the model)"""
    from cobra.util.solver import linear_reaction_coefficients
    rx = list(m.reactions)
    obj = [r for r in linear_reaction_coefficients(m)]
    internal = [r for r in rx if not r.boundary]
    boundary = [r for r in rx if r.boundary]
    with_genes = [r for r in internal if r._genes] or [r for r in rx if r._genes]
    rA = (with_genes or internal or rx)[0]
    rO = obj[0] if obj else rx[-1]
    others = [r for r in rx if r is not rA and r is not rO]
    rB = ([r for r in others if not r.boundary] or others or [rO])[0]
    rX = (boundary or rx)[0]
    mA = sorted(rA._metabolites, key=lambda x: x.id)[0] if rA._metabolites else m.metabolites[0]
    notin = [x for x in m.metabolites if x not in rA._metabolites]
    mB = notin[0] if notin else None
    gs = sorted(g.id for g in m.genes)
    gA = sorted(g.id for g in rA._genes)[0] if rA._genes else (gs[0] if gs else None)
    gB = ([g for g in gs if g != gA] or [None])[0]
    return dict(rA=rA, rB=rB, rO=rO, rX=rX, mA=mA, mB=mB, gA=gA, gB=gB, genes=gs)


def alphabet(m):
    """-> list of ops (dicts). "core": True marks one representative per anchored branch (the reduced alphabet)."""
    ro = _roles(m)
    rA, rB, rO, rX, mA, mB, gA, gB = (ro[k] for k in ("rA", "rB", "rO", "rX", "mA", "mB", "gA", "gB"))
    A = []

    def add(op, k, core=False, **kw):
        d = {"op": op, "k": k}
        d.update(kw)
        if core:
            d["core"] = True
        A.append(d)

    # -- bounds, knock-outs ------------------------------------------------------------------------------------------
    add("bounds", "bounds", True, r=rA.id, lb=-5.0, ub=5.0)
    add("bounds", "bounds", r=rO.id, lb=1.0, ub=10.0)
    add("bounds", "bounds", r=rX.id, lb=-10.0, ub=-1.0)
    add("bounds", "bounds", r=rB.id, lb=0.0, ub="inf")
    add("bounds", "bounds:lb>ub", True, r=rA.id, lb=5.0, ub=1.0)
    add("lower_bound", "lower_bound", True, r=rA.id, x=-3.0)
    add("lower_bound", "lower_bound:lb>ub", True, r=rA.id, x=rA.upper_bound + 1 if rA.upper_bound < INF else 2e9)
    add("upper_bound", "upper_bound", True, r=rB.id, x=7.0 if rB.lower_bound <= 7.0 else rB.lower_bound + 1)
    add("upper_bound", "upper_bound:lb>ub", r=rB.id, x=rB.lower_bound - 1 if rB.lower_bound > -INF else -2e9)
    add("r_knock_out", "reaction.knock_out", True, r=rO.id)
    add("r_knock_out", "reaction.knock_out", r=rA.id)
    for i, g in enumerate(ro["genes"][:3]):
        add("g_knock_out", "gene.knock_out", i == 0, g=g)
    if ro["genes"]:
        add("knock_out_model_genes", "knock_out_model_genes", True, genes=ro["genes"][:2])
        add("knock_out_model_genes", "knock_out_model_genes:unknown", genes=ro["genes"][:1] + ["nope"])
        add("g_functional", "gene.functional", True, g=gA, x=False)
        add("g_functional", "gene.functional:bad-value", g=gA, x="no")
    # -- objective ---------------------------------------------------------------------------------------------------
    add("objective", "objective:reaction", True, how="reaction", r=rA.id)
    add("objective", "objective:id", how="id", r=rB.id)
    add("objective", "objective:dict", True, how="dict", terms={rA.id: 2.0, rB.id: -1.0})
    add("objective", "objective:expr", True, how="expr", terms={rB.id: 1.0, rO.id: 3.0})
    add("objective", "objective:Objective", True, how="Objective", terms={rA.id: 1.0}, direction="min")
    add("objective", "objective:unknown-id", True, how="id", r="nope")
    add("objective_coefficient", "objective_coefficient", True, r=rB.id, x=3.0)
    add("objective_coefficient", "objective_coefficient", r=rO.id, x=0.0)
    other_dir = "min" if m.objective_direction == "max" else "max"
    add("objective_direction", "objective_direction", True, x=other_dir)
    add("objective_direction", "objective_direction", x="maximize" if m.objective_direction == "min" else "minimize")
    add("objective_direction", "objective_direction:bad-value", True, x="sideways")
    # -- stoichiometry -----------------------------------------------------------------------------------------------
    cA = rA._metabolites.get(mA, 1.0)
    add("add_metabolites", "add_metabolites:combine:existing", True, r=rA.id, mets=[[mA.id, 1.0, "obj"]])
    add("add_metabolites", "add_metabolites:combine:to-zero", True, r=rA.id, mets=[[mA.id, -cA, "str"]])
    if mB is not None:
        add("add_metabolites", "add_metabolites:combine:model-met", True, r=rA.id, mets=[[mB.id, 2.0, "obj"]])
        add("add_metabolites", "add_metabolites:combine:model-met", r=rA.id, mets=[[mB.id, -1.0, "str"]])
        add("add_metabolites", "add_metabolites:replace:model-met", True, r=rA.id, mets=[[mB.id, 2.0, "obj"]],
            combine=False)
        add("subtract_metabolites", "subtract_metabolites:combine:model-met", r=rA.id, mets=[[mB.id, 1.0, "obj"]])
    add("add_metabolites", "add_metabolites:combine:new-met", True, r=rA.id, mets=[["new_c", 1.0, "new"]])
    add("add_metabolites", "add_metabolites:combine:fresh-object-same-id", r=rA.id, mets=[[mA.id, 1.0, "new"]])
    add("add_metabolites", "add_metabolites:combine:mixed", r=rB.id,
        mets=[[mA.id, 1.0, "obj"], ["new_c", -2.0, "new"]])
    add("add_metabolites", "add_metabolites:unknown-id", True, r=rA.id, mets=[["nope_c", 1.0, "str"]])
    add("add_metabolites", "add_metabolites:valid-then-unknown-id", True, r=rA.id,
        mets=[[mA.id, 1.0, "obj"], ["nope_c", 1.0, "str"]])
    add("add_metabolites", "add_metabolites:replace:existing", True, r=rA.id, mets=[[mA.id, 3.0, "obj"]], combine=False)
    add("add_metabolites", "add_metabolites:replace:existing", r=rA.id, mets=[[mA.id, 3.0, "str"]], combine=False)
    add("add_metabolites", "add_metabolites:replace:new-met", True, r=rA.id, mets=[["new2_c", 1.0, "new"]], combine=False)
    add("add_metabolites", "add_metabolites:replace:fresh-object-same-id", True, r=rA.id, mets=[[mA.id, 3.0, "new"]],
        combine=False)
    add("subtract_metabolites", "subtract_metabolites:combine:existing", True, r=rA.id, mets=[[mA.id, 0.5, "obj"]])
    add("subtract_metabolites", "subtract_metabolites:combine:to-zero", True, r=rA.id, mets=[[mA.id, cA, "obj"]])
    add("subtract_metabolites", "subtract_metabolites:replace:existing", r=rA.id, mets=[[mA.id, 2.0, "obj"]],
        combine=False)
    add("imul", "imul:positive", True, r=rA.id, x=2.0)
    add("imul", "imul:negative", True, r=rA.id, x=-1.0)
    add("imul", "imul:positive", r=rO.id, x=0.5)
    add("imul", "imul:negative", r=rX.id, x=-2.0)
    # scaling by zero has no inverse scaling: before the repair of Reaction.__imul__ the undo `__imul__(1.0 / 0)` made the operation
    # raise ZeroDivisionError after the stoichiometry had been zeroed, and nothing put it back on exit
    add("imul", "imul:zero", True, r=rA.id, x=0.0)
    add("iadd", "iadd:model-reaction", True, r=rA.id, other={"ref": rB.id})
    add("iadd", "iadd:fresh-reaction", True, r=rA.id,
        other={"new": {"id": "tmp", "mets": [[mA.id, -1.0, "new"], ["new3_c", 1.0, "new"]], "rule": "gX or g1"}})
    add("isub", "isub:model-reaction", True, r=rA.id, other={"ref": rB.id})
    add("isub", "isub:self", r=rB.id, other={"ref": rB.id})
    add("isub", "isub:fresh-reaction", r=rA.id,
        other={"new": {"id": "tmp", "mets": [[mA.id, 1.0, "new"], ["new3_c", 1.0, "new"]], "rule": ""}})
    add("gpr", "gene_reaction_rule:empty", True, r=rA.id, rule="")
    add("gpr", "gene_reaction_rule:existing-genes", True, r=rB.id, rule=" and ".join(ro["genes"][:2]) or "gN1")
    add("gpr", "gene_reaction_rule:new-genes", True, r=rA.id, rule="gN1 or (%s and gN2)" % (gA or "gN3"))
    add("gpr", "gene_reaction_rule:new-genes", r=rO.id, rule="gN1")
    # the same shape with the two new genes swapped: the order in which genes are created follows the iteration order
    # of a set of strings (PYTHONHASHSEED); one of the two spellings meets either order
    add("gpr", "gene_reaction_rule:new-genes", True, r=rA.id, rule="gN2 or (%s and gN1)" % (gA or "gN3"))
    add("gpr_obj", "gpr:new-genes", True, r=rA.id, rule="gN4 and gN1")
    add("build_reaction_from_string", "build_reaction_from_string", True, r=rA.id,
        s="%s + 2 brs_c --> %s" % (mA.id, (mB or mA).id))
    add("build_reaction_from_string", "build_reaction_from_string:no-arrow", r=rA.id, s="%s + brs_c" % mA.id)
    # -- adding / removing -------------------------------------------------------------------------------------------
    add("add_reactions", "add_reactions:model-mets", True,
        specs=[{"id": "NEW1", "mets": [[mA.id, -1.0, "obj"]] + ([[mB.id, 1.0, "obj"]] if mB is not None else []),
                "rule": (gA or "gN1"), "lb": -7.0, "ub": 7.0}])
    add("add_reactions", "add_reactions:new-mets-new-genes", True,
        specs=[{"id": "NEW2", "mets": [[mA.id, -1.0, "copy"], ["x1_c", 1.0, "new"]], "rule": "gN1 and %s" % (gA or "gN2")},
               {"id": "NEW3", "mets": [["x1_c", -1.0, "new"], ["x2_c", 2.0, "new"]], "rule": "gN1"}])
    add("add_reactions", "add_reactions:duplicate-id", True,
        specs=[{"id": rA.id, "mets": [[mA.id, -1.0, "obj"]], "rule": "gN5"}])
    add("add_reactions", "add_reactions:new+duplicate", specs=[
        {"id": "NEW4", "mets": [["x3_c", 1.0, "new"]], "rule": ""},
        {"id": rB.id, "mets": [[mA.id, -1.0, "copy"]], "rule": ""}])
    add("remove_reactions", "remove_reactions", True, rs=[rA.id])
    add("remove_reactions", "remove_reactions:objective-reaction", True, rs=[rO.id], **{"as": "str"})
    add("remove_reactions", "remove_reactions:remove_orphans", True, rs=[rA.id], remove_orphans=True)
    add("remove_reactions", "remove_reactions:remove_orphans", rs=[rX.id, rB.id], remove_orphans=True)
    add("remove_reactions", "remove_reactions:remove_orphans", rs=[r.id for r in m.reactions], remove_orphans=True)
    add("remove_reactions", "remove_reactions:unknown", rs=[rB.id, "nope"], **{"as": "str"})
    add("r_remove_from_model", "reaction.remove_from_model", r=rB.id, remove_orphans=False)
    add("r_remove_from_model", "reaction.remove_from_model:remove_orphans", r=rX.id, remove_orphans=True)
    add("add_model_metabolites", "model.add_metabolites", True, ids=["y1_c", "y2_c"])
    add("add_model_metabolites", "model.add_metabolites:existing", ids=[mA.id, "y3_c"])
    add("add_model_metabolites", "model.add_metabolites:bad-id", True, ids=["y4_c", ""])
    add("remove_metabolites", "remove_metabolites", True, ms=[mA.id])
    add("remove_metabolites", "remove_metabolites:destructive", True, ms=[mA.id], destructive=True)
    if mB is not None:
        add("remove_metabolites", "remove_metabolites", ms=[mA.id, mB.id])
        add("m_remove_from_model", "metabolite.remove_from_model:destructive", m=mB.id, destructive=True)
    add("m_remove_from_model", "metabolite.remove_from_model", m=mA.id)
    # a metabolite that only exists once `r += fresh reaction` / `r -= fresh reaction` has brought it into the model
    add("remove_metabolites", "remove_metabolites:brought-by-iadd", True, ms=["new3_c"])
    ext = [x for x in m.metabolites if x.compartment == "e"]
    intl = [x for x in m.metabolites if x.compartment != "e"]
    if ext:
        free = [x for x in ext if "EX_" + x.id not in m.reactions]
        if free:
            add("add_boundary", "add_boundary:exchange", True, m=free[0].id, type="exchange")
        add("add_boundary", "add_boundary:exists", True, m=ext[0].id, type="exchange", reaction_id=rA.id)
    if intl:
        add("add_boundary", "add_boundary:demand", True, m=intl[0].id, type="demand", reaction_id="DMX_" + intl[0].id)
        add("add_boundary", "add_boundary:sink", m=intl[-1].id, type="sink", lb=-3.0, ub=4.0)
        add("add_boundary", "add_boundary:not-external", True, m=intl[0].id, type="exchange")
        add("add_boundary", "add_boundary:custom", m=intl[0].id, type="my-boundary", reaction_id="MYB", lb=0.0, ub=2.0,
            sbo_term="SBO:0000628")
        add("add_boundary", "add_boundary:custom-no-id", m=intl[0].id, type="my-boundary")
    add("add_cons_vars", "add_cons_vars", True,
        what=[{"t": "var", "name": "uv1", "lb": 0.0, "ub": 5.0},
              {"t": "cons", "name": "uc1", "expr": {rA.id: 1.0, rB.id: -2.0, "var:uv1": 1.0}, "lb": 0.0, "ub": 3.0}])
    add("add_cons_vars", "add_cons_vars", what=[{"t": "cons", "name": "uc2", "expr": {rO.id: 1.0}, "lb": None, "ub": 9.0}])
    add("remove_cons_vars", "remove_cons_vars:constraint", True, names=[["cons", "uc1"]])
    add("remove_cons_vars", "remove_cons_vars:variable+constraint", True, names=[["cons", "uc1"], ["var", "uv1"]])
    add("remove_cons_vars", "remove_cons_vars:variable", names=[["var", "uv1"]])
    if ro["genes"]:
        add("remove_genes", "remove_genes", True, gs=[gA], remove_reactions=True)
        add("remove_genes", "remove_genes:keep-reactions", True, gs=[gA], remove_reactions=False)
        if gB:
            add("remove_genes", "remove_genes:keep-reactions", gs=[gA, gB], remove_reactions=False)
            add("remove_genes", "remove_genes", gs=[gB], remove_reactions=True)
            add("rename_genes", "rename_genes:onto-existing", True, map={gA: gB})
        add("remove_genes", "remove_genes:unknown", gs=["nope"], remove_reactions=True)
        add("rename_genes", "rename_genes:new-id", True, map={gA: "gR1"})
        add("rename_genes", "rename_genes:new-id", map={gA: "gR1", "nope": "gR2"})
    exch = [r for r in m.exchanges] if m.reactions else []
    if exch:
        add("medium", "medium", True, medium={exch[0].id: 5.0})
        add("medium", "medium:empty", medium={})
        add("medium", "medium:unknown-id", True, medium={exch[0].id: 3.0, "nope": 1.0})
        add("medium", "medium:non-exchange", medium={rA.id: 4.0})
    add("merge", "merge:left", True, other={"kind": "chain", "args": {"n_internal": 1, "rules": {"R0": "g1 or gM"}}},
        objective="left")
    add("merge", "merge:sum", True, other={"kind": "chain", "args": {"n_internal": 1}}, objective="sum", prefix_existing="o_")
    add("merge", "merge:right", other={"kind": "toy", "args": {"direction": "min"}}, objective="right", prefix_existing="o_")
    add("solver", "solver:glpk_exact", True, x="glpk_exact")
    add("solver", "solver:same", x="glpk")
    add("solver", "solver:unknown", x="nosuchsolver")
    # -- analysis helpers --------------------------------------------------------------------------------------------
    add("add_pfba", "add_pfba", True)
    add("add_pfba", "add_pfba:objective", objective={rB.id: 1.0}, fraction=0.5)
    add("add_moma", "add_moma", True)
    add("add_moma", "add_moma:solution", solution="given")
    add("add_room", "add_room:linear", True)
    add("add_room", "add_room:milp", linear=False, solution="given")
    add("fix_objective", "fix_objective_as_constraint", True, fraction=0.9)
    add("fix_objective", "fix_objective_as_constraint:bound", bound=1.0)
    add("add_loopless", "add_loopless", True)
    add("add_lp_feasibility", "add_lp_feasibility", True)
    add("add_absolute_expression", "add_absolute_expression", True, terms={rA.id: 2.0}, name="absx", ub=100.0)
    return A


# --------------------------------------------------------------------------------------------------------------------
# snapshot comparison (floats to 1e-9 relative; everything else exact)
# --------------------------------------------------------------------------------------------------------------------
def _same(a, b):
    if a is b:
        return True
    if isinstance(a, float) or isinstance(b, float):
        if isinstance(a, (int, float)) and isinstance(b, (int, float)) and not isinstance(a, bool) and not isinstance(b, bool):
            if a == b:
                return True
            if math.isnan(a) and math.isnan(b):
                return True
            if math.isinf(a) or math.isinf(b):
                return False
            return abs(a - b) <= 1e-9 * max(1.0, abs(a), abs(b))
        return False
    if isinstance(a, (tuple, list)):
        return isinstance(b, (tuple, list)) and len(a) == len(b) and all(_same(x, y) for x, y in zip(a, b))
    if isinstance(a, dict):
        return isinstance(b, dict) and a.keys() == b.keys() and all(_same(a[k], b[k]) for k in a)
    return a == b


def _body_genes(gpr):
    import ast
    if gpr is None or getattr(gpr, "body", None) is None:
        return []
    return sorted({n.id for n in ast.walk(gpr.body) if isinstance(n, ast.Name)})


def snapshot(model):
    """views.snapshot with the LP split into maps, and the rule of every reaction viewed through its syntax tree: the
    Boolean function over the genes that occur in the tree.  `gpr.genes` (a cached set that remove_genes leaves stale,
    which is C02's concern) is compared only where it agreed with the tree at entry."""
    s = views.snapshot(model)
    lp = s.pop("lp")
    s["lp.variables"] = dict(lp[0])
    s["lp.constraints"] = {k: (v[0], v[1], dict(v[2])) for k, v in lp[1]}
    s["lp.objective"] = dict(lp[2])
    s["lp.direction"] = lp[3]
    s["solver interface"] = model.problem.__name__
    rx, declared = {}, {}
    for r in model.reactions:
        body = _body_genes(r.gpr)
        t = list(s["reactions"][r.id])
        t[3] = views.truth_table(r.gpr, genes=body)
        rx[r.id] = tuple(t)
        d = tuple(sorted(r.gpr.genes))
        declared[r.id] = d if list(d) == body else "<stale>"
    s["reactions"] = rx
    s["gpr.genes"] = declared
    return s


def diff(a, b, limit=5):
    out = []
    for k in a:
        if _same(a[k], b.get(k)):
            continue
        if isinstance(a[k], dict) and isinstance(b.get(k), dict):
            for key in sorted(set(a[k]) | set(b[k]), key=str):
                x, y = a[k].get(key, "<absent>"), b[k].get(key, "<absent>")
                if k == "gpr.genes" and x == "<stale>":
                    continue
                if not _same(x, y):
                    if isinstance(x, tuple) and isinstance(y, tuple) and len(x) == len(y):
                        parts = [f"#{i}: {p!r} -> {q!r}" for i, (p, q) in enumerate(zip(x, y)) if not _same(p, q)]
                        out.append(f"{k}[{key}] {'; '.join(parts)}"[:300])
                    else:
                        out.append(f"{k}[{key}]: {x!r} -> {y!r}"[:300])
        else:
            out.append(f"{k}: {a[k]!r} -> {b.get(k)!r}"[:300])
        if len(out) >= limit:
            break
    return out[:limit]


# --------------------------------------------------------------------------------------------------------------------
# executor
# --------------------------------------------------------------------------------------------------------------------
class _Sentinel(Exception):
    """the exception a block raises at its end when exit == 'raise'"""


class _Abort(BaseException):
    """a property violation was recorded; the model is in an undefined state, stop the case"""


class _Invalid(BaseException):
    """the history violates a precondition of the solver layer (two solver objects with one name); it is discarded"""


class _State:
    def __init__(self):
        self.failure = None
        self.trace = []
        self.nontrivial = False
        self.blocks = 0
        self.unjudged = 0


_UUID = re.compile(r"[0-9a-f]{8}-[0-9a-f]{4}-[0-9a-f]{4}-[0-9a-f]{4}-[0-9a-f]{12}")
_ADDR = re.compile(r"0x[0-9a-f]{6,}")


def _clean(text):
    return _ADDR.sub("0x..", _UUID.sub("<uuid>", text))


# A driver may set this to a callable(int): 1 while an operation of the history runs, 0 otherwise.  GLPK calls abort()
# on some degenerate problems (e.g. `Assertion failed: k1 < k2` in bflib/sgf.c while add_moma optimises a model with an
# emptied reaction); when the interpreter dies *inside an operation* there is no exit to judge, and the driver discards
# the history instead of reporting it.  Death at any other moment (undo functions, reading the model back) is reported.
PHASE_SINK = None


def _do(model, it):
    """one operation, followed by what any read access to the solver does anyway: flushing optlang's queue.
    optlang accepts a variable/constraint whose name is taken and fails only at the next flush, leaving the queue
    poisoned for good; such a history (add_loopless twice, a user constraint named like a metabolite, ...) violates
    the precondition 'names in the solver are unique' and is discarded, not judged."""
    from optlang.exceptions import ContainerAlreadyContains
    if PHASE_SINK is not None:
        PHASE_SINK(1)
    try:
        OPS[it["op"]](model, it)
    finally:
        if PHASE_SINK is not None:
            PHASE_SINK(0)
        try:
            model.solver.update()
        except ContainerAlreadyContains:
            raise _Invalid()


_ENTRY = {}  # recipe without "pre" operations -> (snapshot, check_xref, check_lp_reported) of the freshly built model


def _run_block(model, block, depth, st, recipe_key=None):
    model.__enter__()
    st.blocks += 1
    if recipe_key is not None and recipe_key in _ENTRY:
        entry, x0, l0 = _ENTRY[recipe_key]
    else:
        entry = snapshot(model)
        x0 = views.check_xref(model)
        l0 = views.check_lp_reported(model)
        if recipe_key is not None:
            _ENTRY[recipe_key] = (entry, x0, l0)
    exc = None
    try:
        for it in block["with"]:
            if "with" in it:
                try:
                    _run_block(model, it, depth + 1, st)
                except Exception:
                    if not it.get("catch"):
                        raise
            else:
                try:
                    _do(model, it)
                    st.trace.append("ok")
                except Exception as e:  # noqa: the operation raised naturally
                    st.trace.append(type(e).__name__)
                    if not it.get("catch"):
                        raise
        if block.get("exit") == "raise":
            raise _Sentinel()
    except Exception as e:  # noqa
        exc = e
    try:
        if not st.nontrivial and not _same(entry, snapshot(model)):
            st.nontrivial = True
    except Exception:  # noqa: the pre-exit state is only a statistic
        st.nontrivial = True
    how = "normally" if exc is None else f"by {type(exc).__name__}" if not isinstance(exc, _Sentinel) else "by an exception"
    where = f"block at nesting level {depth} (left {how})"
    try:
        if exc is None:
            model.__exit__(None, None, None)
        else:
            model.__exit__(type(exc), exc, exc.__traceback__)
    except Exception as e2:  # noqa
        st.failure = _clean(f"__exit__ raised {type(e2).__name__}: {str(e2)[:160]} -- {where}")
        raise _Abort()
    if x0:
        # the operations of an enclosing block left cross-references broken before this block was entered (C02's
        # concern, e.g. remove_genes(remove_reactions=False) keeps R in g2.reactions after dropping "g1 and g2"):
        # the statement presupposes a well-formed model at entry, so only "exit does not raise" is judged here
        st.unjudged += 1
        if exc is not None:
            raise exc
        return
    try:
        after = snapshot(model)
    except Exception as e3:  # noqa
        st.failure = _clean(f"model unreadable after exit ({type(e3).__name__}: {str(e3)[:160]}) -- {where}")
        raise _Abort()
    d = diff(entry, after)
    if d:
        st.failure = _clean("state after exit differs from state at entry: " + " | ".join(d) + f" -- {where}")
        raise _Abort()
    x1 = views.check_xref(model)
    if sorted(x1) != sorted(x0):
        st.failure = _clean("cross-references after exit: " + " | ".join([x for x in x1 if x not in x0][:4]) + f" -- {where}")
        raise _Abort()
    l1 = views.check_lp_reported(model)
    if sorted(l1) != sorted(l0):
        st.failure = _clean("solver problem after exit: " + " | ".join([x for x in l1 if x not in l0][:4]) + f" -- {where}")
        raise _Abort()
    if exc is not None:
        raise exc


def execute(case):
    """-> dict(failure=str|None, trace=[...], nontrivial=bool, invalid=bool)"""
    st = _State()
    try:
        model = build_model(case["model"])
    except Exception as e:  # noqa
        return {"failure": None, "trace": ["recipe failed: %r" % (e,)], "nontrivial": False, "invalid": True}
    # building a recipe is deterministic, so the state at the entry of the outermost block is computed once per recipe
    # (not for recipes with "pre" operations: fix_objective_as_constraint names its constraint after a fresh uuid)
    rk = None if case["model"].get("pre") else json.dumps(case["model"], sort_keys=True)
    try:
        _run_block(model, case["prog"], 1, st, rk)
    except _Abort:
        pass
    except _Invalid:
        return {"failure": None, "trace": st.trace, "nontrivial": False, "invalid": True}
    except Exception:  # noqa: the exception left the outermost block, as it would in user code
        pass
    if st.failure is None and model._contexts:
        st.failure = f"context stack not empty after the outermost exit ({len(model._contexts)} left)"
    return {"failure": st.failure, "trace": st.trace, "nontrivial": st.nontrivial, "invalid": False,
            "unjudged_blocks": st.unjudged}


# --------------------------------------------------------------------------------------------------------------------
# program utilities, shrinking, keys
# --------------------------------------------------------------------------------------------------------------------
def ops_of(block):
    out = []
    for it in block["with"]:
        if "with" in it:
            out.extend(ops_of(it))
        else:
            out.append(it)
    return out


def depth_of(block):
    return 1 + max([depth_of(it) for it in block["with"] if "with" in it] or [0])


def render(block):
    """compact structural rendering with kind labels: W[a,W[b]!]  ('!' = the block is left by an exception,
    '?' = exception caught right outside)"""
    parts = []
    for it in block["with"]:
        if "with" in it:
            parts.append(render(it))
        else:
            parts.append(it["k"] + ("?" if it.get("catch") else ""))
    return "W[" + ",".join(parts) + "]" + ("!" if block.get("exit") == "raise" else "") + ("?" if block.get("catch") else "")


def _normalize(block, top=True):
    """drop empty inner blocks; -> new block"""
    items = []
    for it in block["with"]:
        if "with" in it:
            sub = _normalize(it, False)
            if sub["with"]:
                items.append(sub)
        else:
            items.append(it)
    out = {"with": items, "exit": block.get("exit", "normal")}
    if block.get("catch"):
        out["catch"] = True
    return out


def _variants(block):
    """smaller programs, most aggressive first (generator of new blocks)"""
    n = len(block["with"])
    # remove one item (an op or a whole inner block)
    for i in range(n):
        yield {**block, "with": block["with"][:i] + block["with"][i + 1:]}
    # unwrap an inner block (splice its items into this block)
    for i in range(n):
        it = block["with"][i]
        if "with" in it:
            yield {**block, "with": block["with"][:i] + it["with"] + block["with"][i + 1:]}
    # leave normally instead of by exception; drop a catch flag
    if block.get("exit") == "raise":
        yield {**block, "exit": "normal"}
    for i in range(n):
        it = block["with"][i]
        if it.get("catch"):
            yield {**block, "with": block["with"][:i] + [{k: v for k, v in it.items() if k != "catch"}] + block["with"][i + 1:]}
    # recurse into inner blocks
    for i in range(n):
        it = block["with"][i]
        if "with" in it:
            for sub in _variants(it):
                yield {**block, "with": block["with"][:i] + [sub] + block["with"][i + 1:]}


class Runner:
    """memoising front end of execute() (the memo makes shrinking of the many histories that contain the same failing
    core cheap)"""

    def __init__(self):
        self.memo = {}
        self.explained = {}
        self.executions = 0

    def run(self, case):
        key = json.dumps(case, sort_keys=True)
        r = self.memo.get(key)
        if r is None:
            r = execute(case)
            self.executions += 1
            if len(self.memo) < 200000:
                self.memo[key] = r
        return r

    def shrink(self, case):
        """greedy 1-minimal failing sub-history"""
        cur = {"model": case["model"], "prog": _normalize(case["prog"])}
        if not self.run(cur)["failure"]:
            cur = case
        progress = True
        while progress:
            progress = False
            for v in _variants(cur["prog"]):
                v = _normalize(v)
                if not ops_of(v):
                    continue
                cand = {"model": cur["model"], "prog": v}
                if self.run(cand)["failure"]:
                    cur = cand
                    progress = True
                    break
        return cur

    def analyse(self, case, max_rounds=4):
        """-> (result of the case itself, [ (key, minimal case, failure text, explaining repairs | None) ... ]).
        After a minimal failing core is found its operations are deleted from the history and the rest is run again, so
        that one known defect does not hide another one in the same history."""
        res = self.run(case)
        found = []
        cur = case
        r = res
        rounds = 0
        while r["failure"] and rounds < max_rounds:
            rounds += 1
            core = self.shrink(cur)
            rc = self.run(core)
            ck = json.dumps(core, sort_keys=True)
            if ck not in self.explained:
                self.explained[ck] = explain(core)
            found.append((key_of(core), core, rc["failure"], self.explained[ck]))
            core_ops = [json.dumps(o, sort_keys=True) for o in ops_of(core["prog"])]
            strip = {json.dumps({k: v for k, v in json.loads(o).items() if k != "catch"}, sort_keys=True) for o in core_ops}
            nxt = _normalize(_without(cur["prog"], strip))
            if not ops_of(nxt) or len(ops_of(nxt)) == len(ops_of(cur["prog"])):
                break
            cur = {"model": cur["model"], "prog": nxt}
            r = self.run(cur)
        return res, found


def _without(block, strip):
    items = []
    for it in block["with"]:
        if "with" in it:
            items.append(_without(it, strip))
        elif json.dumps({k: v for k, v in it.items() if k != "catch"}, sort_keys=True) not in strip:
            items.append(it)
    return {**block, "with": items}


def key_of(core):
    """stable short key of a minimal failing history: its structure with the coarse kind labels"""
    return render(core["prog"])


def strip_core_flags(case):
    c = copy.deepcopy(case)

    def walk(b):
        for it in b["with"]:
            if "with" in it:
                walk(it)
            else:
                it.pop("core", None)
    walk(c["prog"])
    return c


# --------------------------------------------------------------------------------------------------------------------
# candidate repairs, applied in-process only (never to /repo), used to attribute a minimal failing history to a defect:
# a minimal history belongs to defect D iff it passes once D's repair is active.  Every repair is a *wrapper* that keeps
# the current cobra code in the call path, so that a change of that code still shows (it is not papered over by a
# corrected copy).
# --------------------------------------------------------------------------------------------------------------------
import contextlib  # noqa: E402
from functools import partial  # noqa: E402


@contextlib.contextmanager
def repair_nested_undo():
    """Model.__exit__: hide the enclosing contexts while the popped history is replayed, so that context-aware undo
    actions (Reaction.__imul__, update_genes_from_gpr, remove_genes, add_cons_vars ...) record nothing."""
    from cobra.core.model import Model
    orig = Model.__exit__

    def patched(self, type=None, value=None, traceback=None):
        outer = self._contexts[:-1]
        del self._contexts[:-1]
        try:
            return orig(self, type, value, traceback)
        finally:
            self._contexts[:0] = outer
    Model.__exit__ = patched
    try:
        yield
    finally:
        Model.__exit__ = orig


@contextlib.contextmanager
def repair_replace_absent():
    """Reaction.add_metabolites(combine=False): for a metabolite that is not in the reaction yet, replacing equals
    adding, whose undo exists."""
    from cobra.core.reaction import Reaction
    orig = Reaction.add_metabolites

    def patched(self, metabolites_to_add, combine=True, reversibly=True):
        if not combine and self._model is not None:
            ids = {m.id for m in self._metabolites}
            absent = {k: v for k, v in metabolites_to_add.items() if str(k) not in ids}
            present = {k: v for k, v in metabolites_to_add.items() if str(k) in ids}
            if absent:
                if present:
                    orig(self, present, combine=False, reversibly=reversibly)
                return orig(self, absent, combine=True, reversibly=reversibly)
        return orig(self, metabolites_to_add, combine=combine, reversibly=reversibly)
    Reaction.add_metabolites = patched
    try:
        yield
    finally:
        Reaction.add_metabolites = orig


@contextlib.contextmanager
def repair_replace_same_id():
    """Reaction.add_metabolites(combine=False): hand the reaction's own Metabolite object over when the key is another
    object with the same identifier (the undo looks the old coefficient up by object identity)."""
    from cobra.core.reaction import Reaction
    orig = Reaction.add_metabolites

    def patched(self, metabolites_to_add, combine=True, reversibly=True):
        if not combine and self._model is not None:
            own = {m.id: m for m in self._metabolites}
            metabolites_to_add = {(own[str(k)] if not isinstance(k, str) and str(k) in own else k): v
                                  for k, v in metabolites_to_add.items()}
        return orig(self, metabolites_to_add, combine=combine, reversibly=reversibly)
    Reaction.add_metabolites = patched
    try:
        yield
    finally:
        Reaction.add_metabolites = orig


@contextlib.contextmanager
def repair_validate_first():
    """Reaction.add_metabolites: look all string keys up before the first coefficient is touched."""
    from cobra.core.reaction import Reaction
    orig = Reaction.add_metabolites

    def patched(self, metabolites_to_add, combine=True, reversibly=True):
        if self._model is not None:
            ids = {m.id for m in self._metabolites}
            for k in metabolites_to_add:
                if isinstance(k, str) and k not in ids:
                    self._model.metabolites.get_by_id(k)  # KeyError before anything is changed
        return orig(self, metabolites_to_add, combine=combine, reversibly=reversibly)
    Reaction.add_metabolites = patched
    try:
        yield
    finally:
        Reaction.add_metabolites = orig


@contextlib.contextmanager
def repair_solver_switch():
    """Model.solver setter: on exit put the *old solver object* back (everything recorded before the switch refers to
    it) instead of cloning the current one into a third object."""
    from cobra.core.model import Model
    from cobra.util.context import get_context
    orig = Model.__dict__["solver"]

    def fset(self, value):
        old = self._solver
        orig.fset(self, value)
        context = get_context(self)
        if context and self._solver is not old:
            context(partial(setattr, self, "_solver", old))
    Model.solver = property(orig.fget, fset, orig.fdel, orig.__doc__)
    try:
        yield
    finally:
        Model.solver = orig


@contextlib.contextmanager
def repair_variable_removal():
    """remove_cons_vars_from_problem: when variables are removed inside a context, remember their coefficients in the
    constraints and in the objective that stay, take them out of the objective first (so that its expression no longer
    mentions them), and put the coefficients back after the variables have been re-added."""
    import optlang
    import cobra.core.model as cm
    import cobra.util.solver as su
    from cobra.util.context import get_context
    orig = su.remove_cons_vars_from_problem

    def patched(model, what):
        context = get_context(model)
        if context:
            items = list(what) if isinstance(what, (list, tuple, set)) or hasattr(what, "_fields") else [what]
            solver = model.solver
            saved = []
            for v in items:
                if isinstance(v, optlang.interface.Variable) and v.problem is solver:
                    col = {}
                    for c in solver.constraints:
                        coef = c.get_linear_coefficients([v])[v]
                        if coef != 0:
                            col[c.name] = coef
                    try:
                        oc = solver.objective.get_linear_coefficients([v])[v]
                    except Exception:  # noqa: non-linear objective
                        oc = 0
                    if oc != 0:
                        solver.objective.set_linear_coefficients({v: 0})
                    saved.append((v, col, oc))

            def restore():
                s = model.solver
                s.update()
                for v, col, oc in saved:
                    if v.problem is not s:
                        continue
                    for cname, coef in col.items():
                        if cname in s.constraints:
                            s.constraints[cname].set_linear_coefficients({v: coef})
                    if oc != 0:
                        s.objective.set_linear_coefficients({v: oc})
            if saved:
                context(restore)  # recorded before the original's `solver.add(what)`, hence replayed after it
        return orig(model, what)
    su.remove_cons_vars_from_problem = patched
    cm.remove_cons_vars_from_problem = patched
    try:
        yield
    finally:
        su.remove_cons_vars_from_problem = orig
        cm.remove_cons_vars_from_problem = orig


@contextlib.contextmanager
def repair_remove_reactions_objective():
    """Model.remove_reactions: take the reactions' variables out of the objective *before* they are removed (so that the
    objective expression copied by a later `set_objective` does not resurrect them) and put their coefficients back, one
    variable at a time and into whatever objective object the solver holds then, after everything else is restored."""
    from cobra.core.model import Model
    from cobra.util.context import get_context
    orig = Model.remove_reactions

    def patched(self, reactions, remove_orphans=False):
        context = get_context(self)
        if context:
            lst = [reactions] if isinstance(reactions, str) or hasattr(reactions, "id") else list(reactions)
            saved = []
            for r in lst:
                try:
                    r = self.reactions[self.reactions.index(r)]
                except ValueError:
                    continue
                for v in (r.forward_variable, r.reverse_variable):
                    try:
                        oc = self.solver.objective.get_linear_coefficients([v])[v]
                    except Exception:  # noqa
                        oc = 0
                    if oc != 0:
                        self.solver.objective.set_linear_coefficients({v: 0})
                        saved.append((v.name, oc))

            def restore():
                s = self.solver
                s.update()
                for name, oc in saved:
                    if name in s.variables:
                        s.objective.set_linear_coefficients({s.variables[name]: oc})
            if saved:
                context(restore)
        return orig(self, reactions, remove_orphans=remove_orphans)
    Model.remove_reactions = patched
    try:
        yield
    finally:
        Model.remove_reactions = orig


@contextlib.contextmanager
def repair_gene_creation_undo():
    """update_genes_from_gpr records `remove_genes(model, [new_gene], remove_reactions=False)` as the undo of creating
    a gene; remove_genes rewrites the rules of all reactions and re-derives their genes, in the middle of the replay.
    The undo only has to take the gene out of `model.genes` (what the comment in the source suggests)."""
    import cobra.core.reaction as cr
    orig = cr.remove_genes

    def light(model, gene_list, remove_reactions=True):
        for g in gene_list:
            if model.genes.has_id(g.id) and model.genes.get_by_id(g.id) is g:
                model.genes.remove(g)
    cr.remove_genes = light
    try:
        yield
    finally:
        cr.remove_genes = orig


@contextlib.contextmanager
def repair_undo_owns_its_dict():
    """Reaction.add_metabolites keeps the caller's dict in the recorded undo.  `r += other` passes the *live*
    `other._metabolites`; a model-less `other` stays in the `.reactions` of the metabolites it shares with `r` (C12), so a
    later remove_metabolites edits `other._metabolites` - and with it the recorded undo.  Record a private copy."""
    from cobra.core.reaction import Reaction
    orig = Reaction.add_metabolites

    def patched(self, metabolites_to_add, combine=True, reversibly=True):
        return orig(self, dict(metabolites_to_add), combine=combine, reversibly=reversibly)
    Reaction.add_metabolites = patched
    try:
        yield
    finally:
        Reaction.add_metabolites = orig


@contextlib.contextmanager
def repair_fix_objective():
    """fix_objective_as_constraint: drop an existing constraint of the same name through the context-aware
    remove_cons_vars_from_problem instead of `model.solver.remove`."""
    import cobra.util.solver as su
    import cobra.util as cu
    orig = su.fix_objective_as_constraint

    def patched(model, fraction=1.0, bound=None, name="fixed_objective_{}"):
        fixed = name.format(model.objective.name)
        if fixed in model.constraints:
            su.remove_cons_vars_from_problem(model, [model.constraints[fixed]])
        return orig(model, fraction=fraction, bound=bound, name=name)
    su.fix_objective_as_constraint = patched
    old_cu = getattr(cu, "fix_objective_as_constraint", None)
    cu.fix_objective_as_constraint = patched
    try:
        yield
    finally:
        su.fix_objective_as_constraint = orig
        if old_cu is not None:
            cu.fix_objective_as_constraint = old_cu


@contextlib.contextmanager
def repair_group_membership():
    """Group.remove_members (called by remove_reactions / remove_metabolites / remove_genes): record the inverse."""
    from cobra.core.group import Group
    from cobra.util.context import get_context
    orig = Group.remove_members

    def patched(self, to_remove):
        members = [to_remove] if hasattr(to_remove, "id") or isinstance(to_remove, str) else list(to_remove)
        present = [x for x in members if x in self._members]
        context = get_context(self)
        if context and present:
            context(partial(self.add_members, present))
        return orig(self, to_remove)
    Group.remove_members = patched
    try:
        yield
    finally:
        Group.remove_members = orig


# Necessary conditions of each defect on a minimal history.  A history is attributed to a defect only if it passes under
# the defect's repair AND could be a witness of it at all; otherwise a different fault in the same function that the
# repair happens to step over (e.g. a wrong sign in the objective undo of remove_reactions) would be filed under the
# known key.
_STOICH = ("add_metabolites", "subtract_metabolites")
_FIXERS = ("fix_objective", "add_pfba", "add_moma", "add_room")


def _removes_variables(o):
    return (o["op"] in ("remove_reactions", "r_remove_from_model")
            or (o["op"] in ("remove_metabolites", "m_remove_from_model") and o.get("destructive"))
            or (o["op"] == "remove_genes" and o.get("remove_reactions", True))
            or (o["op"] == "remove_cons_vars" and any(t == "var" for t, _ in o["names"])))


def _removes_elements(o):
    return o["op"] in ("remove_reactions", "r_remove_from_model", "remove_metabolites", "m_remove_from_model",
                       "remove_genes")


def _pre(case):
    return case["model"].get("pre", [])


def _can_nested(case):
    return depth_of(case["prog"]) >= 2


def _can_replace_absent(case):
    return any(o["op"] in _STOICH and o.get("combine") is False for o in ops_of(case["prog"]))


def _can_partial(case):
    return any(o["op"] in _STOICH and len(o["mets"]) >= 2 and any(md == "str" for _, _, md in o["mets"])
               for o in ops_of(case["prog"]))


def _can_solver(case):
    ops = ops_of(case["prog"])
    return any(o["op"] == "solver" and (i > 0 or _pre(case)) for i, o in enumerate(ops))


def _can_replace_same_id(case):
    return any(o["op"] in _STOICH and o.get("combine") is False and any(md == "new" for _, _, md in o["mets"])
               for o in ops_of(case["prog"]))


def _can_column(case):
    ops = ops_of(case["prog"])
    return any(_removes_variables(o) for o in ops) and (len(ops) >= 2 or bool(_pre(case)))


def _can_objective(case):
    # needs a reaction-removing operation and another one that sets up or replaces the objective
    ops = ops_of(case["prog"])
    return len(ops) >= 2 and any(_removes_variables(o) and o["op"] != "remove_cons_vars" for o in ops)


def _can_fix(case):
    n = sum(1 for o in ops_of(case["prog"]) if o["op"] in _FIXERS) + sum(1 for o in _pre(case) if o["op"] in _FIXERS)
    return n >= 2


def _can_gene_creation(case):
    ops = ops_of(case["prog"])
    return len(ops) >= 2 and any(o["op"] in ("gpr", "gpr_obj", "iadd", "add_reactions", "merge", "rename_genes") for o in ops)


def _can_iadd_aliasing(case):
    ops = ops_of(case["prog"])
    return any(o["op"] in ("iadd", "isub") and "new" in o["other"] and i < len(ops) - 1 for i, o in enumerate(ops))


def _can_groups(case):
    return bool(case["model"].get("args", {}).get("group")) and any(_removes_elements(o) for o in ops_of(case["prog"]))


# order = order of nesting (outermost first) and of preference when a history is explained by several single repairs
REPAIRS = [
    ("nested:undo-recorded-in-enclosing-context", repair_nested_undo, _can_nested),
    ("add_metabolites:combine=False:metabolite-not-in-reaction", repair_replace_absent, _can_replace_absent),
    ("add_metabolites:combine=False:key-is-another-object-with-the-same-id", repair_replace_same_id, _can_replace_same_id),
    ("add_metabolites:raises-after-partial-update", repair_validate_first, _can_partial),
    ("solver-switch:earlier-undos-act-on-the-old-solver", repair_solver_switch, _can_solver),
    ("remove_reactions:objective-restored-through-stale-objects", repair_remove_reactions_objective, _can_objective),
    ("variable-removal:column-not-restored", repair_variable_removal, _can_column),
    ("fix_objective_as_constraint:replaced-constraint-not-recorded", repair_fix_objective, _can_fix),
    ("groups:membership-not-restored", repair_group_membership, _can_groups),
    ("gene-creation:undone-by-remove_genes", repair_gene_creation_undo, _can_gene_creation),
    ("add_metabolites:undo-keeps-the-caller's-dict", repair_undo_owns_its_dict, _can_iadd_aliasing),
]


def execute_with(case, names):
    with contextlib.ExitStack() as stack:
        for key, cm, _ in REPAIRS:
            if key in names:
                stack.enter_context(cm())
        return execute(case)


def explain(case, max_size=3):
    """-> tuple of defect keys (smallest set of repairs under which the history passes, among the defects it could be
    a witness of), or None.  Cost for a history that no repair explains: at most len(REPAIRS) + 1 executions."""
    import itertools
    keys = [k for k, _, can in REPAIRS if can(case)]
    if not keys:
        return None

    def passes(sub):
        r = execute_with(case, set(sub))
        return not r["failure"] and not r.get("invalid")
    for k in keys:
        if passes((k,)):
            return (k,)
    if len(keys) < 2 or not passes(keys):
        return None
    for size in range(2, min(max_size, len(keys) - 1) + 1):
        for sub in itertools.combinations(keys, size):
            if passes(sub):
                return sub
    return tuple(keys)
