"""Sensitivity experiments for the C07 bounded driver: monkeypatch cobra in this process (NOT /repo), workers inherit by fork.

Run one mutant (in a scratch process; /repo is never modified — the functions are replaced in this interpreter and the
forked workers inherit them):   cd /verif && .venv/bin/python -m bcc.c07_mutants <name|none|list> [tier] [seed]
"""
import sys, time, ast
import cobra
from cobra.core import gene as G, reaction as RX
from cobra.core.gene import GPR, Gene
from cobra.core.reaction import Reaction
import cobra.manipulation.delete as D
import cobra.manipulation as M
from ast import Or, And, BoolOp, Name

def m_any_for_all():
    orig = GPR._eval_gpr
    def _eval_gpr(self, expr, knockouts):
        if isinstance(expr, BoolOp) and isinstance(expr.op, And):
            return any(self._eval_gpr(i, knockouts) for i in expr.values)
        return orig(self, expr, knockouts)
    GPR._eval_gpr = _eval_gpr

def m_only_this_gene():
    # forgets earlier knock-outs: evaluates the rule with only this gene absent
    def knock_out(self):
        self.functional = False
        for reaction in self.reactions:
            if not reaction.gpr.eval({self.id}):
                reaction.bounds = (0, 0)
    Gene.knock_out = knock_out

def m_first_two_children():
    # nested / n-ary nodes: only the first two children are looked at
    orig = GPR._eval_gpr
    def _eval_gpr(self, expr, knockouts):
        if isinstance(expr, BoolOp):
            f = any if isinstance(expr.op, Or) else all
            return f(self._eval_gpr(i, knockouts) for i in expr.values[:2])
        return orig(self, expr, knockouts)
    GPR._eval_gpr = _eval_gpr

def m_return_all_touched():
    def knock_out_model_genes(model, gene_list):
        rxn_set = set()
        for gene in model.genes.get_by_any(gene_list):
            gene.knock_out()
            rxn_set.update(gene.reactions)
        return list(rxn_set)
    D.knock_out_model_genes = knock_out_model_genes
    M.knock_out_model_genes = knock_out_model_genes
    cobra.manipulation.knock_out_model_genes = knock_out_model_genes

def m_return_stale():
    # evaluates the returned list before the last gene is knocked out
    def knock_out_model_genes(model, gene_list):
        rxn_set = set()
        out = []
        for gene in model.genes.get_by_any(gene_list):
            out = [rxn for rxn in rxn_set | set(gene.reactions) if not rxn.functional]
            gene.knock_out()
            rxn_set.update(gene.reactions)
        return out
    D.knock_out_model_genes = knock_out_model_genes
    M.knock_out_model_genes = knock_out_model_genes

def m_rxn_ko_keeps_ub():
    def knock_out(self):
        self.bounds = (min(self.lower_bound, 0), 0)
    Reaction.knock_out = knock_out

def m_substring():
    # membership on a joined string instead of a set
    def functional(self):
        if self._model:
            return self._gpr.eval(" ".join(g.id for g in self.genes if not g.functional))
        return True
    Reaction.functional = property(functional)

def m_no_solver_update_when_zero():
    # (0,0) written to the python attributes but the reverse variable is not updated
    orig = Reaction.update_variable_bounds
    def upd(self):
        if self._lower_bound == 0 and self._upper_bound == 0 and self._model is not None:
            self.forward_variable.set_bounds(lb=0, ub=0)
            return
        return orig(self)
    Reaction.update_variable_bounds = upd

def m_functional_not_reset_flag():
    # gene.knock_out does not mark the gene when it has no reaction to switch off
    def knock_out(self):
        hit = False
        self._functional = False
        for reaction in self.reactions:
            if not reaction.functional:
                hit = True
        self._functional = True
        if hit:
            self.functional = False
            for reaction in self.reactions:
                if not reaction.functional:
                    reaction.bounds = (0, 0)
    Gene.knock_out = knock_out

def m_skip_if_lb_positive():
    def knock_out(self):
        self.functional = False
        for reaction in self.reactions:
            if not reaction.functional and reaction.lower_bound <= 0:
                reaction.bounds = (0, 0)
    Gene.knock_out = knock_out

MUT = {k[2:]: v for k, v in globals().items() if k.startswith("m_")}
if __name__ == "__main__":
    name = sys.argv[1] if len(sys.argv) > 1 else "list"
    if name == "list":
        print("\n".join(sorted(MUT)))
        sys.exit(0)
    tier = sys.argv[2] if len(sys.argv) > 2 else "quick"
    seed = int(sys.argv[3]) if len(sys.argv) > 3 else 0
    if name != "none":
        MUT[name]()
    from bcc.drivers import C07
    t = time.time()
    r = C07.run(tier, seed)
    print(f"== {name}: {len(r['failures'])} failure keys, {time.time()-t:.0f}s")
    for f in r["failures"]:
        print("   ", f["key"], "|", f["failure"][:230])
        rp = C07.replay(f["replay"])
        print("      replay ->", (rp or "PASSES")[:150], "| replay size", len(str(f["replay"])))
