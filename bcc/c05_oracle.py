"""Exact oracles for C05 / C19: flux ranges of the *documented* FVA problem and brute-force loopless ranges.

Everything is rebuilt from (S, lb, ub, c, direction) with bcc.oracle_lp (rationals, z3 Optimize); nothing is read from
the solver object of the model.

Documented FVA problem for a model whose FBA optimum `opt` exists (direction dir, objective c):
    P(phi, k) = { v | S v = 0, lb <= v <= ub,  c.v >= phi*opt (dir = max)  or  c.v <= phi*opt (dir = min),
                      and, if k is not None:  sum_r |v_r| <= k * T,
                      T = min { sum_r |v_r| : v satisfies all the constraints before the cap } }
range of r = [min v_r, max v_r] over P.   Loopless: the same over { v in P | v is free of internal cycles }, where v
has an internal cycle iff there is z != 0 supported on internal reactions (reactions with more than one metabolite) with
S z = 0 and z sign-compatible with v (z_i != 0 => v_i != 0 and sign z_i = sign v_i).
"""
import itertools
from fractions import Fraction

from bcc import oracle_lp
from bcc.oracle_lp import LP, INF


class NoOptimum(Exception):
    pass


def base_problem(model, fraction=1.0, pfba_factor=None, with_objective=True):
    """-> (LP of P(phi, k), info).  with_objective=False: the pure flux polytope {S v = 0, lb <= v <= ub}."""
    lp, c, direction = oracle_lp.fba_lp(model)
    info = {"direction": direction, "objective": c}
    if not with_objective:
        return lp, info
    st, opt, pt = lp.solve(c, direction)
    info["status"] = st
    if st != "optimal":
        raise NoOptimum(st)
    info["opt"] = opt
    info["opt_point"] = pt
    bound = Fraction(fraction) * opt
    if direction == "max":
        lp.con(c, bound, INF)
    else:
        lp.con(c, -INF, bound)
    if pfba_factor is not None:
        tot = {}
        for rid in list(lp.vars):
            a = "__abs__" + rid
            lp.var(a, 0.0, INF)
            lp.con({a: 1.0, rid: -1.0}, 0.0, INF)
            lp.con({a: 1.0, rid: 1.0}, 0.0, INF)
            tot[a] = 1.0
        st2, t_min, _ = lp.solve(tot, "min")
        if st2 != "optimal":
            raise NoOptimum("total flux: " + st2)
        info["min_total_flux"] = t_min
        lp.con(tot, -INF, Fraction(pfba_factor) * t_min)
    return lp, info


def ranges(lp, rids):
    """{rid: (min, max)} exact; +-inf when unbounded, None when the problem is infeasible"""
    return {rid: lp.range_of(rid) for rid in rids}


# ----------------------------------------------------------------------------------------------------------------------
# loopless (brute force)
# ----------------------------------------------------------------------------------------------------------------------
def internal_reactions(model):
    return [r.id for r in model.reactions if len(r._metabolites) != 1]


def _cycle_lp(model, internal):
    """LP over z (one variable per internal reaction, free) with S_int z = 0"""
    lp = LP()
    for rid in internal:
        lp.var("z_" + rid, -INF, INF)
    iset = set(internal)
    for met in model.metabolites:
        row = {}
        for r in met._reaction:
            if r.id in iset:
                row["z_" + r.id] = row.get("z_" + r.id, 0.0) + float(r._metabolites[met])
        if row:
            lp.con(row, 0.0, 0.0)
    return lp


def cycle_reactions(model, internal=None):
    """internal reactions that occur in some internal cycle (support of the null space of S_int)"""
    internal = internal_reactions(model) if internal is None else internal
    base = _cycle_lp(model, internal)
    out = []
    for rid in internal:
        lp = base.copy()
        lp.vars["z_" + rid] = (1.0, 1.0)
        if lp.feasible():
            out.append(rid)
    return out


def acyclic_patterns(model, cyc):
    """all sign vectors sigma in {+1,-1}^cyc admitting no cycle z != 0 with sigma_i z_i >= 0 for all i in cyc.
    (A flux vector is cycle-free iff its sign pattern, zeros filled in suitably, is one of these: a pattern with zeros
    that is acyclic extends to a full acyclic pattern as long as no internal column is zero.)"""
    internal = internal_reactions(model)
    base = _cycle_lp(model, internal)
    not_cyc = [r for r in internal if r not in set(cyc)]
    for rid in not_cyc:
        base.vars["z_" + rid] = (0.0, 0.0)
    out = []
    for sigma in itertools.product((1, -1), repeat=len(cyc)):
        lp = base.copy()
        for rid, s in zip(cyc, sigma):
            lp.vars["z_" + rid] = (0.0, INF) if s > 0 else (-INF, 0.0)
        lp.con({"z_" + rid: float(s) for rid, s in zip(cyc, sigma)}, 1.0, 1.0)
        if not lp.feasible():
            out.append(dict(zip(cyc, sigma)))
    return out


def loopless_ranges(model, lp, rids, max_cycle_reactions=6):
    """brute force: {rid: (min, max)} over the cycle-free points of lp; None if the bound is exceeded;
    values None when no cycle-free point exists"""
    cyc = cycle_reactions(model)
    if len(cyc) > max_cycle_reactions:
        return None, {"cycle_reactions": len(cyc)}
    pats = acyclic_patterns(model, cyc)
    best = {rid: [None, None] for rid in rids}
    feasible_patterns = 0
    for pat in pats:
        q = lp.copy()
        for rid, s in pat.items():
            lb, ub = q.vars[rid]
            q.vars[rid] = (max(lb, 0.0), ub) if s > 0 else (lb, min(ub, 0.0))
        if any(lb > ub for lb, ub in q.vars.values()) or not q.feasible():
            continue
        feasible_patterns += 1
        for rid in rids:
            lo, hi = q.range_of(rid)
            if lo is not None and (best[rid][0] is None or lo < best[rid][0]):
                best[rid][0] = lo
            if hi is not None and (best[rid][1] is None or hi > best[rid][1]):
                best[rid][1] = hi
    return {k: tuple(v) for k, v in best.items()}, {"cycle_reactions": len(cyc), "acyclic_patterns": len(pats),
                                                    "feasible_patterns": feasible_patterns}


def is_cycle_free(model, fluxes, tol=1e-9):
    """exact test of one flux vector {rid: number}: no sign-compatible internal cycle"""
    internal = internal_reactions(model)
    lp = _cycle_lp(model, internal)
    norm = {}
    for rid in internal:
        v = fluxes[rid]
        if abs(v) <= tol:
            lp.vars["z_" + rid] = (0.0, 0.0)
        elif v > 0:
            lp.vars["z_" + rid] = (0.0, INF)
            norm["z_" + rid] = 1.0
        else:
            lp.vars["z_" + rid] = (-INF, 0.0)
            norm["z_" + rid] = -1.0
    if not norm:
        return True
    lp.con(norm, 1.0, 1.0)
    return not lp.feasible()
