"""Model generator and exact oracles shared by the C06 (deletions) and C14 (schedule independence) drivers.

A generated model is kept as a plain JSON-able *spec* (own data, not cobra objects):
  {"mets": [...], "rxns": [[id, lb, ub, {met: coef}, tree-json | None], ...], "objective": {rid: coef}, "direction": ..,
   "genes": [names]}
from which both the cobra model (`build`) and the exact LPs (`fba_exact`, `moma_exact`, `pfba_exact`) are derived
independently.  Which reactions a gene knock-out switches off is decided by `bcc.c07_rules.holds` on the spec's tree.
"""
from fractions import Fraction

from bcc import c07_rules as R

INF = float("inf")
GENE_NAMES = ["g1", "g11", "ab", "b", "g"]


# ----------------------------------------------------------------------------------------------------------------------
# generators
# ----------------------------------------------------------------------------------------------------------------------
def _rule(rng, n_genes, p_rule):
    return R.to_json(R.random_tree(rng, 4, n_genes)) if rng.random() < p_rule else None


def growth_spec(rng, max_rxns=9):
    """uptake -> redundant conversion routes -> biomass, optional forced maintenance drain (infeasible knock-outs),
    capacities that make alternative routes matter (non-trivial double deletions)"""
    nm = rng.randint(3, 5)
    ng = rng.randint(3, 5)
    mets = [f"m{i}_c" for i in range(nm)]
    rx = []
    rx.append(["EX_m0", rng.choice([-10.0, -10.0, -6.0]), 1000.0, {mets[0]: -1.0}, _rule(rng, ng, 0.2)])
    if rng.random() < 0.4:
        rx.append(["EX_m1", -5.0, rng.choice([1000.0, 0.0]), {mets[1]: -1.0}, _rule(rng, ng, 0.2)])
    k = 0
    for i in range(1, nm):
        j = rng.randrange(i)
        a, b = rng.choice([(1, 1), (1, 1), (1, 2), (2, 1)])
        rx.append([f"R{k}", rng.choice([0.0, 0.0, -1000.0]), rng.choice([1000.0, 1000.0, 10.0, 4.0]),
                   {mets[j]: -float(a), mets[i]: float(b)}, _rule(rng, ng, 0.85)])
        k += 1
    for _ in range(rng.randint(1, 3)):
        if len(rx) >= max_rxns - 2:
            break
        if rng.random() < 0.5:
            # an isozyme-like duplicate of an existing conversion with another rule and capacity
            src = rng.choice([r for r in rx if r[0].startswith("R")])
            rx.append([f"R{k}", 0.0, rng.choice([1000.0, 3.0, 5.0]), dict(src[3]), _rule(rng, ng, 0.9)])
        else:
            i, j = rng.sample(range(nm), 2)
            rx.append([f"R{k}", rng.choice([0.0, -1000.0]), rng.choice([1000.0, 5.0]),
                       {mets[j]: -1.0, mets[i]: float(rng.choice([1, 2]))}, _rule(rng, ng, 0.85)])
        k += 1
    bio = {mets[-1]: -1.0}
    if rng.random() < 0.4 and nm > 2:
        bio[mets[rng.randrange(1, nm - 1)]] = -float(rng.choice([1, 2]))
    rx.append(["BIO", 0.0, 1000.0, bio, _rule(rng, ng, 0.3)])
    for i in range(1, nm - 1):
        if rng.random() < 0.4 and len(rx) < max_rxns:
            rx.append([f"EX_m{i}" if i != 1 or not any(r[0] == "EX_m1" for r in rx) else "DM_m1", 0.0, 1000.0,
                       {mets[i]: -1.0}, None])
    if rng.random() < 0.35 and len(rx) < max_rxns + 1:
        rx.append(["ATPM", float(rng.choice([1, 2])), 1000.0, {mets[rng.randrange(0, nm)]: -1.0}, _rule(rng, ng, 0.5)])
    obj = {"BIO": 1.0}
    if rng.random() < 0.15:
        obj[rng.choice([r[0] for r in rx if r[0].startswith("R")])] = float(rng.choice([-1, 1]))
    return {"mets": mets, "rxns": rx, "objective": obj, "direction": "max", "genes": GENE_NAMES[:ng]}


def unbounded_spec(rng):
    """a growth network whose large bounds are opened to infinity: the wild type (and many knock-outs) have no finite
    optimum, other knock-outs cut every route and are optimal at 0"""
    spec = growth_spec(rng)
    for r in spec["rxns"]:
        if r[2] >= 1000.0:
            r[2] = INF
        if r[1] <= -1000.0 or r[0] == "EX_m0":
            r[1] = -INF
    spec["rxns"] = [r for r in spec["rxns"] if r[0] != "ATPM"] if rng.random() < 0.5 else spec["rxns"]
    return spec


def random_spec(rng, safe=False):
    """bcc.gen.random_model (arbitrary small networks incl. infeasible / unbounded ones, min direction, two-term
    objectives) with this module's rule trees"""
    from bcc import gen
    from cobra.util.solver import linear_reaction_coefficients
    m = gen.random_model(rng, n_mets=rng.randint(2, 4), n_rxns=rng.randint(2, 5), with_genes=False,
                         bounds=gen.SAFE_BOUNDS if safe else gen.BOUNDS)
    ng = rng.randint(2, 4)
    rx = []
    for r in m.reactions:
        rx.append([r.id, float(r.lower_bound), float(r.upper_bound), {x.id: float(c) for x, c in r.metabolites.items()},
                   _rule(rng, ng, 0.75)])
    return {"mets": [x.id for x in m.metabolites], "rxns": rx,
            "objective": {r.id: float(c) for r, c in linear_reaction_coefficients(m).items()},
            "direction": m.objective_direction, "genes": GENE_NAMES[:ng]}


def jsonable(spec):
    def b(x):
        return "inf" if x == INF else "-inf" if x == -INF else x
    s = dict(spec)
    s["rxns"] = [[r[0], b(r[1]), b(r[2]), r[3], r[4]] for r in spec["rxns"]]
    return s


def unjson(spec):
    s = dict(spec)
    s["rxns"] = [[r[0], float(r[1]), float(r[2]), dict(r[3]), r[4]] for r in spec["rxns"]]
    return s


def build(spec):
    import cobra
    from cobra.util.solver import set_objective
    m = cobra.Model("c06")
    mets = {k: cobra.Metabolite(k, compartment="c") for k in spec["mets"]}
    m.add_metabolites(list(mets.values()))
    rxns = []
    for rid, lb, ub, st, tree in spec["rxns"]:
        r = cobra.Reaction(rid)
        r.bounds = (float(lb), float(ub))
        r.add_metabolites({mets[k]: v for k, v in st.items()})
        if tree is not None:
            r.gene_reaction_rule = R.render(R.from_json(tree), spec["genes"])
        rxns.append(r)
    m.add_reactions(rxns)
    set_objective(m, {m.reactions.get_by_id(k): v for k, v in spec["objective"].items()})
    m.objective_direction = spec["direction"]
    return m


def gene_ids(spec):
    """genes that occur in some rule, in the order cobra will not necessarily share (compare as sets)"""
    out = set()
    for r in spec["rxns"]:
        if r[4] is not None:
            out |= {spec["genes"][i] for i in R.genes_of(R.from_json(r[4]))}
    return sorted(out)


def reactions_off(spec, absent_genes):
    """INDEPENDENT: reactions whose rule is false with the named genes absent"""
    idx = {spec["genes"].index(g) for g in absent_genes}
    return frozenset(r[0] for r in spec["rxns"] if r[4] is not None and not R.holds(R.from_json(r[4]), idx))


# ----------------------------------------------------------------------------------------------------------------------
# exact oracles
# ----------------------------------------------------------------------------------------------------------------------
def base_lp(spec, off=()):
    from bcc.oracle_lp import LP
    lp = LP()
    for rid, lb, ub, st, _ in spec["rxns"]:
        if rid in off:
            lp.var(rid, 0.0, 0.0)
        else:
            lp.var(rid, lb, ub)
    rows = {k: {} for k in spec["mets"]}
    for rid, lb, ub, st, _ in spec["rxns"]:
        for k, c in st.items():
            rows[k][rid] = rows[k].get(rid, 0.0) + c
    for k, coefs in rows.items():
        lp.con(coefs, 0.0, 0.0)
    return lp


def fba_exact(spec, off=()):
    """-> (status, value): status 'optimal' | 'infeasible' | 'unbounded' | 'unknown'"""
    st, v, _ = base_lp(spec, off).solve(spec["objective"], spec["direction"])
    return st, v


def pfba_exact(spec):
    """-> (status, optimum, minimal total flux at the optimum)"""
    st, v, _ = base_lp(spec).solve(spec["objective"], spec["direction"])
    if st != "optimal":
        return st, None, None
    lp = base_lp(spec)
    lp.con(spec["objective"], v, v)
    tot = {}
    for rid, *_ in spec["rxns"]:
        lp.var("abs_" + rid, 0.0, INF)
        lp.con({rid: 1.0, "abs_" + rid: -1.0}, -INF, 0.0)
        lp.con({rid: 1.0, "abs_" + rid: 1.0}, 0.0, INF)
        tot["abs_" + rid] = 1.0
    st2, t, _ = lp.solve(tot, "min")
    return st2, v, t


def moma_exact(spec, off, ref):
    """the documented linear MOMA problem of the knocked-out model:  min sum_i |v_i - ref_i|  s.t.  S v = 0, lb <= v <= ub
    (bounds of the knocked-out model).  -> (status, distance, (min, max) of the ORIGINAL objective over the optimal set)"""
    lp = base_lp(spec, off)
    tot = {}
    for rid, *_ in spec["rxns"]:
        lp.var("d_" + rid, 0.0, INF)
        f = float(ref[rid])
        lp.con({rid: 1.0, "d_" + rid: -1.0}, -INF, f)
        lp.con({rid: 1.0, "d_" + rid: 1.0}, f, INF)
        tot["d_" + rid] = 1.0
    st, dist, _ = lp.solve(tot, "min")
    if st != "optimal":
        return st, None, None
    lp.con(tot, -INF, Fraction(dist))
    lo, hi = lp.range_of(dict(spec["objective"])) if spec["objective"] else (Fraction(0), Fraction(0))
    return st, dist, (lo, hi)
