"""Regenerate bcc/drivers/KNOWN_C12.json, KNOWN_C13.json, KNOWN_C16.json, KNOWN_C20.json from the current tree.

    cd /verif && .venv/bin/python -m bcc.c12_known [--quick-only] [C12 C13 C16 C20]

For every driver: quick tier for seeds 0, 1, 2 and (unless --quick-only) thorough tier for seed 0; the failures are grouped as
{class key: [witness, ...]} (witness 'random:<class>' for the seeded part).  The quick lists must be identical for the three seeds;
the file holds the union of the quick and the thorough list (the fixed part of quick is a subset of the fixed part of thorough).
Prints wall time, CPU time of the workers, evaluation counts and every difference between seeds.
"""
import importlib
import json
import os
import resource
import sys
import time

HERE = os.path.dirname(os.path.abspath(__file__))
sys.path.insert(0, os.path.dirname(HERE))


def grouped(failures):
    out = {}
    for f in failures:
        out.setdefault(f["key"], set()).add(f["witness"])
    return {k: sorted(v) for k, v in sorted(out.items())}


def main(argv):
    quick_only = "--quick-only" in argv
    drivers = [a for a in argv if not a.startswith("--")] or ["C12", "C13", "C16", "C20"]
    for drv in drivers:
        D = importlib.import_module(f"bcc.drivers.{drv}")
        lists = {}
        for tier, seeds in (("quick", (0, 1, 2)), ("thorough", () if quick_only else (0,))):
            for seed in seeds:
                t0 = time.time()
                c0 = resource.getrusage(resource.RUSAGE_CHILDREN)
                r = D.run(tier, seed)
                c1 = resource.getrusage(resource.RUSAGE_CHILDREN)
                cpu = (c1.ru_utime + c1.ru_stime) - (c0.ru_utime + c0.ru_stime)
                g = grouped(r["failures"])
                lists[(tier, seed)] = g
                print(f"{drv} {tier} seed {seed}: wall {time.time() - t0:.0f}s, worker cpu {cpu:.0f}s (= {cpu / 16:.0f}s on 16 idle "
                      f"cores), evaluations {r['evaluations']}, non-trivial {r['distinct_nontrivial']}, "
                      f"classes {dict((k, len(v)) for k, v in g.items())}", flush=True)
        q0 = lists[("quick", 0)]
        for seed in (1, 2):
            if lists[("quick", seed)] != q0:
                print(f"  !! quick seed {seed} differs from seed 0:", flush=True)
                for k in sorted(set(q0) | set(lists[("quick", seed)])):
                    a, b = set(q0.get(k, ())), set(lists[("quick", seed)].get(k, ()))
                    if a != b:
                        print(f"     {k}: only seed 0 {sorted(a - b)[:5]}, only seed {seed} {sorted(b - a)[:5]}", flush=True)
        union = {}
        for g in lists.values():
            for k, v in g.items():
                union.setdefault(k, set()).update(v)
        path = os.path.join(HERE, "drivers", f"KNOWN_{drv}.json")
        json.dump({k: sorted(v) for k, v in sorted(union.items())}, open(path, "w"), indent=1)
        print(f"  wrote {path}: {dict((k, len(v)) for k, v in sorted(union.items()))}", flush=True)


if __name__ == "__main__":
    main(sys.argv[1:])
