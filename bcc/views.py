"""Native views (ghost state evaluated on the real objects): Obs snapshot, Inv_LP, Inv_XRef.

The LP is read back from GLPK itself through swiglpk (rows, columns, bounds, kinds, matrix, objective, direction),
not from optlang's Python-side caches, and compared with enc(FBA(model)) computed from the Python objects.
"""
import math
from fractions import Fraction

INF = float("inf")


def _num(x):
    if x is None:
        return None
    x = float(x)
    if math.isinf(x) or math.isnan(x):
        return x
    return x


def read_glpk(model):
    """-> dict(vars={name:(lb,ub,kind)}, cons={name:(lb,ub,{var:coef})}, obj={var:coef}, direction)"""
    import swiglpk as g
    solver = model.solver
    solver.update()
    p = solver.problem
    ncol, nrow = g.glp_get_num_cols(p), g.glp_get_num_rows(p)

    def bounds(typ, lb, ub):
        if typ == g.GLP_FR:
            return (-INF, INF)
        if typ == g.GLP_LO:
            return (lb, INF)
        if typ == g.GLP_UP:
            return (-INF, ub)
        if typ == g.GLP_DB:
            return (lb, ub)
        return (lb, lb)  # GLP_FX
    names = {}
    vars_ = {}
    kinds = {g.GLP_CV: "continuous", g.GLP_IV: "integer", g.GLP_BV: "binary"}
    for j in range(1, ncol + 1):
        nm = g.glp_get_col_name(p, j)
        names[j] = nm
        lb, ub = bounds(g.glp_get_col_type(p, j), g.glp_get_col_lb(p, j), g.glp_get_col_ub(p, j))
        vars_[nm] = (lb, ub, kinds.get(g.glp_get_col_kind(p, j), "?"))
    cons = {}
    ia = g.intArray(ncol + 1)
    da = g.doubleArray(ncol + 1)
    for i in range(1, nrow + 1):
        nm = g.glp_get_row_name(p, i)
        lb, ub = bounds(g.glp_get_row_type(p, i), g.glp_get_row_lb(p, i), g.glp_get_row_ub(p, i))
        n = g.glp_get_mat_row(p, i, ia, da)
        coefs = {}
        for k in range(1, n + 1):
            if da[k] != 0:
                coefs[names[ia[k]]] = da[k]
        cons[nm] = (lb, ub, coefs)
    obj = {}
    for j in range(1, ncol + 1):
        c = g.glp_get_obj_coef(p, j)
        if c != 0:
            obj[names[j]] = c
    direction = "max" if g.glp_get_obj_dir(p) == g.GLP_MAX else "min"
    return {"vars": vars_, "cons": cons, "obj": obj, "direction": direction, "obj_const": g.glp_get_obj_coef(p, 0)}


def var_bounds_for(lb, ub):
    """the documented map F(lb,ub) of reaction bounds onto the forward / reverse variable pair"""
    if lb > 0:
        return (lb, ub), (0.0, 0.0)
    if ub < 0:
        return (0.0, 0.0), (-ub, -lb)
    return (0.0, ub), (0.0, -lb)


def expected_lp(model):
    """enc(FBA(model)) from the Python objects only."""
    vars_, cons = {}, {}
    for r in model.reactions:
        f, b = var_bounds_for(r._lower_bound, r._upper_bound)
        vars_[r.id] = (float(f[0]), float(f[1]), "continuous")
        vars_[r.reverse_id] = (float(b[0]), float(b[1]), "continuous")
    for m in model.metabolites:
        cons[m.id] = (0.0, 0.0, {})
    for r in model.reactions:
        for m, c in r._metabolites.items():
            row = cons.setdefault(m.id, (0.0, 0.0, {}))[2]
            if c != 0:
                row[r.id] = row.get(r.id, 0.0) + float(c)
                row[r.reverse_id] = row.get(r.reverse_id, 0.0) - float(c)
    return {"vars": vars_, "cons": cons}


def _close(a, b, tol=1e-9):
    if a == b:
        return True
    if a is None or b is None:
        return False
    if math.isinf(a) or math.isinf(b):
        return a == b
    return abs(a - b) <= tol * max(1.0, abs(a), abs(b))


def check_lp(model, user_vars=(), user_cons=(), objective=None, direction=None):
    """Inv_LP: -> list of discrepancies (empty = the solver holds exactly the model's flux-balance problem plus the
    listed user variables/constraints).  objective: {reaction id: coef} expected (None: skip), direction 'max'/'min'."""
    out = []
    try:
        got = read_glpk(model)
    except Exception as e:  # noqa
        return [f"cannot read solver: {e!r}"]
    exp = expected_lp(model)
    uv, uc = set(user_vars), set(user_cons)
    for nm, (lb, ub, kind) in exp["vars"].items():
        if nm not in got["vars"]:
            out.append(f"variable {nm} missing from the solver")
            continue
        glb, gub, gk = got["vars"][nm]
        if not (_close(glb, lb) and _close(gub, ub)):
            out.append(f"variable {nm}: solver bounds ({glb},{gub}) expected ({lb},{ub})")
        if gk != kind:
            out.append(f"variable {nm}: kind {gk}")
    for nm in got["vars"]:
        if nm not in exp["vars"] and nm not in uv:
            out.append(f"stray variable {nm} in the solver")
    for nm, (lb, ub, coefs) in exp["cons"].items():
        if nm not in got["cons"]:
            out.append(f"constraint {nm} missing from the solver")
            continue
        glb, gub, gc = got["cons"][nm]
        if not (_close(glb, lb) and _close(gub, ub)):
            out.append(f"constraint {nm}: solver bounds ({glb},{gub}) expected ({lb},{ub})")
        gc2 = {k: v for k, v in gc.items() if k not in uv}
        keys = set(gc2) | set(coefs)
        for k in keys:
            if not _close(gc2.get(k, 0.0), coefs.get(k, 0.0)):
                out.append(f"constraint {nm}: coefficient of {k} is {gc2.get(k, 0.0)} expected {coefs.get(k, 0.0)}")
    for nm in got["cons"]:
        if nm not in exp["cons"] and nm not in uc:
            out.append(f"stray constraint {nm} in the solver")
    if objective is not None:
        expo = {}
        for rid, c in objective.items():
            if c != 0:
                r = model.reactions.get_by_id(rid)
                expo[r.id] = float(c)
                expo[r.reverse_id] = -float(c)
        for k in set(expo) | set(got["obj"]):
            if not _close(got["obj"].get(k, 0.0), expo.get(k, 0.0)):
                out.append(f"objective coefficient of {k} is {got['obj'].get(k, 0.0)} expected {expo.get(k, 0.0)}")
    if direction is not None and got["direction"] != direction:
        out.append(f"objective direction {got['direction']} expected {direction}")
    return out


def reported_objective(model):
    """objective coefficients as the public API reports them: {reaction id: coef}"""
    from cobra.util.solver import linear_reaction_coefficients
    return {r.id: float(c) for r, c in linear_reaction_coefficients(model).items() if c != 0}


def check_lp_reported(model, user_vars=(), user_cons=()):
    """Inv_LP with the objective and direction the model itself reports."""
    try:
        obj = reported_objective(model)
        direction = model.objective_direction
    except Exception as e:  # noqa
        return [f"cannot read reported objective: {e!r}"]
    return check_lp(model, user_vars, user_cons, obj, direction)


def check_xref(model):
    """Inv_XRef (statement of C02): -> list of discrepancies."""
    out = []
    for name in ("reactions", "metabolites", "genes", "groups"):
        dl = getattr(model, name)
        ids = [x.id for x in dl]
        if len(set(ids)) != len(ids):
            out.append(f"{name}: duplicate identifiers")
        if len(dl._dict) != len(dl):
            out.append(f"{name}: index has {len(dl._dict)} keys for {len(dl)} elements")
        for i, x in enumerate(dl):
            if dl._dict.get(x.id) != i:
                out.append(f"{name}: {x.id} not found by id at its position {i}")
            if name != "groups" and x._model is not model:
                out.append(f"{name}: {x.id} does not point at the model")
    for r in model.reactions:
        for m, c in r._metabolites.items():
            if c == 0:
                out.append(f"reaction {r.id}: zero coefficient for {m.id}")
            if m.id not in model.metabolites or model.metabolites.get_by_id(m.id) is not m:
                out.append(f"reaction {r.id}: metabolite {m.id} is not the model's object")
            if r not in m._reaction:
                out.append(f"reaction {r.id} lists {m.id} but not vice versa")
        for gn in r._genes:
            if gn.id not in model.genes or model.genes.get_by_id(gn.id) is not gn:
                out.append(f"reaction {r.id}: gene {gn.id} is not the model's object")
            if r not in gn._reaction:
                out.append(f"reaction {r.id} lists gene {gn.id} but not vice versa")
        rule_genes = set(r.gpr.genes) if r.gpr is not None else set()
        if {gn.id for gn in r._genes} != rule_genes:
            out.append(f"reaction {r.id}: genes {sorted(gn.id for gn in r._genes)} != genes of rule {sorted(rule_genes)}")
    for m in model.metabolites:
        for r in m._reaction:
            if r.id not in model.reactions or model.reactions.get_by_id(r.id) is not r:
                out.append(f"metabolite {m.id}: dangling reaction {r.id}")
            elif m not in r._metabolites:
                out.append(f"metabolite {m.id} lists {r.id} but not vice versa")
    for gn in model.genes:
        for r in gn._reaction:
            if r.id not in model.reactions or model.reactions.get_by_id(r.id) is not r:
                out.append(f"gene {gn.id}: dangling reaction {r.id}")
            elif gn not in r._genes:
                out.append(f"gene {gn.id} lists {r.id} but not vice versa")
    for grp in model.groups:
        for mem in grp.members:
            holder = None
            for name in ("reactions", "metabolites", "genes", "groups"):
                dl = getattr(model, name)
                if mem.id in dl and dl.get_by_id(mem.id) is mem:
                    holder = name
            if holder is None:
                out.append(f"group {grp.id}: member {mem.id} is not an object of the model")
    return out


def truth_table(gpr, genes=None):
    """canonical Boolean function of a rule: (sorted gene ids, tuple of values over all absent-subsets)"""
    import itertools
    gs = sorted(gpr.genes) if genes is None else sorted(genes)
    if len(gs) > 8:
        return (tuple(gs), gpr.to_string())
    vals = []
    for mask in itertools.product([False, True], repeat=len(gs)):
        ko = {g for g, m in zip(gs, mask) if m}
        vals.append(bool(gpr.eval(ko)))
    return (tuple(gs), tuple(vals))


def _canon(x):
    if isinstance(x, dict):
        return tuple(sorted((str(k), _canon(v)) for k, v in x.items()))
    if isinstance(x, (list, tuple)):
        return tuple(_canon(v) for v in x)
    if isinstance(x, set):
        return tuple(sorted(_canon(v) for v in x))
    if isinstance(x, float) and x == int(x) and not math.isinf(x):
        return float(x)
    return x


def snapshot(model, with_lp=True, with_meta=True):
    """Obs(model): everything observable, modulo the order of the lists."""
    s = {}
    s["reactions"] = {
        r.id: (float(r._lower_bound), float(r._upper_bound),
               tuple(sorted((m.id, float(c)) for m, c in r._metabolites.items())),
               truth_table(r.gpr), tuple(sorted(g.id for g in r._genes)),
               (r.name, r.subsystem, _canon(r.notes), _canon(r.annotation)) if with_meta else None,
               r._model is model)
        for r in model.reactions}
    s["metabolites"] = {
        m.id: (tuple(sorted(r.id for r in m._reaction)),
               (m.name, m.formula, m.charge, m.compartment, _canon(m.notes), _canon(m.annotation)) if with_meta else None,
               m._model is model)
        for m in model.metabolites}
    s["genes"] = {
        g.id: (bool(g.functional), tuple(sorted(r.id for r in g._reaction)),
               (g.name, _canon(g.notes), _canon(g.annotation)) if with_meta else None, g._model is model)
        for g in model.genes}
    s["groups"] = {g.id: (g.name, g.kind, tuple(sorted((type(m).__name__, m.id) for m in g.members))) for g in model.groups}
    s["compartments"] = _canon(dict(model.compartments))
    if with_lp:
        lp = read_glpk(model)
        s["lp"] = (tuple(sorted((k, v) for k, v in lp["vars"].items())),
                   tuple(sorted((k, (v[0], v[1], tuple(sorted(v[2].items())))) for k, v in lp["cons"].items())),
                   tuple(sorted(lp["obj"].items())), lp["direction"])
        s["tolerance"] = model.tolerance
    return s


def diff_snapshots(a, b, limit=6):
    out = []
    for k in a:
        if a[k] == b.get(k):
            continue
        if isinstance(a[k], dict):
            for key in sorted(set(a[k]) | set(b[k]), key=str):
                if a[k].get(key) != b[k].get(key):
                    out.append(f"{k}[{key}]: {a[k].get(key)!r} -> {b[k].get(key)!r}"[:400])
        elif k == "lp":
            names = ["variables", "constraints", "objective", "direction"]
            for nm, x, y in zip(names, a[k], b[k]):
                if x != y:
                    if isinstance(x, tuple):
                        dx, dy = dict(x), dict(y)
                        for key in sorted(set(dx) | set(dy)):
                            if dx.get(key) != dy.get(key):
                                out.append(f"lp.{nm}[{key}]: {dx.get(key)!r} -> {dy.get(key)!r}"[:400])
                    else:
                        out.append(f"lp.{nm}: {x!r} -> {y!r}")
        else:
            out.append(f"{k}: {a[k]!r} -> {b[k]!r}"[:400])
        if len(out) >= limit:
            break
    return out[:limit]
