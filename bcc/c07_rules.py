"""Rule trees for the C06 / C07 / C14 drivers: enumeration, rendering and an INDEPENDENT evaluator.

A tree is   int                      (leaf: index of a gene)
        or  ("and", (child, ...))    (>= 2 children)
        or  ("or",  (child, ...))    (>= 2 children)
Children are ordered, a child may carry the same operator as its parent (that is the nesting "a and (b and c)",
which the cobra parser keeps as a nested node) — so the space is: all ordered trees whose internal nodes have >= 2
children (1, 1, 3, 11 shapes for 1..4 leaves), every internal node labelled and/or, every leaf labelled with a gene.

Nothing here imports cobra: the truth value of a rule with a set of genes absent is computed on the generator's tree,
never through cobra's parser or GPR.eval.
"""
import itertools


def compositions(n, k_min=2):
    """ordered ways of writing n as a sum of >= k_min positive parts"""
    def rec(rest, parts):
        if rest == 0:
            if len(parts) >= k_min:
                yield tuple(parts)
            return
        for p in range(1, rest + 1):
            yield from rec(rest - p, parts + [p])
    yield from rec(n, [])


def shapes(n):
    """all shapes with n leaves; a shape is None (leaf) or a tuple of child shapes"""
    if n == 1:
        yield None
        return
    for comp in compositions(n):
        for kids in itertools.product(*[list(shapes(p)) for p in comp]):
            yield tuple(kids)


def _n_internal(shape):
    return 0 if shape is None else 1 + sum(_n_internal(k) for k in shape)


def _n_leaves(shape):
    return 1 if shape is None else sum(_n_leaves(k) for k in shape)


def _label(shape, ops, leaves):
    """consume iterators ops / leaves in pre-order"""
    if shape is None:
        return next(leaves)
    op = next(ops)
    return (op, tuple(_label(k, ops, leaves) for k in shape))


def restricted_growth(n, k):
    """leaf labellings of n leaves with <= k genes up to renaming: first occurrences appear in the order 0,1,2,..."""
    def rec(prefix, mx):
        if len(prefix) == n:
            yield tuple(prefix)
            return
        for v in range(min(mx + 1, k - 1) + 1):
            yield from rec(prefix + [v], max(mx, v))
    yield from rec([], -1)


def all_trees(max_leaves=4, n_genes=4, canonical=False):
    """every tree with <= max_leaves leaves over n_genes genes (canonical: leaf labellings up to gene renaming)"""
    for n in range(1, max_leaves + 1):
        labellings = list(restricted_growth(n, n_genes)) if canonical else list(itertools.product(range(n_genes), repeat=n))
        for shape in shapes(n):
            ni = _n_internal(shape)
            for ops in itertools.product(("and", "or"), repeat=ni):
                for lab in labellings:
                    yield _label(shape, iter(ops), iter(lab))


def random_tree(rng, max_leaves=4, n_genes=4):
    n = rng.randint(1, max_leaves)
    shape = rng.choice(list(shapes(n)))
    ops = [rng.choice(("and", "or")) for _ in range(_n_internal(shape))]
    lab = [rng.randrange(n_genes) for _ in range(n)]
    return _label(shape, iter(ops), iter(lab))


def genes_of(tree):
    if isinstance(tree, int):
        return {tree}
    out = set()
    for k in tree[1]:
        out |= genes_of(k)
    return out


def n_leaves(tree):
    return 1 if isinstance(tree, int) else sum(n_leaves(k) for k in tree[1])


def holds(tree, absent):
    """INDEPENDENT semantics: a leaf holds iff its gene is not absent; and = every child holds; or = some child holds.
    Written with explicit loops (no all/any) so that it shares no idiom with the code under test."""
    if isinstance(tree, int):
        return tree not in absent
    op, kids = tree
    if op == "and":
        for k in kids:
            if not holds(k, absent):
                return False
        return True
    if op == "or":
        for k in kids:
            if holds(k, absent):
                return True
        return False
    raise ValueError(op)


def table(tree, n_genes=4):
    """truth table over all absent-subsets, indexed by bit mask (bit i set = gene i absent)"""
    return tuple(holds(tree, {i for i in range(n_genes) if mask >> i & 1}) for mask in range(1 << n_genes))


def render(tree, names, top=True):
    """rule text with explicit parentheses around every nested node"""
    if isinstance(tree, int):
        return names[tree]
    op, kids = tree
    s = f" {op} ".join(render(k, names, False) for k in kids)
    return s if top else f"({s})"


def to_json(tree):
    return tree if isinstance(tree, int) else [tree[0], [to_json(k) for k in tree[1]]]


def from_json(j):
    return j if isinstance(j, int) else (j[0], tuple(from_json(k) for k in j[1]))


def orders(subset, max_full=4):
    """all orders of the subset if it has <= max_full elements, else the sorted and the reversed order"""
    subset = sorted(subset)
    if len(subset) <= max_full:
        return [list(p) for p in itertools.permutations(subset)]
    return [subset, subset[::-1]]


def subsets(n):
    for mask in range(1 << n):
        yield [i for i in range(n) if mask >> i & 1]
