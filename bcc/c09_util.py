"""Helpers shared by the bounded drivers C09, C17 and C18 (pool runner, flux checks, exact |.|-LPs, result assembly)."""
import hashlib
import json
import logging
import math
import multiprocessing
import os
import time
import warnings
from fractions import Fraction

from bcc import oracle_lp

INF = float("inf")
FEAS_TOL = 1e-6


def silence():
    warnings.filterwarnings("ignore")
    logging.disable(logging.CRITICAL)


def Q(x):
    return x if isinstance(x, Fraction) else Fraction(float(x))


def fluxdict(series):
    return {str(k): float(v) for k, v in series.items()}


def stoich(model):
    """{metabolite id: {reaction id: coef}} from the Python objects"""
    rows = {m.id: {} for m in model.metabolites}
    for r in model.reactions:
        for m, c in r._metabolites.items():
            rows[m.id][r.id] = rows[m.id].get(r.id, 0.0) + float(c)
    return rows


def flux_problems(model, v, tol=FEAS_TOL, bounds=None, only=None, rows=None):
    """steady state and bounds of a complete flux dict against the Python objects -> list of strings.
    bounds / rows: a captured state ({rid: (lb, ub)}, stoich(model)) instead of the live model"""
    out = []
    scale = max([1.0] + [abs(x) for x in v.values() if not math.isnan(x)])
    for x in v.values():
        if math.isnan(x):
            return ["flux vector contains NaN"]
    if bounds is None:
        bounds = {r.id: (r.lower_bound, r.upper_bound) for r in model.reactions}
    missing = sorted(set(bounds) - set(v))
    if missing or set(v) - set(bounds):
        return [f"fluxes reported for {sorted(v)} but the model's reactions are {sorted(bounds)}"]
    for mid, row in (stoich(model) if rows is None else rows).items():
        s = sum(c * v[rid] for rid, c in row.items())
        if abs(s) > tol * scale:
            out.append(f"steady state violated at {mid}: S.v = {s:g}")
    for rid, (lb, ub) in bounds.items():
        if v[rid] < lb - tol * max(1.0, abs(lb) if not math.isinf(lb) else 1.0) or \
                v[rid] > ub + tol * max(1.0, abs(ub) if not math.isinf(ub) else 1.0):
            out.append(f"flux of {rid} = {v[rid]!r} outside [{lb}, {ub}]")
    return out[:4]


def add_abs(lp, name, coefs, centre=0):
    """variable `name` >= |sum coefs - centre| (two rows, the textbook linearisation)"""
    lp.var(name, 0.0, INF)
    c1 = dict(coefs)
    c1[name] = -1.0
    lp.con(c1, -INF, centre)          # expr - a <= centre
    c2 = dict(coefs)
    c2[name] = 1.0
    lp.con(c2, centre, INF)           # expr + a >= centre
    return name


def con_exact(lp, coefs, lb, ub):
    """constraint with exact Fraction sides (oracle_lp.Q passes Fractions through)"""
    lp.cons.append((dict(coefs), lb, ub))


def model_sig(desc):
    """structure signature of a gen.describe() dict (identifier of the model excluded)"""
    d = {k: v for k, v in desc.items() if k != "id"}
    return hashlib.sha1(json.dumps(d, sort_keys=True, default=str).encode()).hexdigest()[:16]


def case_sig(obj):
    return hashlib.sha1(json.dumps(obj, sort_keys=True, default=str).encode()).hexdigest()[:16]


def jsonable(x):
    if isinstance(x, Fraction):
        return float(x)
    if isinstance(x, dict):
        return {str(k): jsonable(v) for k, v in x.items()}
    if isinstance(x, (list, tuple, set, frozenset)):
        return [jsonable(v) for v in x]
    if isinstance(x, float):
        if math.isinf(x):
            return "inf" if x > 0 else "-inf"
        if math.isnan(x):
            return "nan"
        return x
    try:
        import numpy as np
        if isinstance(x, np.generic):
            return jsonable(x.item())
    except Exception:  # noqa
        pass
    return x


def unjson_float(x):
    if x == "inf":
        return INF
    if x == "-inf":
        return -INF
    if x == "nan":
        return float("nan")
    return x


def describe(model):
    """gen.describe with infinities made JSON-able"""
    from bcc import gen
    d = gen.describe(model)
    d["reactions"] = [[rid, jsonable(float(lb)), jsonable(float(ub)), st, rule] for rid, lb, ub, st, rule in d["reactions"]]
    return d


def rebuild(desc):
    from bcc import gen
    d = dict(desc)
    d["reactions"] = [[rid, unjson_float(lb), unjson_float(ub), st, rule] for rid, lb, ub, st, rule in desc["reactions"]]
    return gen.rebuild(d)


_WORKER = None


def _call(args):
    i, case = args
    silence()
    try:
        return i, _WORKER(case)
    except Exception as e:  # noqa  - a crash of the checker itself is reported, never mapped to a violation
        import traceback
        return i, {"error": f"{type(e).__name__}: {e}", "trace": traceback.format_exc()[-1500:], "failures": [],
                   "sig": None, "nontrivial": False}


def _call_chunk(chunk):
    return [_call(x) for x in chunk]


def run_pool(worker, cases, processes=None, deadline=None, chunksize=4):
    """fork pool over the cases (list of JSON-able dicts); returns results in case order; cases not started before the
    deadline (seconds from now) are dropped and counted."""
    global _WORKER
    _WORKER = worker
    processes = processes or min(16, os.cpu_count() or 1)
    t0 = time.time()
    out = {}
    if processes <= 1 or len(cases) < 4:
        for i, c in enumerate(cases):
            if deadline and time.time() - t0 > deadline:
                break
            out[i] = _call((i, c))[1]
    else:
        ctx = multiprocessing.get_context("fork")
        with ctx.Pool(processes) as pool:
            items = list(enumerate(cases))
            chunks = [items[k:k + chunksize] for k in range(0, len(items), chunksize)]
            it = pool.imap_unordered(_call_chunk, chunks, chunksize=1)
            try:
                while True:
                    if deadline:
                        left = deadline - (time.time() - t0)
                        if left <= 0:
                            break
                        got = it.next(timeout=left)
                    else:
                        got = it.next()
                    for i, r in got:
                        out[i] = r
            except StopIteration:
                pass
            except multiprocessing.TimeoutError:
                pass
            pool.terminate()
    return [out.get(i) for i in range(len(cases))]


def assemble(cases, results, rule, bounds, exhaustive=False, per_key=3, t0=None):
    """the driver result dict; at most `per_key` witnesses are kept per failure key (smallest models first)"""
    evaluations = 0
    sigs = set()
    failures = []
    errors = []
    samples = []
    by_key = {}
    dropped = 0
    for case, res in zip(cases, results):
        if res is None:
            dropped += 1
            continue
        if res.get("error"):
            errors.append({"error": res["error"], "trace": res.get("trace"), "replay": case})
            continue
        evaluations += res.get("evaluations", 1)
        if res.get("nontrivial") and res.get("sig") is not None:
            sigs.add(res["sig"])
        for s in res.get("sigs", ()):
            sigs.add(s)
        if res.get("sample") is not None and len(samples) < 3 and res.get("nontrivial"):
            samples.append(jsonable(res["sample"]))
        for f in res.get("failures", ()):
            rec = {"key": f["key"], "failure": f["failure"], "replay": f.get("replay", case)}
            if f.get("witness") is not None:
                rec["witness"] = f["witness"]       # fixed, seed-independent case: stable id, never capped
            by_key.setdefault(f["key"], []).append(rec)
    counts = {k: len(v) for k, v in by_key.items()}
    for k in sorted(by_key):
        fixed = sorted((f for f in by_key[k] if "witness" in f), key=lambda f: f["witness"])
        ws = sorted((f for f in by_key[k] if "witness" not in f), key=lambda f: len(json.dumps(f["replay"], default=str)))
        failures.extend(fixed)
        failures.extend(ws[:per_key])
    out = {
        "evaluations": evaluations,
        "distinct_nontrivial": len(sigs),
        "rule": rule,
        "bounds": bounds,
        "exhaustive": exhaustive,
        "samples": samples,
        "failures": failures,
        "failure_counts": counts,
        "witnesses": {k: sorted(f["witness"] for f in v if "witness" in f) for k, v in by_key.items()
                      if any("witness" in f for f in v)},
        "checker_errors": errors[:5],
        "n_checker_errors": len(errors),
        "dropped_for_time": dropped,
    }
    if t0 is not None:
        out["seconds"] = round(time.time() - t0, 1)
    return out
