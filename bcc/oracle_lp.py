"""Exact LP oracle over the rationals (z3 Optimize), built from stoichiometry / bounds / objective only.

Used by the bounded tier for every LP-valued postcondition and to monitor the assumed GLPK contract.
status: 'optimal' | 'infeasible' | 'unbounded'
"""
import math
from fractions import Fraction
import z3

INF = float("inf")


def Q(x):
    if isinstance(x, Fraction):
        return x
    return Fraction(float(x))


def _rv(fr):
    return z3.RealVal(f"{fr.numerator}/{fr.denominator}")


def _frac(v):
    v = z3.simplify(v)
    if z3.is_int_value(v):
        return Fraction(v.as_long())
    if z3.is_rational_value(v):
        return Fraction(v.numerator_as_long(), v.denominator_as_long())
    if z3.is_algebraic_value(v):
        return Fraction(v.approx(30).as_fraction())
    raise ValueError(f"not a number: {v}")


class LP:
    """variables: {name: (lb, ub)} (floats, +-inf allowed); constraints: list of (coefs{name:coef}, lb, ub)"""

    def __init__(self):
        self.vars = {}
        self.cons = []
        self.ints = set()

    def var(self, name, lb=-INF, ub=INF, integer=False):
        self.vars[name] = (lb, ub)
        if integer:
            self.ints.add(name)

    def con(self, coefs, lb, ub):
        self.cons.append((dict(coefs), lb, ub))

    def copy(self):
        o = LP()
        o.vars, o.cons, o.ints = dict(self.vars), [(dict(c), l, u) for c, l, u in self.cons], set(self.ints)
        return o

    def _base(self, opt):
        zs = {}
        for n, (lb, ub) in self.vars.items():
            v = z3.Int("x_" + n) if n in self.ints else z3.Real("x_" + n)
            zs[n] = v
            if not math.isinf(lb):
                opt.add(v >= _rv(Q(lb)))
            elif lb > 0:
                opt.add(False)
            if not math.isinf(ub):
                opt.add(v <= _rv(Q(ub)))
            elif ub < 0:
                opt.add(False)
        for coefs, lb, ub in self.cons:
            e = z3.Sum([_rv(Q(c)) * zs[n] for n, c in coefs.items()]) if coefs else z3.RealVal(0)
            if not math.isinf(lb):
                opt.add(e >= _rv(Q(lb)))
            if not math.isinf(ub):
                opt.add(e <= _rv(Q(ub)))
        return zs

    def solve(self, objective, direction="max", timeout_ms=60000):
        """-> (status, value Fraction|None, point {name: Fraction}|None)"""
        opt = z3.Optimize()
        opt.set("timeout", timeout_ms)
        zs = self._base(opt)
        e = z3.Sum([_rv(Q(c)) * zs[n] for n, c in objective.items()]) if objective else z3.RealVal(0)
        h = opt.maximize(e) if direction == "max" else opt.minimize(e)
        r = opt.check()
        if r == z3.unsat:
            return "infeasible", None, None
        if r != z3.sat:
            return "unknown", None, None
        val = opt.upper(h) if direction == "max" else opt.lower(h)
        s = str(val)
        if "oo" in s:
            return "unbounded", None, None
        if "epsilon" in s:
            return "unknown", None, None
        m = opt.model()
        pt = {n: _frac(m.eval(v, model_completion=True)) for n, v in zs.items()}
        return "optimal", _frac(val), pt

    def feasible(self):
        s = z3.Solver()
        self._base(s)
        return s.check() == z3.sat

    def range_of(self, name_or_coefs):
        """(min, max) of a variable or linear form; entries None when infeasible, +-inf when unbounded"""
        coefs = {name_or_coefs: 1} if isinstance(name_or_coefs, str) else name_or_coefs
        out = []
        for d in ("min", "max"):
            st, v, _ = self.solve(coefs, d)
            if st == "optimal":
                out.append(v)
            elif st == "unbounded":
                out.append(-INF if d == "min" else INF)
            else:
                out.append(None)
        return tuple(out)


def fba_lp(model, knockouts=()):
    """The flux-balance problem of the model from its Python objects: one net-flux variable per reaction,
    one steady-state row per metabolite. -> (LP, objective {rid: coef}, direction)"""
    from cobra.util.solver import linear_reaction_coefficients
    lp = LP()
    ko = set(knockouts)
    for r in model.reactions:
        if r.id in ko:
            lp.var(r.id, 0.0, 0.0)
        else:
            lp.var(r.id, float(r._lower_bound), float(r._upper_bound))
    rows = {m.id: {} for m in model.metabolites}
    for r in model.reactions:
        for m, c in r._metabolites.items():
            rows[m.id][r.id] = rows[m.id].get(r.id, 0.0) + float(c)
    for mid, coefs in rows.items():
        lp.con(coefs, 0.0, 0.0)
    obj = {r.id: float(c) for r, c in linear_reaction_coefficients(model).items() if c != 0}
    return lp, obj, model.objective_direction


def lp_from_arrays(S, lbs, ubs, rids):
    lp = LP()
    for rid, lb, ub in zip(rids, lbs, ubs):
        lp.var(rid, lb, ub)
    for row in S:
        lp.con({rid: c for rid, c in zip(rids, row) if c != 0}, 0.0, 0.0)
    return lp


def close(a, b, rel=1e-6, abs_=1e-6):
    a, b = float(a), float(b)
    if math.isnan(a) or math.isnan(b):
        return False
    if math.isinf(a) or math.isinf(b):
        return a == b
    return abs(a - b) <= max(abs_, rel * max(abs(a), abs(b)))
