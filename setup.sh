#!/bin/sh
# Build the offline overlay venv used by every check: py3.12 (the repo's interpreter) + z3/cvc5/crosshair/deal
# from the local wheelhouse, with /venv's site-packages (cobra's own deps, cobra itself editable) appended.
set -e
cd "$(dirname "$0")"
V=.venv
if [ -x "$V/bin/python" ] && "$V/bin/python" -c "import z3, cvc5, jsonschema, cobra" >/dev/null 2>&1; then
  echo "setup: $V already usable"; exit 0
fi
rm -rf "$V"
/venv/bin/python -m venv "$V"
PIP_NO_INDEX=1 "$V/bin/pip" install -q --no-index --find-links /opt/veriftools/wheels \
    z3-solver cvc5 crosshair-tool deal icontract hypothesis jsonschema
SP=$("$V/bin/python" -c "import sysconfig; print(sysconfig.get_paths()['purelib'])")
echo "import site; site.addsitedir('/venv/lib/python3.12/site-packages')" > "$SP/_repo_deps.pth"
"$V/bin/python" -c "import z3, cvc5, jsonschema, cobra; print('setup ok: z3', z3.get_version_string(), 'cobra', cobra.__version__)"
