"""C08 — A gene rule is a Boolean function and its text form is faithful."""
from contracts import c07_knockout as C
from contracts import c08_visitors as V
from contracts import c02_remove_genes as RG
from contracts import c08_text as T
from props._generic import run_property, replay_with_driver

LEVEL = "other"
KEYS = ["GPR._eval_gpr", "GPR.eval", "Reaction.functional@getter"]
# the tree-walking visitor classes (contracts/c08_visitors.py; hook table V.HOOKS: child lists as heap state)
VISITOR_KEYS = ["_GeneRemover.visit_Name", "_GeneRemover.visit_BoolOp",
                "GPRWalker.visit_Name", "GPRWalker.visit_BoolOp", "GPR.update_genes", "GPR.genes@getter/proved",
                "GPR._symbolic_gpr", "GPR.as_symbolic", "GPR.__eq__", "GPRCleaner.visit_BinOp",
                "GPR._eval_gpr/heap", "GPR.eval/heap", "GPR.copy", "GPR.__copy__"]


def run(rep):
    run_property(rep, KEYS, hooks=C.HOOKS, explanation=(
        "Deductive: the first clause of the statement - a parsed rule evaluates, for every set of absent genes, to the Boolean and/or "
        "value of the expression - is proved for the evaluator: GPR._eval_gpr equals sem(tree, absent) for every well-formed tree of "
        "any size and nesting by structural induction, GPR.eval and Reaction.functional follow. Everything about TEXT (from_string's "
        "regex escaping of identifiers, CPython's parser, to_string, symbolic round trips, ==) is outside the SMT string fragments "
        "that terminate and outside this verifier: exhaustive small-domain enumeration in the bounded driver (all trees with <=4 "
        "leaves over an alphabet covering every identifier class the statement names x spellings x knock-out subsets against an "
        "independent truth-table evaluator, plus copy/pickle/symbolic round trips, == and remove_genes). "
        "Tree-walking visitor classes (ast.NodeVisitor / NodeTransformer, dispatch on the node's class modelled as a case split on its "
        "kind tag, rule trees as a MUTABLE heap): _GeneRemover.visit_Name / visit_BoolOp (what remove_genes applies to every rule it "
        "keeps) are proved, by structural induction, to return None only if the old rule is False with the target genes absent, and "
        "otherwise a well-formed tree that evaluates, for every set K of absent genes, to what the old rule evaluates to with K and "
        "the target genes absent (precondition: well-formed tree whose and/or nodes have at least one child). GPRWalker.visit_Name / "
        "visit_BoolOp, GPR.update_genes and the GPR.genes getter are proved to report exactly names(tree), the identifiers of the "
        "Name nodes occurring in the tree (nothing when the rule has no body); lemma steps: the value of a rule depends only on the "
        "absent genes among names(tree), and only on the heap below the node. Assumed per visitor class: generic_visit (children "
        "visited in order / child list replaced by the non-None results; carries the induction hypothesis and the disjointness of "
        "sibling sub-trees) and the dispatch of visit. Symbolic form: GPR._symbolic_gpr (every kind of node, with a symbol table "
        "mapping each name of the tree to Symbol(name), and the first call that builds that table from GPR.genes) and GPR.as_symbolic "
        "(no display names) are proved to return, for a rule with a body, an expression whose Boolean value equals the rule's for "
        "every set of absent genes, and exactly Symbol('') for a rule without body - relative to the ASSUMED meaning of sympy's "
        "Symbol / Or / And; GPR.__eq__ is proved to return True only for logically equivalent rules, relative to the ASSUMED "
        "soundness of sympy's `equals` and structural `==` of Symbols. GPRCleaner.visit_BinOp (the `&` / `|` spelling) is proved to "
        "return a NEW BoolOp node with an And node for `&` and an Or node for `|` whose `values` is a LIST (precondition of the assumed "
        "constructor contract: a tuple there is rejected) holding exactly the cleaned left and right operand in this order, so that its "
        "value is their conjunction / disjunction, and to raise TypeError for every other operator. GPR._eval_gpr / GPR.eval are "
        "proved a second time, against this heap-resident semantics, so that evaluation, removal, symbolic form, == and the gene "
        "set are all stated about one function; lemma kept-rule-is-old-rule-with-genes-absent lifts the remover's contract to the "
        "GPR object remove_genes rewrites. from_symbolic's recursive converter _sympy_to_ast is proved to return, for a sympy expression "
        "of the Symbol / Or / And fragment, a well-formed tree with the expression's Boolean value (sympy accessors func / args / name "
        "assumed inverse to the constructors; node allocation modelled functionally: the function only builds). The directly recursive "
        "functions (_symbolic_gpr, _sympy_to_ast, _eval_gpr) carry a variant - height of the node / size of the expression decreases at "
        "every recursive call - so that `recursive call = own contract` is a well-founded induction. GPR.copy / __copy__ pass an "
        "assumed deepcopy through. "
        "The last clause of the statement for remove_genes itself (contracts/c02_remove_genes.py, no context open, any model "
        "and gene list): every reaction of the model with a non-empty rule that is not handed to Model.remove_reactions ends "
        "with a rule whose value, for every set K of absent genes, is that of its old rule with K and the removed identifiers "
        "absent (or without body only if the old rule is False with them absent), by the proved remover contracts applied to "
        "the body at the call site; the reactions handed to Model.remove_reactions are exactly those whose rule is False with "
        "the removed identifiers absent (remove_reactions set); every other rule is untouched. Assumed there: the visit of the "
        "root GPR object (NodeTransformer.generic_visit on a node whose body is a node) and that rule trees of different GPR "
        "objects are disjoint. "
        "SKELETON of the text half (contracts/c08_text.py; every string operation - str.strip / replace / `in` / len, re.Pattern.sub for "
        "keyword_re, number_start_re, \\bAND\\b, \\bOR\\b - is an uninterpreted function named after the operation, only `len(s) == 0 iff "
        "s == ''` is assumed about them): GPR.from_string is proved to raise TypeError with nothing changed for a non-string; to return the "
        "rule without body (evaluates True, no genes, no warning) for an empty / blank text; to hand to ast.parse exactly text0 = "
        "replace(number_start_re.sub(ESC, keyword_re.sub(ESC, R8(strip(s)))), '()', '') where R8 is the fold of the eight conditional "
        "replacements of the module constant `replacements` (loop invariant over the real loop); when the parser rejects text0 and it "
        "contains AND / OR, to retry once with both lowered (two logger warnings observed; the engine drops `warn(...)` statements, so the "
        "SyntaxWarning next to them is not observed); when the parser rejects the retried text, to log the two `Malformed` warnings and "
        "return the rule without body; otherwise to return a NEW well-formed GPR object with a body whose Boolean value (for every set of "
        "absent genes), names(tree) and name cache are esc_sem / esc_names of the text that was parsed (precondition: a text CPython "
        "accepts is an and/or/&/| expression over identifiers) - relative to the ASSUMED contracts of ast.parse (SyntaxError or the parse "
        "tree of the text), GPRCleaner.visit on the root (un-escapes the identifiers; its visit_BinOp is the proved piece) and deepcopy of "
        "the body.  GPR.__init__ is proved for its shapes: no argument (no body, empty cache), an Expression holding a parser output or a "
        "clean tree (cleaner applied, cache = the cleaner's gene_set, body = the copy, self.eval() reached with a well-formed rule: value "
        "and names as above / unchanged), any other non-Module node: TypeError (Module / GPR arguments and the str branch are outside the "
        "cases).  GPR.from_symbolic: TypeError for a non-sympy argument, Symbol('') gives the rule without body, otherwise the rule wraps "
        "the tree of the proved converter _sympy_to_ast in an Expression and has the Boolean value of the sympy expression "
        "(precondition: fragment Symbol / Or / And, identifiers without escape tokens).  GPR.to_string is a proved pass-through of the "
        "ASSUMED string-level _ast2str.  Reaction.gene_reaction_rule setter (body under @resettable): self._gpr becomes the rule "
        "from_string returns for the text (all its cases) and update_genes_from_gpr() is called exactly once afterwards (recorded; its "
        "effect is the proved C02 contract); a non-string rule raises TypeError with _gpr unchanged and no call; Reaction.gpr setter and "
        "the gene_reaction_rule getter likewise.  Lemmas: induction steps of `an expression tree ignores the body field`; with the "
        "STRING-LEVEL assumption `escaping is faithful` (T2, tested by the bounded driver only) the rule from_string returns has the "
        "value and the genes of the ORIGINAL text."),
        more=[(VISITOR_KEYS, V.HOOKS), (["GPR.from_symbolic._sympy_to_ast"], V.HOOKS_S2A), (RG.KEYS, RG.HOOKS), (T.KEYS_RX, T.HOOKS_RX),
              (T.KEYS_FSYM, T.HOOKS_FSYM)], lemmas=T.all_lemmas,
        trusted=["ast.parse / re / sympy (assumed)", "rule trees are finite and acyclic",
                 "ast.NodeVisitor.visit dispatches on the node's class name to visit_<Class> or generic_visit (assumed contracts "
                 "_GeneRemover.visit / GPRWalker.visit whose cases are the proved method contracts)",
                 "ast.NodeTransformer.generic_visit / ast.NodeVisitor.generic_visit on a BoolOp node of a rule TREE (sibling sub-trees "
                 "disjoint), including the induction hypothesis for the children (assumed contracts _GeneRemover.generic_visit / "
                 "GPRWalker.generic_visit)",
                 "GPRWalker() creates a visitor with an empty gene_set; copy.deepcopy of a set of strings is an equal set",
                 "object allocation ast.BoolOp(op, values) / ast.And() / ast.Or(): a new node that is no child of an existing node, "
                 "class tag and operator fixed at construction (assumed contracts); NodeTransformer.generic_visit on a BinOp node "
                 "replaces left / right by nodes (assumed contract GPRCleaner.generic_visit)",
                 "copy.deepcopy of a GPR object returns another GPR object with the same truth table, the same names and a body exactly "
                 "when the original has one (assumed; GPR.copy / __copy__ are proved to pass it through)",
                 "sympy accessors: an expression of the GPR fragment is an Or / And of >= 1 such expressions (func, args) or an "
                 "argument-less Symbol with a name, with the corresponding meaning; expressions and rule trees are finite (size / height "
                 "decrease to arguments / children); ast.Name(id=..) / ast.BoolOp(op=.., values=[..]) as functional allocation inside "
                 "_sympy_to_ast (assumed)",
                 "remove_genes: _GeneRemover.visit on the root GPR object (body replaced by the visit of the body, attribute deleted for "
                 "None), rule trees of different GPR objects disjoint; the remover constructor; gene_reaction_rule empty iff no body",
                 "sympy: Symbol(k) is true iff k is not absent, Or(*es) / And(*es) mean some / all of es (whatever simplification they "
                 "apply), a.equals(b) is True only for logically equivalent a, b, `==` of two Symbols is structural (assumed)",
                 "text skeleton: the string functions str.strip, str.replace, str.__contains__, str.__len__ (only len(s)==0 iff s==''), "
                 "re.Pattern.sub of keyword_re / number_start_re / \\bAND\\b / \\bOR\\b are uninterpreted; ast.parse raises SyntaxError or "
                 "returns the Expression whose body is the parse tree of the text (assumed contract ast.parse, functional allocation); "
                 "GPRCleaner().visit(root) turns a parse tree of an and/or/&/| text into a well-formed tree with the value and names of the "
                 "text with identifiers un-escaped, leaves a clean tree without escape tokens unchanged, adds the names to gene_set "
                 "(assumed contract GPRCleaner.visit: dispatch + generic_visit + string-level visit_Name); GPRCleaner() / ast.Module() / "
                 "ast.Expression(body) allocation; copy.deepcopy of an expression tree keeps value and names; the closure-free "
                 "transcription of the proved _sympy_to_ast contract at its call site (+ its tree is no parser output); GPR._ast2str "
                 "(string level) is the uninterpreted function gpr_ast2str; new GPR objects are non-null with class tag GPR",
                 "string-level assumption T2 (lemma from_string/value-and-genes-of-the-original-text only): the escaping pipeline is "
                 "faithful - for a text of the grammar the escaped text (or the text with AND / OR lowered) is accepted by CPython and "
                 "has the value and identifiers of the original"])


def replay(payload):
    return replay_with_driver("C08", payload)
