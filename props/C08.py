"""C08 — A gene rule is a Boolean function and its text form is faithful."""
from contracts import c07_knockout as C
from props._generic import run_property, replay_with_driver

LEVEL = "other"
KEYS = ["GPR._eval_gpr", "GPR.eval", "Reaction.functional@getter"]


def run(rep):
    run_property(rep, KEYS, hooks=C.HOOKS, explanation=(
        "Deductive: the first clause of the statement - a parsed rule evaluates, for every set of absent genes, to the Boolean and/or "
        "value of the expression - is proved for the evaluator: GPR._eval_gpr equals sem(tree, absent) for every well-formed tree of "
        "any size and nesting by structural induction, GPR.eval and Reaction.functional follow. Everything about TEXT (from_string's "
        "regex escaping of identifiers, CPython's parser, to_string, symbolic round trips, ==) is outside the SMT string fragments "
        "that terminate and outside this verifier: exhaustive small-domain enumeration in the bounded driver (all trees with <=4 "
        "leaves over an alphabet covering every identifier class the statement names x spellings x knock-out subsets against an "
        "independent truth-table evaluator, plus copy/pickle/symbolic round trips, == and remove_genes)."),
        trusted=["ast.parse / re / sympy (assumed)", "rule trees are finite and acyclic"])


def replay(payload):
    return replay_with_driver("C08", payload)
