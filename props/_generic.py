"""Shared wiring of a property check: pyvc obligations for the contracts listed + the bounded driver bcc/drivers/<ID>.py."""
import importlib
import os
import traceback
from contracts.common import REG


def run_property(rep, keys, hooks=None, explanation="", trusted=(), fallback=None, driver=True, known_keys=(), lemmas=None, more=()):
    """more: further (keys, hooks) groups - contracts that need another hook table than the first group"""
    rep.explanation = explanation
    rep.trusted += list(trusted) + ["z3 5.1 / cvc5 1.0.3 soundness", "pyvc executor (guarded by native cross-check and mutation trials)",
                                    "CPython built-ins as axiomatised in pyvc/builtins.py"]
    drv = None
    if driver and os.environ.get("VERIF_DEV_SKIP_BOUNDED"):
        # development switch (never part of a registered command): only the deductive part, for engine regression runs
        rep.extra["bounded_note"] = "bounded driver SKIPPED (VERIF_DEV_SKIP_BOUNDED set)"
        print(f"NOTE [{rep.pid}] bounded driver skipped (development switch)")
        driver = False
    if driver:
        try:
            drv = importlib.import_module(f"bcc.drivers.{rep.pid}")
        except ModuleNotFoundError:
            rep.extra["bounded_note"] = "no bounded driver registered for this property"
        except Exception:  # noqa
            rep.errors.append("bounded driver failed to import: " + traceback.format_exc()[-800:])

    def fb(key, case, rec):
        if fallback is not None:
            r = fallback(key, case, rec)
            if r is not None:
                return r
        return None
    if keys:
        rep.add_pyvc(REG, keys, hooks=hooks, fallback=fb)
    for keys2, hooks2 in more:
        rep.add_pyvc(REG, keys2, hooks=hooks2, fallback=fb)
    if lemmas:
        rep.add_lemmas(lemmas())
    if drv is not None:
        try:
            out = drv.run(rep.tier, rep.seed)
        except Exception:  # noqa
            rep.errors.append("bounded driver crashed: " + traceback.format_exc()[-1500:])
            return
        rep.add_bounded(f"{rep.pid}-driver", int(out.get("evaluations", 0)), int(out.get("distinct_nontrivial", 0)),
                        out.get("failures", []), out.get("samples", []), out.get("rule", ""), out.get("bounds", {}),
                        exhaustive=bool(out.get("exhaustive", False)))


def replay_with_driver(pid, payload):
    fi = payload.get("failing_input") or {}
    if "replay" not in fi:
        return None
    drv = importlib.import_module(f"bcc.drivers.{pid}")
    return drv.replay(fi["replay"])
