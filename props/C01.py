"""C01 — The solver always holds exactly the model's flux-balance problem."""
from contracts import c01_lp, c02_rename  # noqa
from contracts import c01_populate as POP
from contracts import c02_rxn_add_metabolites as RAM
from contracts import c02_add_reactions as AR
from contracts import c01_solver_setter as SS
from props._generic import run_property, replay_with_driver

LEVEL = "other"
KEYS = ["Reaction._check_bounds", "Reaction.update_variable_bounds", "Reaction.lower_bound@setter", "Reaction.upper_bound@setter",
        "Reaction.bounds@setter", "Reaction.knock_out"]
# renaming an object of a model keeps the solver objects' names in step (contracts shared with C02; own hook table); the assumed
# optlang contracts they rest on are listed so that they appear in the trusted base
RENAME_KEYS = ["Reaction._set_id_with_model", "Metabolite._set_id_with_model", "Variable.name@setter", "Constraint.name@setter",
               "Container.__getitem__"]
# the reaction's solver-variable getters: PROVED against their real bodies (contracts/c01_lp.py, own hook table); the optlang look-up they
# bottom out in is listed so that it appears in the trusted base
GETTER_KEYS = c01_lp.GETTER_KEYS


def fallback(key, case, rec):
    """native search: every pair of bounds from a grid through every setter, LP read back from GLPK"""
    import itertools
    import warnings
    import cobra
    from bcc import views
    warnings.simplefilter("ignore")
    inf = float("inf")
    grid = [-inf, -1000.0, -5.0, -1.0, 0.0, 1.0, 5.0, 1000.0, inf]
    for lb, ub in itertools.product(grid, grid):
        if lb > ub or lb == inf or ub == -inf:
            continue
        for how in ("bounds", "lower_then_upper", "upper_then_lower", "knock_out"):
            m = cobra.Model("t")
            r = cobra.Reaction("R1")
            a = cobra.Metabolite("a_c", compartment="c")
            r.add_metabolites({a: -1.0})
            m.add_reactions([r])
            try:
                if how == "bounds":
                    r.bounds = (lb, ub)
                elif how == "lower_then_upper":
                    r.bounds = (min(lb, -1000.0), max(ub, 1000.0))
                    r.lower_bound = lb
                    r.upper_bound = ub
                elif how == "upper_then_lower":
                    r.bounds = (min(lb, -1000.0), max(ub, 1000.0))
                    r.upper_bound = ub
                    r.lower_bound = lb
                else:
                    r.bounds = (lb, ub)
                    r.knock_out()
            except Exception as e:  # noqa
                return {"key": f"bounds-setter:{how}", "failure": f"{how} with ({lb},{ub}) raised {e!r}",
                        "replay": {"kind": "bounds", "lb": lb, "ub": ub, "how": how}}
            d = views.check_lp(m)
            if d:
                return {"key": f"bounds-setter:{how}", "failure": f"after {how} with ({lb},{ub}): {d[:3]}",
                        "replay": {"kind": "bounds", "lb": lb, "ub": ub, "how": how}}
    return None


def run(rep):
    run_property(rep, KEYS, fallback=fallback, more=[(RENAME_KEYS, c02_rename.HOOKS), (GETTER_KEYS, c01_lp.GETTER_HOOKS), ([POP.KEY], POP.HOOKS),
                                                        (RAM.KEYS, RAM.HOOKS), (AR.KEYS, AR.HOOKS), (SS.KEYS, SS.HOOKS)],
                 lemmas=lambda: POP.lemmas() + [o for o in RAM.lemmas() if "rows" in o.name or "undo" in o.name], explanation=(
        "Switching the solver interface (the Model.solver setter, contracts/c01_solver_setter.py; every path): an argument check_solver refuses raises SolverNotFound with NOTHING changed (same solver object, no call, nothing registered); an argument that resolves to the interface of the current solver does nothing (same OBJECT, no clone, nothing registered, also in a context); otherwise exactly one interface.Model.clone(<old solver object>) and `_solver` is the NEW object it returned, of the requested interface and - ASSUMED clone contract - with the old object's problem (same variables / constraints / objective by name, bounds, coefficients), the old object untouched; in a context exactly one entry partial(setattr, self, '_solver', <the previous solver OBJECT>) is registered in the innermost context BEFORE the clone (10ce3f2: the very object is put back); no tolerance call, `_tolerance` unchanged - that the new solver's configuration carries the tolerance is left to the assumed clone and NOT claimed. "
        "Reaction.forward_variable / reverse_variable / reverse_id (assumed contracts until round 5) are proved against their real bodies: None without a model, else the look-up model.variables[id] resp. [reverse_id] in the variables container of the solver of the reaction's own model (through the real Model.variables / Model.solver getters), which is fwd / rev of the reaction under the stated in-step assumption; reverse_id = '_'.join((id, 'reverse', md5(id utf-8).hexdigest()[0:5])), the documented shape. "
        "Model.add_reactions (no context) is proved to call _populate_solver exactly once, with exactly the reactions that joined, in the exit state (every joining reaction linked, appended and found under its identifier - the cobra-side precondition of _populate_solver's contract), and not at all when it raises. "
        "Deductive (kernel): Reaction.update_variable_bounds is proved, for all extended-real bounds with lb<=ub, lb<+inf, ub>-inf, "
        "to give the forward/reverse variable pair bounds such that the net flux f-r ranges over exactly [lb,ub] (both inclusions, "
        "the statement's wording), to follow the documented three-branch map, to keep both variables non-negative and to touch no "
        "other variable; the three bounds setters and Reaction.knock_out are proved against it incl. the raising case (lb>ub leaves "
        "everything unchanged). Renaming (Reaction._set_id_with_model / Metabolite._set_id_with_model, reached through the id "
        "setter of an object that belongs to a model) is proved to keep the solver in step: from a state where the reaction's forward "
        "/ reverse variable carry id / reverse id as names, afterwards the forward variable is named by the new id, the reverse "
        "variable by the new reverse id and no other solver object is renamed (metabolite: the constraint registered under the old id "
        "is named by the new id, nothing else); a new id that is already in use raises ValueError with NOTHING changed; for a "
        "reaction, a new id (or reverse id) that optlang's name setter refuses (white space) raises ValueError with NOTHING changed "
        "either - id, list, index, the names of both variables, a forward variable already renamed carries its old name again (the "
        "original body left id and index changed: defect found with this contract, repaired in /repo acce6db). Stated preconditions: "
        "the object is listed in its model's well-formed DictList and the solver is in step at entry (names optlang accepted); for a "
        "metabolite also that optlang accepts the new name (its constraint is renamed first, a refused name raises before anything "
        "changed - not modelled as a case). Model._populate_solver (the function that creates every variable, row and "
        "coefficient; lists of any length, five loop invariants): one add_cons_vars call with exactly one new Constraint(Zero, "
        "name=<id>, lb=0, ub=0) per listed metabolite; every listed reaction ends with a forward variable registered under its "
        "id and a distinct reverse variable under its reverse id (a name registered at entry keeps its object - the re-use branch "
        "taken when a removal is reverted - otherwise both are new and handed over together); update_variable_bounds applied by "
        "its proved contract after the single solver.update(), hence the net flux ranges over exactly the reaction's bounds; for "
        "every metabolite m of a listed reaction with coefficient c the row named by m's id (the entry one, else a new one with "
        "lb=ub=0) holds c for the forward and -c for the reverse variable; every other matrix entry is as at entry, existing "
        "solver objects keep names and bounds. Reaction.add_metabolites (contract shared with C02): the solver row of every "
        "touched metabolite holds its final coefficient for the forward and its negative for the reverse variable, 0 for a removed "
        "metabolite, no other cell written; lemma rows-preserved: if every row mirrored the stoichiometry at entry it does at exit. "
        "The closure of the invariant over all public operations and histories is NOT proved: it is covered "
        "by the bounded driver (exhaustive/seeded histories with the GLPK problem read back through swiglpk after every step)."),
        trusted=["Model.solver setter: check_solver as a look-up (ghost chk_ok / chk_iface of the argument; interface_to_str, the `solvers` table and the osqp / cbc warning not modelled); Model.problem == the interface of the current solver object; interface.Model.clone(s) returns a NEW solver object of that interface with the same problem (lp_of) and modifies nothing, exceptions inside optlang not modelled; HistoryManager.__call__ as a ghost push event", "optlang Variable.set_bounds; optlang Container look-up by name (VarContainer.__getitem__: model.variables[name] is the object registered under name, KeyError if none)",
                 "solver in step (axiom of the proved forward_variable / reverse_variable getters): the objects registered in the solver of a reaction's model under its id / reverse id are the ones the contracts call fwd / rev, both exist and differ (md5-based reverse_id different from every reaction id)",
                 "hashlib.md5(..).hexdigest()[0:5] and str.join as uninterpreted functions of their string arguments; reverse_id_of(id) DEFINED as '_'.join((id, 'reverse', md5 prefix))",
                 "reverse_id is a function of the current id (hook in contracts/c02_rename.py); lookup of a solver variable by name "
                 "finds the reaction's variable only while it carries the current (reverse) id",
                 "optlang name setters and model.constraints[name] (assumed contracts over the heap field opt_name)",
                 "_populate_solver: problem.Variable / problem.Constraint(Zero, ...) allocate fresh objects with an all-zero column / "
                 "row; add_cons_vars registers objects by name (new, pairwise different names obliged at each call); container "
                 "look-ups by the ghost name maps; set_linear_coefficients writes exactly the given entries; AutoVivification a dict "
                 "of dicts keyed by object identity; reaction.metabolites a finite map in a ghost enumeration",
                 "Reaction.add_metabolites: model.constraints[name] / set_linear_coefficients as a ghost matrix (assumed)"])


def replay(payload):
    fi = (payload.get("failing_input") or {}).get("replay") or {}
    if fi.get("kind") == "bounds":
        r = fallback(None, None, None)
        return r["failure"] if r else None
    return replay_with_driver("C01", payload)
