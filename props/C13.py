"""C13 — Analyses leave the model exactly as they found it."""
import time
from contracts import c04_status  # noqa
from props._generic import run_property, replay_with_driver

LEVEL = "other"
KEYS = ["Model.optimize", "Model.slim_optimize"]


def run(rep):
    from pyvc import frame_check
    t0 = time.time()
    try:
        recs = frame_check.check_all()
        for r in recs:
            r["seconds"] = 0.0
        rep.add_records(recs, what="frame")
        rep.extra["frame_analysis"] = {"sites": len(recs), "assumptions": str(frame_check.explain())[:6000] if hasattr(frame_check, "explain") else ""}
        if not recs:
            rep.errors.append("frame analysis generated zero obligations")
    except Exception as e:  # noqa
        import traceback
        rep.errors.append("frame analysis crashed: " + traceback.format_exc()[-1500:])
    rep.extra["frame_seconds"] = round(time.time() - t0, 2)
    run_property(rep, KEYS, explanation=(
        "Deductive: a modular FRAME ANALYSIS of the real AST of every analysis the statement names (68 functions, 11 documented "
        "modifier helpers, ~320 effect sites, regenerated from /repo on every run): every context-aware mutator of the argument model "
        "must lie inside a `with model:` block of the same function or target a copy (then C03 restores it on every exit, normal or "
        "exceptional), every write behind the context's back (objective direction, linear coefficients set directly on optlang "
        "objects) must be compensated on all paths by one of four exactly implemented patterns (try/finally restore, write-back of a "
        "saved value, a dominating registered objective reset, an object owned by the context); the classification of each callee "
        "carries machine-checkable evidence (@resettable / get_context+context(...) / delegation) that is re-verified on the current "
        "source; anything unclassified is UNDECIDED, never discharged. Model.optimize's direction restore is additionally proved by "
        "symbolic execution (C04 kernel). Repeatability of uniquely defined results and the whole-state comparison are covered by the "
        "bounded driver (snapshot before/after every analysis on feasible/infeasible/unbounded models, inside/outside a user context)."),
        trusted=["C03: leaving a `with model:` block restores the model (context mechanism)", "callee classification table (evidence "
                 "re-verified on every run)", "flow-insensitive alias tracking of the frame analysis (assumptions A1-A6 in its explain())"])


def replay(payload):
    return replay_with_driver("C13", payload)
