"""C11 — JSON, YAML, dict and pickle round trips return the same model."""
from contracts import c10_c11_io as C
from contracts import c01_lp  # noqa
from props._generic import run_property, replay_with_driver

LEVEL = "other"
KEYS = ["_fix_type", "Reaction.bounds@setter", "Reaction.lower_bound@setter", "Reaction.upper_bound@setter"]


def lemmas():
    """bound-setting protocol: `bounds = (lb, ub)` on a fresh reaction succeeds for EVERY valid pair (the protocol the repaired
    loaders use); the contract case `valid` of the bounds setter has exactly that precondition."""
    import z3
    from pyvc.engine import Obl
    from pyvc.values import VReal, xr_le, xr_lt
    lb, ub = VReal(z3.Int("p_lbk"), z3.Real("p_lbv")), VReal(z3.Int("p_ubk"), z3.Real("p_ubv"))
    dom = [lb.k >= -1, lb.k <= 1, ub.k >= -1, ub.k <= 1, xr_le(lb, ub), lb.k != 1, ub.k != -1]
    valid_case = z3.And(xr_le(lb, ub), lb.k != 1, ub.k != -1)          # requires of Reaction.bounds@setter case `valid`
    raises_case = xr_lt(ub, lb)                                         # requires of case `lb_gt_ub`
    return [Obl("C11/lemma/bounds-pair-protocol-never-raises-for-valid-pairs", dom, z3.And(valid_case, z3.Not(raises_case)), "lemma")]


def run(rep):
    run_property(rep, KEYS, hooks=C.HOOKS, lemmas=lemmas, explanation=(
        "Deductive part is thin and stated as such: dict._fix_type is proved to be the identity on str/float/bool/int and to map None to "
        "'' ; the bounds setters the loaders rely on are proved (C01 kernel) and the protocol lemma `assigning both bounds at once "
        "succeeds for every valid pair` follows from the setter contract (the one-at-a-time protocol of the original loaders did not: "
        "fixed in /repo). The codecs (json, ruamel.yaml, pickle), the dict assembly loops over heterogeneous values and the gene-rule "
        "text are outside the verifier's reach: bounded driver (snapshot equality incl. the solver problem, optimum and idempotence for "
        "every format/variant on generated models, non-default Configuration bounds)."),
        trusted=["json / ruamel.yaml / pickle codecs", "float(str(x)) == x"])


def replay(payload):
    return replay_with_driver("C11", payload)
