"""C11 — JSON, YAML, dict and pickle round trips return the same model."""
from contracts import c10_c11_io as C
from contracts import c01_lp  # noqa
from props._generic import run_property, replay_with_driver

LEVEL = "other"
KEYS = ["_fix_type", "_update_optional", "_reaction_to_dict", "_metabolite_to_dict", "_gene_to_dict", "Reaction.bounds@setter", "Reaction.lower_bound@setter", "Reaction.upper_bound@setter"]


def lemmas():
    """bound-setting protocol: `bounds = (lb, ub)` on a fresh reaction succeeds for EVERY valid pair (the protocol the repaired
    loaders use); the contract case `valid` of the bounds setter has exactly that precondition."""
    import z3
    from pyvc.engine import Obl
    from pyvc.values import VReal, xr_le, xr_lt
    lb, ub = VReal(z3.Int("p_lbk"), z3.Real("p_lbv")), VReal(z3.Int("p_ubk"), z3.Real("p_ubv"))
    dom = [lb.k >= -1, lb.k <= 1, ub.k >= -1, ub.k <= 1, xr_le(lb, ub), lb.k != 1, ub.k != -1]
    valid_case = z3.And(xr_le(lb, ub), lb.k != 1, ub.k != -1)          # requires of Reaction.bounds@setter case `valid`
    raises_case = xr_lt(ub, lb)                                         # requires of case `lb_gt_ub`
    return [Obl("C11/lemma/bounds-pair-protocol-never-raises-for-valid-pairs", dom, z3.And(valid_case, z3.Not(raises_case)), "lemma")]


def fallback(key, case, rec):
    """native search for a failed _reaction_to_dict obligation: every pair of bounds from a grid; the written entry must be the
    float itself for a finite bound and a string for inf / -inf / nan, and the JSON encoder (allow_nan=False) must accept it"""
    if key != "_reaction_to_dict":
        return None
    import itertools
    import json
    import math
    import warnings
    import cobra
    from cobra.io.dict import _reaction_to_dict
    warnings.simplefilter("ignore")
    inf = float("inf")
    grid = [-inf, -1000.0, -1.5, 0.0, 2.5, 1000.0, inf]
    for lb, ub in itertools.product(grid, grid):
        if lb > ub:
            continue
        r = cobra.Reaction("R1", lower_bound=0, upper_bound=0)
        r._lower_bound, r._upper_bound = lb, ub          # the function only reads the two attributes
        r.add_metabolites({cobra.Metabolite("a_c", compartment="c"): -1.0})
        rep = {"kind": "reaction_to_dict", "lb": repr(lb), "ub": repr(ub)}
        try:
            d = _reaction_to_dict(r)
        except Exception as e:  # noqa
            return {"key": "_reaction_to_dict:raised", "failure": f"bounds ({lb},{ub}): raised {e!r}", "replay": rep}
        for name, x in (("lower_bound", lb), ("upper_bound", ub)):
            special = math.isinf(x) or math.isnan(x)
            v = d.get(name)
            if special != isinstance(v, str) or (not special and v != x) or (special and float(v) != x):
                return {"key": "_reaction_to_dict:bound-entry", "failure": f"bounds ({lb},{ub}): entry {name} = {v!r}", "replay": rep}
        try:
            json.dumps(d, allow_nan=False)
        except Exception as e:  # noqa
            return {"key": "_reaction_to_dict:json", "failure": f"bounds ({lb},{ub}): json.dumps raised {e!r}", "replay": rep}
    return None


def run(rep):
    run_property(rep, KEYS, hooks=C.HOOKS, lemmas=lemmas, fallback=fallback, explanation=(
        "Deductive part (the writer half of the dict form): dict._fix_type is proved to be the identity on str/float/bool/int, to map "
        "None to '' and a dictionary to a NEW dictionary with the same keys and value objects; dict._update_optional is proved, for "
        "its four instantiations (reaction, metabolite, gene, model key lists; None-able attributes in both shapes), to write an "
        "optional entry exactly when the attribute is not None and differs from its default, with _fix_type(attribute) as value, and "
        "to leave every other entry alone; _reaction_to_dict, _metabolite_to_dict and _gene_to_dict are proved against these "
        "contracts: required entries under the right keys in the documented order, each bound written as the float itself exactly "
        "when it is finite and as a string exactly when it is infinite or NaN (what the JSON encoder needs), optional entries exactly "
        "as above; the bounds setters the loaders rely on are proved (C01 kernel) and the protocol lemma `assigning both bounds at once "
        "succeeds for every valid pair` follows from the setter contract (the one-at-a-time protocol of the original loaders did not: "
        "fixed in /repo). The codecs (json, ruamel.yaml, pickle), the dict assembly loops over heterogeneous values and the gene-rule "
        "text are outside the verifier's reach: bounded driver (snapshot equality incl. the solver problem, optimum and idempotence for "
        "every format/variant on generated models, non-default Configuration bounds)."),
        trusted=["json / ruamel.yaml / pickle codecs", "float(str(x)) == x"])


def replay(payload):
    fi = (payload.get("failing_input") or {}).get("replay") or {}
    if fi.get("kind") == "reaction_to_dict":
        import json
        import cobra
        from cobra.io.dict import _reaction_to_dict
        r = cobra.Reaction("R1", lower_bound=0, upper_bound=0)
        r._lower_bound, r._upper_bound = float(fi["lb"]), float(fi["ub"])
        d = _reaction_to_dict(r)
        try:
            json.dumps(d, allow_nan=False)
            ok = all(isinstance(d[k], str) == (abs(float(fi[s])) == float("inf") or float(fi[s]) != float(fi[s]))
                     for k, s in (("lower_bound", "lb"), ("upper_bound", "ub")))
        except Exception:  # noqa
            ok = False
        return {"reproduced": not ok, "observed": {k: repr(d[k]) for k in ("lower_bound", "upper_bound")}}
    return replay_with_driver("C11", payload)
