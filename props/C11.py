"""C11 — JSON, YAML, dict and pickle round trips return the same model."""
from contracts import c10_c11_io as C
from contracts import c01_lp  # noqa
from contracts import c11_reader as R
from contracts import c11_model as M2
from contracts import c11_frontends as FE
from props._generic import run_property, replay_with_driver

LEVEL = "other"
KEYS = ["_fix_type", "_update_optional", "_reaction_to_dict", "_metabolite_to_dict", "_gene_to_dict", "Reaction.bounds@setter", "Reaction.lower_bound@setter", "Reaction.upper_bound@setter"]


def lemmas():
    """bound-setting protocol: `bounds = (lb, ub)` on a fresh reaction succeeds for EVERY valid pair (the protocol the repaired
    loaders use); the contract case `valid` of the bounds setter has exactly that precondition."""
    import z3
    from pyvc.engine import Obl
    from pyvc.values import VReal, xr_le, xr_lt
    lb, ub = VReal(z3.Int("p_lbk"), z3.Real("p_lbv")), VReal(z3.Int("p_ubk"), z3.Real("p_ubv"))
    dom = [lb.k >= -1, lb.k <= 1, ub.k >= -1, ub.k <= 1, xr_le(lb, ub), lb.k != 1, ub.k != -1]
    valid_case = z3.And(xr_le(lb, ub), lb.k != 1, ub.k != -1)          # requires of Reaction.bounds@setter case `valid`
    raises_case = xr_lt(ub, lb)                                         # requires of case `lb_gt_ub`
    out = [Obl("C11/lemma/bounds-pair-protocol-never-raises-for-valid-pairs", dom, z3.And(valid_case, z3.Not(raises_case)), "lemma")]
    # round trip per object kind: writer post-condition o reader post-condition (contracts/c11_reader.py)
    # the DictLists of a pickled model: what DictList.__reduce__ hands to pickle comes back as a well-formed list with the same
    # identifiers in the same order (contracts/c15_query.py, from the post-conditions of the proved C15 contracts)
    from contracts import c15_query as Q15
    return out + R.lemmas() + M2.lemmas() + Q15.lemmas(prefix="C11")


_READER_KEYS = ("_reaction_from_dict", "_metabolite_from_dict", "gene_from_dict")
_reader_cache = {}


def _reader_trial(rep):
    """one native trial of the reader half: build the object, write it with the real writer, (optionally add the legacy keys), read
    it back with the real reader and compare what C11 lists -> failure text or None"""
    import warnings
    import cobra
    from cobra.io import dict as D
    warnings.simplefilter("ignore")
    notes, ann = ({"n": "1"}, {"sbo": "SBO:1"}) if rep.get("rich") else ({}, {})
    if rep["kind"] == "metabolite_from_dict":
        m = cobra.Metabolite("a_c", name="A", compartment="c", formula="H2O" if rep.get("rich") else None, charge=-2 if rep.get("rich") else None)
        m.notes, m.annotation = notes, ann
        m2 = D._metabolite_from_dict(D._metabolite_to_dict(m))
        got = [(k, getattr(m, k), getattr(m2, k)) for k in ("id", "name", "compartment", "formula", "charge", "_bound", "notes", "annotation")]
    elif rep["kind"] == "gene_from_dict":
        g = cobra.Gene("g1", name="G" if rep.get("rich") else "")
        g.notes, g.annotation = notes, ann
        g2 = D.gene_from_dict(D._gene_to_dict(g))
        got = [(k, getattr(g, k), getattr(g2, k)) for k in ("id", "name", "notes", "annotation")]
    else:
        model = cobra.Model("m")
        a, b = cobra.Metabolite("a_c", compartment="c"), cobra.Metabolite("b_c", compartment="c")
        model.add_metabolites([a, b])
        r = cobra.Reaction("R1", name="r one", lower_bound=0, upper_bound=0, subsystem="S" if rep.get("rich") else "")
        r._lower_bound, r._upper_bound = float(rep["lb"]), float(rep["ub"])
        r.add_metabolites({cobra.Metabolite("a_c", compartment="c"): -1.5, cobra.Metabolite("b_c", compartment="c"): 2})
        r.gene_reaction_rule = "g1 and g2" if rep.get("rich") else ""
        r.notes, r.annotation = notes, ann
        d = D._reaction_to_dict(r)
        if rep.get("legacy"):
            d["reversibility"], d["reaction"], d["objective_coefficient"] = True, "a_c --> x_c", 1.0
        try:
            r2 = D._reaction_from_dict(d, model)
        except Exception as e:  # noqa
            return f"_reaction_from_dict raised {e!r} for bounds ({rep['lb']}, {rep['ub']})"
        got = [(k, getattr(r, k), getattr(r2, k)) for k in ("id", "name", "lower_bound", "upper_bound", "gene_reaction_rule", "subsystem",
                                                           "notes", "annotation")]
        st = lambda x: sorted((m.id, c, type(c).__name__) for m, c in x.metabolites.items())  # noqa
        got.append(("metabolites", st(r), st(r2)))
        if any(m.id in ("a_c", "b_c") and m is not model.metabolites.get_by_id(m.id) and m.model is not None for m in r2.metabolites):
            return "a metabolite of the reaction read back belongs to another model"
    for k, x, y in got:
        if x != y and not (x != x and y != y):
            return f"{rep['kind']}: attribute {k} written from {x!r} is read back as {y!r}"
    return None


def _reader_fallback(key):
    """native search for a failed obligation of the reader half (cached per function)"""
    if key in _reader_cache:
        return _reader_cache[key]
    import itertools
    inf = float("inf")
    trials = []
    if key == "_reaction_from_dict":
        grid = [-inf, -5000.0, -1000.0, -1.5, 0.0, 2.5, 1000.0, 5000.0, inf]
        for lb, ub in itertools.product(grid, grid):
            if lb <= ub and lb != inf and ub != -inf:
                for rich, legacy in ((False, False), (True, True)):
                    trials.append({"kind": "reaction_from_dict", "lb": repr(lb), "ub": repr(ub), "rich": rich, "legacy": legacy})
    else:
        trials = [{"kind": key.lstrip("_"), "rich": rich} for rich in (False, True)]
    out = None
    for rep in trials:
        try:
            f = _reader_trial(rep)
        except Exception as e:  # noqa
            f = f"{rep['kind']}: raised {e!r}"
        if f:
            out = {"key": key + ":native-round-trip", "failure": f, "replay": rep}
            break
    _reader_cache[key] = out
    return out


def fallback(key, case, rec):
    """native search for a failed _reaction_to_dict obligation: every pair of bounds from a grid; the written entry must be the
    float itself for a finite bound and a string for inf / -inf / nan, and the JSON encoder (allow_nan=False) must accept it;
    for a failed obligation of the reader half: native writer -> reader round trips over a grid of valid bound pairs (beyond the
    defaults, infinite), plain and rich objects, with and without the legacy keys"""
    if key in _READER_KEYS:
        return _reader_fallback(key)
    if key != "_reaction_to_dict":
        return None
    import itertools
    import json
    import math
    import warnings
    import cobra
    from cobra.io.dict import _reaction_to_dict
    warnings.simplefilter("ignore")
    inf = float("inf")
    grid = [-inf, -1000.0, -1.5, 0.0, 2.5, 1000.0, inf]
    for lb, ub in itertools.product(grid, grid):
        if lb > ub:
            continue
        r = cobra.Reaction("R1", lower_bound=0, upper_bound=0)
        r._lower_bound, r._upper_bound = lb, ub          # the function only reads the two attributes
        r.add_metabolites({cobra.Metabolite("a_c", compartment="c"): -1.0})
        rep = {"kind": "reaction_to_dict", "lb": repr(lb), "ub": repr(ub)}
        try:
            d = _reaction_to_dict(r)
        except Exception as e:  # noqa
            return {"key": "_reaction_to_dict:raised", "failure": f"bounds ({lb},{ub}): raised {e!r}", "replay": rep}
        for name, x in (("lower_bound", lb), ("upper_bound", ub)):
            special = math.isinf(x) or math.isnan(x)
            v = d.get(name)
            if special != isinstance(v, str) or (not special and v != x) or (special and float(v) != x):
                return {"key": "_reaction_to_dict:bound-entry", "failure": f"bounds ({lb},{ub}): entry {name} = {v!r}", "replay": rep}
        try:
            json.dumps(d, allow_nan=False)
        except Exception as e:  # noqa
            return {"key": "_reaction_to_dict:json", "failure": f"bounds ({lb},{ub}): json.dumps raised {e!r}", "replay": rep}
    return None


def run(rep):
    run_property(rep, KEYS, hooks=C.HOOKS, more=[(R.KEYS + R.ASSUMED_KEYS, R.HOOKS), (M2.KEYS + M2.ASSUMED_KEYS, M2.HOOKS), (FE.KEYS + FE.ASSUMED_KEYS, FE.HOOKS)], lemmas=lemmas, fallback=fallback, explanation=(
        "Deductive part (the writer half of the dict form): dict._fix_type is proved to be the identity on str/float/bool/int, to map "
        "None to '' and a dictionary to a NEW dictionary with the same keys and value objects; dict._update_optional is proved, for "
        "its four instantiations (reaction, metabolite, gene, model key lists; None-able attributes in both shapes), to write an "
        "optional entry exactly when the attribute is not None and differs from its default, with _fix_type(attribute) as value, and "
        "to leave every other entry alone; _reaction_to_dict, _metabolite_to_dict and _gene_to_dict are proved against these "
        "contracts: required entries under the right keys in the documented order, each bound written as the float itself exactly "
        "when it is finite and as a string exactly when it is infinite or NaN (what the JSON encoder needs), optional entries exactly "
        "as above; the bounds setters the loaders rely on are proved (C01 kernel) and the protocol lemma `assigning both bounds at once "
        "succeeds for every valid pair` follows from the setter contract (the one-at-a-time protocol of the original loaders did not: "
        "fixed in /repo). The reader half: _metabolite_from_dict and gene_from_dict are proved to return a NEW object whose attributes "
        "are exactly the entries of the record (every key assigned with the entry's value object - `id` / `annotation` through the "
        "property setters of cobra.Object -, every other attribute as the constructor left it, no further attribute; records with the "
        "writer's keys, every optional entry present or absent: 32 resp. 4 paths); _reaction_from_dict is proved, for bounds given as "
        "floats or as strings, float or int coefficients and documents with the legacy keys, to never assign objective_coefficient / "
        "reversibility / reaction, to hand add_metabolites (exactly one call) the mapping model.metabolites.get_by_id(k) -> coefficient "
        "(DictList contract of C15; every key of the record's map is covered with its coefficient - ints kept, everything else "
        "through float() - and nothing else is in the mapping), to leave BOTH bounds as given - float(entry) - for EVERY valid pair "
        "(lb <= ub, lb < +inf, ub > -inf; also beyond the configured defaults) without raising: the loader assigns the pair at once, "
        "then each bound again, through the C01 setter contracts applied at the new reaction's identity - and to assign every other key; "
        "preconditions stated: the record's metabolites are in the model, a bound given as a string is one float() accepts, "
        "Configuration().upper_bound >= 0 (Reaction() starts from a valid pair). Round-trip lemmas (136, composed from the very "
        "post-conditions of writer and reader on synthetic states, one per shape of the object and per set of optional entries the "
        "writer can emit): a metabolite / gene / reaction record that satisfies the writer's post-condition for an object x is read "
        "back as an object with x's id, name, compartment, charge, formula, _bound resp. bounds (infinite and NaN bounds through the "
        "string: assumed float(str(x)) == x), gene-rule text and subsystem, an omitted optional attribute comes back as the "
        "constructor's default, which is the value it was omitted for, notes / annotation as dictionaries with the same keys and "
        "value objects; one deviation is stated, not hidden: a metabolite whose compartment is None is written as '' and comes back "
        "with compartment ''; and the writer's output for a reaction with valid bounds meets the reader's precondition on the bounds. "
        "Assumed (trusted list): the constructors Metabolite() / Gene(id) / Reaction() with the defaults of their __init__ chain, the "
        "gene_reaction_rule setter keeping the text it is given, add_metabolites as an abstract recorded call (what the reaction holds "
        "afterwards, the writer's stoichiometry loop and what set_objective does with the coefficients are NOT claimed "
        "deductively by THESE contracts). The model level (contracts/c11_model.py), for lists of ANY length: model_to_dict is proved "
        "to return a new record with the keys metabolites / reactions / genes / id, then objective_direction exactly when the "
        "model's current direction is 'min' (value 'min'; absent means 'max'), then the optional model attributes exactly as "
        "_update_optional's contract says; each list is a new list with one entry per member of the model's DictList - entry j is "
        "the record the (proved) writer function returns for member j, as a term; with sort=True a permutation of that (ghost "
        "bijection) ordered by the records' ids (list.sort's order: assumed). model_from_dict is proved to raise ValueError without "
        "'reactions' and otherwise to return a new Model after exactly the calls add_metabolites(L1), genes.extend(L2), "
        "add_reactions(L3), set_objective(model, D) [, objective_direction = d], setattr for the present keys of the table only, where "
        "Lk holds, in order, the object the (proved) reader function returns for every record, D maps exactly the reactions whose "
        "record has a present, NON-ZERO objective_coefficient (negative ones too) to that coefficient, and the direction ends up as "
        "the stored one when it is 'min' / 'max' and as 'max' otherwise; stated precondition: pairwise different reaction identifiers, "
        "finite coefficients; the readers' own preconditions are not discharged at this level. Glue lemmas: same list lengths and "
        "order through writer then reader, and a 'min' / 'max' direction comes back. "
        "The FRONT ENDS of the JSON / YAML formats (contracts/c11_frontends.py, recorded-call contracts over assumed codecs): to_json makes "
        "exactly the calls model_to_dict(model, sort=sort) - the caller's model and sort value - and json.dumps(d, allow_nan=False, "
        "**kwargs) on the very dictionary returned, extended by 'version' = '1' only, the caller's keywords passed through, and returns "
        "what dumps returned; from_json = model_from_dict(json.loads(document)); load_json_model (str / Path / handle): open(filename, 'r'), "
        "json.load(handle), model_from_dict, the file closed afterwards - a handle is read directly, never opened or closed; "
        "save_json_model (pretty x str / Path / handle x keywords): one model_to_dict call, 'version' added, json.dump(d, handle, "
        "**opts) where opts is the table for `pretty` (the two tables differ in indent / separators / sort_keys only, BOTH hold "
        "allow_nan=False) overridden by the caller's keywords and nothing else; to_yaml / from_yaml / save_yaml_model / load_yaml_model "
        "likewise over the module's CobraYAML instance ('version' = '1.2'; StringIO for strings); CobraYAML.dump creates a StringIO and "
        "returns its value exactly when no stream is given. allow_nan=False means an infinity or NaN left as a float would RAISE rather "
        "than produce a non-standard document: by the proved writer contracts a bound is a string exactly when it is not finite, and the "
        "writer's records consist of str, finite float, int, bool, lists and dictionaries with str keys (values of user notes / "
        "annotations are not constrained) - the kinds for which loads(dumps(x)) == x is assumed. The pickle protocol methods "
        "(__getstate__ / __setstate__ of Model, Object, Species, Reaction) are proved under C12 (contracts/c12_pickle.py). "
        "Pickle, the DictList part (contracts/c15_query.py; DictList.__reduce__ / __getstate__ proved under C15): lemmas "
        "dictlist-pickle-round-trip from the post-conditions of the proved DictList.__init__ / extend / append / __setstate__ - "
        "unpickling element copies that keep their identifiers gives a well-formed DictList with the same identifiers in the same "
        "order and the same index, and no step raises (assumed: pickle's reduce protocol for list items; an unpickled Object keeps "
        "its id). "
        "The codecs (json, ruamel.yaml, pickle), the dict assembly loops over heterogeneous values and the gene-rule "
        "text are outside the verifier's reach: bounded driver (snapshot equality incl. the solver problem, optimum and idempotence for "
        "every format/variant on generated models, non-default Configuration bounds)."),
        trusted=["json / ruamel.yaml / pickle codecs", "front ends: model_to_dict / model_from_dict as recorded calls (proved under their own keys), json.dumps / loads / dump / load, YAML.dump / load, open / io.open (context manager that does not swallow exceptions), StringIO as recorded abstract calls that modify no caller object; loads(dumps(x)) == x for str / finite float / int / bool / None / list / dict with str keys", "float(str(x)) == x (axiom of the round-trip lemmas, for +inf / -inf / NaN)",
                 "float(s) / str(x) as uninterpreted functions (pyvc/builtins.py)",
                 "list.sort(key=itemgetter('id')) orders by the uninterpreted string order str_le over record_id (contracts/c11_model.py)",
                 "object_id(read_<kind>(record)) == record_id(record): the reader contracts, used as an axiom at the model level",
                 "Model(), Model.add_metabolites / genes.extend / Model.add_reactions / set_objective / the objective_direction setter "
                 "as recorded calls with the assumed effects listed under C11:* (contracts/c11_model.py)"])


def replay(payload):
    fi = (payload.get("failing_input") or {}).get("replay") or {}
    if fi.get("kind") in ("reaction_from_dict", "metabolite_from_dict", "gene_from_dict"):
        try:
            f = _reader_trial(fi)
        except Exception as e:  # noqa
            f = f"raised {e!r}"
        return {"reproduced": f is not None, "observed": f}
    if fi.get("kind") == "reaction_to_dict":
        import json
        import cobra
        from cobra.io.dict import _reaction_to_dict
        r = cobra.Reaction("R1", lower_bound=0, upper_bound=0)
        r._lower_bound, r._upper_bound = float(fi["lb"]), float(fi["ub"])
        d = _reaction_to_dict(r)
        try:
            json.dumps(d, allow_nan=False)
            ok = all(isinstance(d[k], str) == (abs(float(fi[s])) == float("inf") or float(fi[s]) != float(fi[s]))
                     for k, s in (("lower_bound", "lb"), ("upper_bound", "ub")))
        except Exception:  # noqa
            ok = False
        return {"reproduced": not ok, "observed": {k: repr(d[k]) for k in ("lower_bound", "upper_bound")}}
    return replay_with_driver("C11", payload)
