"""C20 — Summaries report the fluxes of the solution they describe."""
from contracts import misc_small  # noqa
from contracts import c20_reaction_summary as RS
from props._generic import run_property, replay_with_driver

LEVEL = "other"
KEYS = ["Summary._normalize_threshold"]


def run(rep):
    run_property(rep, KEYS, more=[(["ReactionSummary._generate"], RS.HOOKS)], explanation=(
        "Deductive part is thin and stated as such: Summary._normalize_threshold (the display threshold every summary applies before "
        "rendering) is proved: None -> tolerance, below tolerance -> tolerance, otherwise the given value. ReactionSummary._generate is "
        "proved as data flow for every shape of its arguments: the flux shown is solution[<id of THIS reaction>] of the solution "
        "passed in (looked up by identifier) or, when none was passed, of exactly one pfba(model) call; a float fva triggers exactly "
        "one flux_variability_analysis(model, reaction_list=[this reaction], fraction_of_optimum=<that float>) whose result is what "
        "is joined to the flux table, a given frame is joined as it is, no fva joins nothing; the summary's tolerance is the "
        "model's (pandas operations uninterpreted; pfba / FVA abstract calls). The metabolite and model summaries mutate their "
        "frames in place (boolean masks, .loc assignment, *=), which the opaque algebra cannot model soundly: their flux tables are "
        "NOT proved and rest on pandas semantics: bounded driver (frames against the Solution passed in for every "
        "metabolite and reaction of generated models x solutions x fva settings; every summary renders to text, HTML and a frame)."),
        trusted=["pandas semantics", "string formatting"])


def replay(payload):
    return replay_with_driver("C20", payload)
