"""C20 — Summaries report the fluxes of the solution they describe."""
from contracts import misc_small  # noqa
from props._generic import run_property, replay_with_driver

LEVEL = "other"
KEYS = ["Summary._normalize_threshold"]


def run(rep):
    run_property(rep, KEYS, explanation=(
        "Deductive part is thin and stated as such: of the summary code only Summary._normalize_threshold (the display threshold every "
        "summary applies before rendering) is within reach - proved: None -> tolerance, below tolerance -> tolerance, otherwise the "
        "given value. The flux tables themselves are pandas-vectorised (boolean masks, .loc assignment, joins); their row-wise meaning "
        "rests on pandas semantics the verifier does not model: bounded driver (frames against the Solution passed in for every "
        "metabolite and reaction of generated models x solutions x fva settings; every summary renders to text, HTML and a frame)."),
        trusted=["pandas semantics", "string formatting"])


def replay(payload):
    return replay_with_driver("C20", payload)
