"""C20 — Summaries report the fluxes of the solution they describe."""
from contracts import misc_small  # noqa
from contracts import c20_reaction_summary as RS
from contracts import c20_frames as FS
from props._generic import run_property, replay_with_driver

LEVEL = "other"
KEYS = ["Summary._normalize_threshold"]


def run(rep):
    run_property(rep, KEYS, more=[(["ReactionSummary._generate"], RS.HOOKS),
                                       (["ModelSummary._generate", "MetaboliteSummary._generate"], FS.HOOKS),
                                       (["MetaboliteSummary.__init__"], FS.HOOKS_INIT)], explanation=(
        "Deductive part is thin and stated as such: Summary._normalize_threshold (the display threshold every summary applies before "
        "rendering) is proved: None -> tolerance, below tolerance -> tolerance, otherwise the given value. ReactionSummary._generate is "
        "proved as data flow for every shape of its arguments: the flux shown is solution[<id of THIS reaction>] of the solution "
        "passed in (looked up by identifier) or, when none was passed, of exactly one pfba(model) call; a float fva triggers exactly "
        "one flux_variability_analysis(model, reaction_list=[this reaction], fraction_of_optimum=<that float>) whose result is what "
        "is joined to the flux table, a given frame is joined as it is, no fva joins nothing; the summary's tolerance is the "
        "model's (pandas operations uninterpreted; pfba / FVA abstract calls). ModelSummary._generate and "
        "MetaboliteSummary._generate (contracts/c20_frames.py) are proved for every shape of (solution, fva) in two layers. Data flow: "
        "the in-place frame updates (frame[col] = v, frame[[cols]] = v, frame.loc[mask, cols] = v, op=) are executed as functional "
        "updates of the ONE local / attribute that holds the frame - sound because the frame was created in the function and no other "
        "name or possible view of it is bound at the write (checked by the setitem hook at every write; it refuses otherwise). Meaning: "
        "under the ASSUMED row-wise semantics of the pandas operations (contract pandas.rowwise: label alignment of labelled right-hand "
        "sides, positional for .values, boolean-mask selection, left join on unique labels, floats as reals without NaN) and the "
        "assumed copy contract (cobra.copy@summary), for an ARBITRARY boundary reaction of model.boundary (precondition: each has "
        "exactly one metabolite; finite tolerance) resp. an arbitrary element of the summary's reaction list: exactly one row, labelled "
        "by its identifier, rows = list length; factor = get_coefficient of the (single) metabolite resp. of the summarised metabolite; "
        "flux = solution[id] x factor, set to 0 when |.| < tolerance; with fva: minimum / maximum = the FVA range ends (zeroed below "
        "tolerance BEFORE scaling - documented finding: the flux is thresholded AFTER scaling, so for |factor| != 1 a shown flux can lie "
        "outside its shown range; the statement's form is proved under |factor| = 1 / threshold-commutes hypothesis) x factor, swapped "
        "when factor < 0; the row is listed under uptake / producing iff flux > 0 or (flux = 0 and factor > 0), under secretion / "
        "consuming iff flux < 0 or (flux = 0 and factor < 0), in exactly one of them when factor != 0, with the same cells; percent = "
        "|flux| / the (opaque) pandas sum of |flux| of that side; objective value = SIGMA over the copied coefficient dictionary of "
        "solution[copy.id] x coefficient (nan and a placeholder when linear_reaction_coefficients is empty); the solution is the one "
        "passed in, else exactly one pfba(model); a float fva triggers exactly one flux_variability_analysis(model=model, "
        "reaction_list=model.boundary resp. [the ids of exactly these reactions], fraction_of_optimum=that float). MetaboliteSummary.__init__ is proved to build self._reactions as "
        "the copies of the members of the frozenset metabolite.reactions, each member exactly once (length = cardinality, ghost "
        "enumeration of the set and the permutation of sorted), to copy the metabolite, and to call _generate once with (model, "
        "solution, fva) as given (Summary.__init__ assumed: three lines behind a zero-argument super()). NOT proved: that the "
        "percentages sum to one and that totals balance (opaque sums), NaN behaviour, rendering: bounded driver (frames against the "
        "Solution passed in for every metabolite and reaction of generated models x solutions x fva settings; every summary renders "
        "to text, HTML and a frame)."),
        trusted=["pandas semantics (row-wise meaning assumed: contract pandas.rowwise)", "string formatting",
                 "Reaction.copy / Metabolite.copy keep identifiers and coefficients (cobra.copy@summary)",
                 "frames created in _generate are not aliased by pandas internals (no view of a frame survives a write)",
                 "Summary.__init__ (assumed: sets _flux / _tolerance to None)"])


def replay(payload):
    return replay_with_driver("C20", payload)
