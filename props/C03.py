"""C03 — Leaving a `with model:` block restores the model completely."""
from contracts import c03_context as C
from contracts import c03_objective as O
from contracts import c02_remove_reactions_ctx as RRC
from contracts import c12_rxn_arith as ARITH
from contracts import c02_add_metabolites_ctx as AMC
from contracts import c02_remove_metabolites_ctx as RMC
from contracts import w_model_small as WMS
from contracts import c03_glue as GLUE
from contracts import c03_knockout_ctx as KOC
from contracts import c03_direction as DIR
from props._generic import run_property, replay_with_driver

LEVEL = "other"
KEYS = ["HistoryManager.__call__", "HistoryManager.reset", "HistoryManager.size", "get_context", "resettable.wrapper",
        "Model.__enter__", "Model.__exit__", "add_cons_vars_to_problem", "remove_cons_vars_from_problem",
        "remove_cons_vars_from_problem.restore_columns"]
# the objective: set_objective, its nested undo function, the two setters built on it (own hook table: ghost model of the objective)
OBJECTIVE_KEYS = ["set_objective", "set_objective.reset", "_valid_atoms", "Model.objective@setter", "Reaction.objective_coefficient@setter"]


def run(rep):
    run_property(rep, KEYS, hooks=C.ALL_HOOKS, more=[(OBJECTIVE_KEYS, O.HOOKS), (RRC.KEYS, RRC.HOOKS), (ARITH.KEYS, ARITH.HOOKS),
                                                      (AMC.KEYS, AMC.HOOKS), (RMC.KEYS, RMC.HOOKS),
                       (["Model.add_cons_vars", "Model.remove_cons_vars", "Model.objective_direction@setter"], WMS.HOOKS),
                       (KOC.KEYS, KOC.HOOKS), (DIR.KEYS, DIR.HOOKS)],
                 lemmas=lambda: (C.lemmas() + O.lemmas() + RRC.lemmas() + ARITH.lemmas() + AMC.lemmas() + RMC.lemmas() + GLUE.lemmas()
                                 + KOC.lemmas() + DIR.lemmas()), explanation=(
        "GLUE from the per-operation contracts to the property (contracts/c03_glue.py; closed SMT obligations over the SAME spec function run / eff / World the proved contracts of HistoryManager.reset and Model.__exit__ use; the solvers do no induction, so every inductive lemma is a base and a step obligation with the induction hypothesis - generalised over the start state - as a hypothesis; every lemma has a vacuity guard and a guard that it is NOT provable with a hypothesis dropped): "
        "(1) prefix lemma (run(h, n, .) depends on h[0..n) only) and segment lemma run(h1 + h2, s) = run(h1, run(h2, s)) by induction on the length; the CONTEXT INVARIANT CI(h, n, s, s_entry) := run(h, n, s) = s_entry for the innermost manager: CI/base from the very post-condition of Model.__enter__ (new manager of length 0, world untouched), CI/step: if CI holds, an operation takes s to s' and appends u_1..u_k to the innermost history, and replaying u_k..u_1 from s' gives s - which IS the operation's undo-restores lemma (remove_reactions, __imul__, add_metabolites, set_objective, removed variable, the resettable setters below) - then CI holds for the longer history and s' (k = 0: nothing registered, nothing changed), the same step MODULO observational equality (the operation lemmas give equal VIEWS, not equal worlds: with obs := all views agree, an equivalence, and the ASSUMED congruence `an undo entry run in obs-equal worlds leaves obs-equal worlds` replay respects obs - run/congruence by induction - and CI/step holds with obs in place of ==); run/unfold:k=1,2 (the state-by-state undo-restores lemmas of __imul__, add_metabolites, set_objective and the removed variable ARE statements about run); CI/exit from the very post-condition of Model.__exit__: the world after the exit is s_entry and the stack is one shorter, CI/nested-block: a complete inner with-block is a null step of the OUTER invariant (hypotheses: registrations go to the innermost manager - proved per operation -, and the manager __enter__ allocates is not on the stack - allocation, assumed). "
        "(2) a history segment each of whose entries leaves a point-indexed view alone or writes ONE cell with a constant (two writes to one cell carrying the same constant) has the order-independent closed form `a written cell holds the written constant, a changed cell was written` for the LIFO replay run - induction over the segment length for the view shapes Ref -> Ref / Bool / Real and Ref -> Ref -> Bool / Real - and the hypothesis `_replayed` of the remove_reactions undo-restores lemmas (its eleven clauses, built by that module's own function) follows from it for run(U, n, exit world). "
        "(3) exceptional exit: a `resettable` setter registers partial(setter, self, OLD) BEFORE it runs (proved, also for the raising path), so the step must hold for every state the setter can leave behind: overwriting-setter lemma (the setter overwrites a fixed set of cells with values depending only on its argument and on other cells; the state differs from the one before at most on these cells - complete, PARTIAL or no change; entry invariant) => setter(old) restores exactly; instances for lower_bound / upper_bound / bounds over (lb, ub, the four variable bounds) with the cells the setter writes ARBITRARY afterwards and the three-branch map of update_variable_bounds (shown to be c01_lp's proved clause formula for formula): the undo's own _check_bounds passes and all six cells are restored; Gene.functional and objective_direction (raise before writing, or write). Natively 26 raising / odd setter calls inside a context (NaN bounds rejected by optlang after the assignment, strings, None, wrong arity, non-bool functional, bad direction, malformed rule): all restored on exit, no exit raised - no finding. "
        "(4) KNOCK-OUTS IN A CONTEXT (contracts/c03_knockout_ctx.py, second contracts Reaction.knock_out[context] and Gene.knock_out[context] for the real sources): the two functions register nothing themselves, only the resettable wrappers of `bounds` and `functional` do; an assignment `x.bounds = v` / `g.functional = v` is given the meaning wrapper-then-body: resettable.wrapper by its proved generic contract instantiated for the attribute (ASSUMED transcription: no context -> body; unchanged value -> nothing; otherwise partial(setter, x, OLD) pushed to the innermost context BEFORE the body), the body by its own proved contract; the context stack through the ghost views ctx_depth / ctx_top of model._contexts. PROVED: Reaction.knock_out registers nothing when the bounds are (0, 0) already (and then does NOT update the variable bounds: the C01 invariant at entry is a stated precondition) and otherwise exactly one bounds undo with the ENTRY pair in the innermost context; Gene.knock_out (loop invariant, any number of reactions) registers the functional undo (old value True) as entry 0 exactly when the gene was functional, then ONE bounds undo with the entry pair for every reaction of the gene whose rule is false and whose entry bounds are not (0, 0), nothing else, nothing twice (witness map), everything in the innermost context - next to everything the no-context contracts prove. Lemmas knock_out/undo-restores:{gene,reaction}-contract:{functional,lower_bound,upper_bound}: from these very post-conditions and the closed form of the LIFO replay (consistency derived from the witness map) functional, lb and ub of EVERY object are the entry ones after the replay; the variable bounds per reaction by resettable/bounds:bounds. Preconditions stated: the receiver is in a model with a context open, the gene's reactions point at the gene's model. knock_out_model_genes in a context: no contract of its own (one Gene.knock_out per gene plus reads: lemma undo-restores/sequence composes the per-gene lemmas). The setter BODIES when they raise (Reaction.lower_bound / upper_bound / bounds@setter[raise]: lb > ub; Gene.functional@setter[raise]: int, None, str, float): ValueError with NOTHING changed, so the undo registered before the call is a no-op. Model.objective_direction setter body (contracts/c03_direction.py, over the assumed objective model of c03_objective; str.lower / str.startswith uninterpreted): lower(value) starting with max / min writes exactly the literal max / min into the installed objective's direction (same objective object, same expression, one solver call), anything else raises ValueError with NOTHING changed; lemma: the undo setter(OLD direction) never raises and leaves the old direction (assumed ground facts about the two literals). "
        "STAYS ASSUMED: Python's with-protocol (__exit__ is called exactly once on every way out of the block, normal or by an exception), the induction principle over the naturals, non-reentrancy (an undo entry returns and does not touch the history being reset), that the effect of an undo entry depends only on the point-indexed views the operation contracts use (the congruence hypothesis), and that every OTHER context-aware operation has an undo-restores lemma (bounded driver). "
        "The entry points the other contracts only RECORD are proved to forward faithfully: Model.add_cons_vars(what, **kwargs) makes exactly one call add_cons_vars_to_problem(self, what, **kwargs) (same model, same object, keywords as given), Model.remove_cons_vars(what) exactly one call remove_cons_vars_from_problem(self, what) - the two functions whose solver call and undo registration are proved below. The function under @resettable of the Model.objective_direction setter is proved: value.lower() starting with max / min sets the solver objective's direction to 'max' / 'min' (the documented spellings max, min, maximize, minimize by name), anything else raises ValueError with nothing changed (the decorator, proved as resettable.wrapper, registers the undo before the body validates: an invalid value inside a context leaves a harmless undo entry). "
        "Context-aware model edits under contract with their undo registrations: Model.remove_reactions with a context open (remove_orphans=False; lists and models of any size): every change it makes to model pointers, model.reactions, back references and group members has its inverse registered in the INNERMOST context, nothing is registered for a change that was not made and nothing twice (ghost trace; per reaction [objective coefficients,] _populate_solver([r]), setattr(r, _model, model), reactions.add(r), x._reaction.add(r) per former referrer, g.add_members([r]) per former group), with the glue lemmas undo-restores (replaying the registered undos on the exit state gives back the entry views); Reaction.__imul__ in a context: exactly the two registrations _populate_solver([self]) and __imul__(1/c), lemma undo-restores (precondition c != 0). "
        "Model.add_metabolites / Model.remove_metabolites with a context open (lists of any size; remove: list or one metabolite, keeping the reactions or destructive): the final state as without a context, and every change they make themselves to model pointers, model.metabolites, back references (add) and group members (remove) has exactly its inverse registered in the INNERMOST context, nothing for a change that was not made, nothing twice (ghost trace; add: x._reaction.update(exactly the set taken out) per metabolite that lost back-references, metabolites.__isub__(joining), setattr(x, _model, None) per joining metabolite, nothing on the early exits; remove: g.add_members([x]) per former (metabolite, group) membership, metabolites.__iadd__(handled), setattr(x, _model, model) per handled metabolite; constraints through the recorded add_cons_vars / remove_cons_vars call whose own registration is proved below; subtract_metabolites called with the default reversibly, remove_from_model = remove_reactions), the captured lists are read in the exit state (not mutated after registration), glue lemmas undo-restores; two defects visible in these contracts are reported (the registered inverse of `x._model = self` is None, not the old value: a metabolite taken from another model loses its model pointer; a raising DictList.__iadd__ / __isub__ leaves model pointers changed with no inverse registered). "
        "Deductive (kernel): HistoryManager.reset is proved to replay the recorded undo actions last-in-first-out and to empty the "
        "history (loop invariant over the recursive spec function run, with a decreasing variant), __call__ to append, get_context "
        "to return the innermost context of the object's model or None for every object shape, and the resettable wrapper to "
        "register partial(setter, self, OLD value) in the innermost context BEFORE calling the setter, to register nothing when the "
        "value is unchanged or no context is open, also when the setter raises; Model.__enter__ to push a new empty context and "
        "Model.__exit__ to pop the innermost one and replay exactly its history - with the obligation that the model's context stack is "
        "EMPTY while the undo functions run, so that a context-aware undo function cannot re-record itself in an enclosing context "
        "(this obligation has a counter-model `stack length 2` on the original code: the nested-context defect, repaired in /repo); "
        "add_cons_vars_to_problem / remove_cons_vars_from_problem to perform the solver call and to register exactly the inverse "
        "call in the innermost context, and nothing without a context (`what` ONE object). Removed VARIABLES (`what` one optlang "
        "Variable of the model's solver, in a context), over a ghost model of the solver - coefficient matrix A[constraint][variable] "
        "read by Constraint.get_linear_coefficients and written by set_linear_coefficients, constraint names, the Container keyed by "
        "name, all ASSUMED contracts of optlang: remove_cons_vars_from_problem is proved (loop invariant over solver.constraints) to "
        "record exactly the column { name of c -> A[c][v] | c a constraint of the solver at entry, A[c][v] != 0 }, to register the "
        "closure restore_columns capturing [(v, column)] in the innermost context BEFORE the removal exactly when that column is "
        "non-empty, then to call solver.remove(v), then to register partial(solver.add, v) in the same context, and to write no "
        "coefficient itself; a Variable of another solver is treated like any other object. The nested function restore_columns is "
        "verified on its own with its free variables (model, columns) as closure parameters, for 0, 1 and 2 recorded columns of "
        "different variables (loop invariant over the ghost enumeration of column.items()): for every recorded variable and every "
        "recorded name for which the CURRENT solver has a constraint, that coefficient is set to the recorded value; no other cell of "
        "the matrix changes; columns and container are only read; the only other solver call is update(). Glue lemma (two closed "
        "formulas over these two postconditions): if the variable added again by the first undo has coefficient 0 in every constraint "
        "(assumed optlang behaviour - the reason for the repair) then after the second undo every constraint that existed at the "
        "removal and still exists has its entry-time coefficient for v again, and no other variable's coefficient is touched; with an "
        "empty column nothing needs restoring. Preconditions stated, not proved: constraint names are pairwise different within a "
        "solver; the recorded variables are different. NOT covered deductively: lists / tuples / sets of several objects in `what` (the "
        "engine keeps lists of (object, dict) tuples only with a concrete length), more than two recorded columns, and what "
        "solver.add / solver.remove themselves do to the matrix (trace events here): bounded driver. "
        "OBJECTIVE AND DIRECTION (util.solver.set_objective, its nested undo function reset, its helper _valid_atoms, "
        "Model.objective setter, Reaction.objective_coefficient setter), over a ghost model of the optlang objective - an Objective object has an opaque "
        "immutable `expression` and a `direction`, `solver.objective = X` installs that very object, lin(expression) is its "
        "coefficient map (the ghost objc of C05), all ASSUMED contracts of optlang: set_objective is proved, for a dictionary "
        "{reaction: coefficient} (ints or finite floats, any number of entries, loop invariant over the ghost enumeration of "
        "value.items()) on a linear objective, when not additive to install a NEW zero objective with the CURRENT direction and "
        "then to give every listed reaction +coefficient on its forward and -coefficient on its reverse variable and 0 everywhere "
        "else, when additive to overwrite exactly those coefficients of the installed objective in place and to leave every other "
        "coefficient and the direction untouched; on a non-linear objective to raise ValueError with nothing changed; for an optlang "
        "Objective to install that very objective (a clone into the model's solver - opaque - when it uses foreign variables, "
        "direction kept; the helper _valid_atoms is proved to return `every optlang Variable occurring in the expression belongs "
        "to the model's solver` over the assumed views expression.atoms(Variable) and variable.problem), for a sympy expression a new objective with that expression and the CURRENT direction, additively the "
        "installed objective gets add(old expression, that expression) in place and keeps its direction; for any other type (int, "
        "str, None) to raise TypeError with nothing changed. Context: without a context nothing is registered; in a context "
        "EXACTLY ONE undo is registered, in the innermost context, AFTER the change (the solver objective recorded at the moment of "
        "registration is the final one), and it is the closure reset whose captured reverse_value is an objective OF ITS OWN "
        "(neither the one installed at entry nor the one installed at exit) holding the expression and the direction in force at "
        "entry. The nested reset is verified on its own with (model, reverse_value) as closure parameters: it installs the recorded "
        "objective and then sets its direction to the recorded direction - exactly these two solver calls - and registers nothing. "
        "Glue lemma (from the very post-conditions, on synthetic states change -> anything -> reset, the captured objective being "
        "referenced by the closure only): afterwards the solver objective has the entry expression, hence the entry coefficient "
        "map, and the entry direction. Model.objective setter: the call set_objective(self, X, additive=False) is recorded, and X "
        "is proved to be: for a sympy expression a new objective with that expression and the CURRENT direction (it used to be "
        "reset to max: repaired in /repo), an Objective or a dictionary as given, {reaction: 1} for a reaction / identifier / "
        "index resolved through reactions.get_by_any (assumed for one item), ValueError for an unknown identifier (IndexError / "
        "TypeError from get_by_any propagate), no call then. Reaction.objective_coefficient setter: exactly the call "
        "set_objective(self.model, {self: value}, additive=True) for a reaction in a model, AttributeError and no call for a "
        "detached one. Preconditions stated, not proved: every listed reaction is in a model, different reactions have different "
        "solver variables and no forward variable is a reverse variable, coefficients are finite. Assumed, not verified: "
        "optlang's behaviour as modelled, what add() / clone do to an expression "
        "(uninterpreted), lists of reactions as Model.objective value. That each OTHER context-aware "
        "operation registers a "
        "correct undo, and that undos compose over whole histories and nestings, is NOT proved: bounded driver (full observable "
        "state incl. the raw GLPK problem snapshotted at __enter__ and compared after __exit__ over operation sequences, nestings, "
        "exits by exception and naturally raising operations)."),
        trusted=["non-reentrancy: an undo entry does not touch the history being reset (stated in the reset contract)",
                 "glue (contracts/c03_glue.py): Python's `with` protocol calls Model.__exit__ exactly once on every exit of the block; induction over the naturals (base + step obligations are discharged, the principle is meta-level); the manager allocated by __enter__ is not already on the stack; congruence of undo entries w.r.t. equality of the point-indexed views; gene_reaction_rule / gpr setters only through the abstract overwriting-setter lemma",
                 "optlang (assumed contracts, ghost matrix A): Constraint.get_linear_coefficients([v]) reads A[c][v]; "
                 "Constraint.set_linear_coefficients({v: x}) writes exactly A[c][v] := x; Container: `name in`, `[name]` by pairwise "
                 "different constraint names; Model.update() writes no coefficient; `variable.problem is solver` decides membership; "
                 "glue lemma only: a variable that is added again has coefficient 0 in every constraint",
                 "optlang objective (assumed, ghost model in contracts/c03_objective.py): an Objective has an immutable opaque "
                 "expression and a direction; `solver.objective = X` installs the object X itself; interface.Objective(e, direction=d) "
                 "builds a new objective with exactly these; Objective.set_linear_coefficients overwrites exactly the given "
                 "coefficients of lin(expression) and keeps linearity; `objective += e` gives add(expression, e) in place; "
                 "Objective.clone keeps the direction; Zero has no coefficient; objective.is_Linear reads is_lin(expression)",
                 "assumed in the objective contracts: sympy expression.atoms(Variable) / optlang variable.problem as ghost views, "
                 "DictList.get_by_any for one int / str / member item, Reaction.forward_variable / reverse_variable (C01), "
                 "injectivity of reaction -> (forward, reverse) variable (precondition)"])


def replay(payload):
    return replay_with_driver("C03", payload)
