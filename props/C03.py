"""C03 — Leaving a `with model:` block restores the model completely."""
from contracts import c03_context as C
from props._generic import run_property, replay_with_driver

LEVEL = "other"
KEYS = ["HistoryManager.__call__", "HistoryManager.reset", "HistoryManager.size", "get_context", "resettable.wrapper",
        "Model.__enter__", "Model.__exit__", "add_cons_vars_to_problem", "remove_cons_vars_from_problem"]


def run(rep):
    run_property(rep, KEYS, hooks=C.ALL_HOOKS, explanation=(
        "Deductive (kernel): HistoryManager.reset is proved to replay the recorded undo actions last-in-first-out and to empty the "
        "history (loop invariant over the recursive spec function run, with a decreasing variant), __call__ to append, get_context "
        "to return the innermost context of the object's model or None for every object shape, and the resettable wrapper to "
        "register partial(setter, self, OLD value) in the innermost context BEFORE calling the setter, to register nothing when the "
        "value is unchanged or no context is open, also when the setter raises; Model.__enter__ to push a new empty context and "
        "Model.__exit__ to pop the innermost one and replay exactly its history - with the obligation that the model's context stack is "
        "EMPTY while the undo functions run, so that a context-aware undo function cannot re-record itself in an enclosing context "
        "(this obligation has a counter-model `stack length 2` on the original code: the nested-context defect, repaired in /repo); "
        "add_cons_vars_to_problem / remove_cons_vars_from_problem to perform the solver call and to register exactly the inverse "
        "call in the innermost context (for one non-variable object; the column bookkeeping for removed variables is bounded only). That each context-aware operation registers a "
        "correct undo, and that undos compose over whole histories and nestings, is NOT proved: bounded driver (full observable "
        "state incl. the raw GLPK problem snapshotted at __enter__ and compared after __exit__ over operation sequences, nestings, "
        "exits by exception and naturally raising operations)."),
        trusted=["non-reentrancy: an undo entry does not touch the history being reset (stated in the reset contract)"])


def replay(payload):
    return replay_with_driver("C03", payload)
