"""C03 — Leaving a `with model:` block restores the model completely."""
from contracts import c03_context as C
from props._generic import run_property, replay_with_driver

LEVEL = "other"
KEYS = ["HistoryManager.__call__", "HistoryManager.reset", "HistoryManager.size", "get_context", "resettable.wrapper"]


def run(rep):
    run_property(rep, KEYS, hooks=C.HOOKS, explanation=(
        "Deductive (kernel): HistoryManager.reset is proved to replay the recorded undo actions last-in-first-out and to empty the "
        "history (loop invariant over the recursive spec function run, with a decreasing variant), __call__ to append, get_context "
        "to return the innermost context of the object's model or None for every object shape, and the resettable wrapper to "
        "register partial(setter, self, OLD value) in the innermost context BEFORE calling the setter, to register nothing when the "
        "value is unchanged or no context is open, also when the setter raises. That each context-aware operation registers a "
        "correct undo, and that undos compose over whole histories and nestings, is NOT proved: bounded driver (full observable "
        "state incl. the raw GLPK problem snapshotted at __enter__ and compared after __exit__ over operation sequences, nestings, "
        "exits by exception and naturally raising operations)."),
        trusted=["non-reentrancy: an undo entry does not touch the history being reset (stated in the reset contract)"])


def replay(payload):
    return replay_with_driver("C03", payload)
