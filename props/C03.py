"""C03 — Leaving a `with model:` block restores the model completely."""
from contracts import c03_context as C
from contracts import c03_objective as O
from contracts import c02_remove_reactions_ctx as RRC
from contracts import c02_add_reactions_ctx as ARC
from contracts import c12_rxn_arith as ARITH
from props._generic import run_property, replay_with_driver

LEVEL = "other"
KEYS = ["HistoryManager.__call__", "HistoryManager.reset", "HistoryManager.size", "get_context", "resettable.wrapper",
        "Model.__enter__", "Model.__exit__", "add_cons_vars_to_problem", "remove_cons_vars_from_problem",
        "remove_cons_vars_from_problem.restore_columns"]
# the objective: set_objective, its nested undo function, the two setters built on it (own hook table: ghost model of the objective)
OBJECTIVE_KEYS = ["set_objective", "set_objective.reset", "_valid_atoms", "Model.objective@setter", "Reaction.objective_coefficient@setter"]


def run(rep):
    run_property(rep, KEYS, hooks=C.ALL_HOOKS, more=[(OBJECTIVE_KEYS, O.HOOKS), (RRC.KEYS, RRC.HOOKS), (ARC.KEYS, ARC.HOOKS), (ARITH.KEYS, ARITH.HOOKS)],
                 lemmas=lambda: C.lemmas() + O.lemmas() + RRC.lemmas() + ARC.lemmas() + ARITH.lemmas(), explanation=(
        "Model.add_reactions with a context open (key Model.add_reactions[context]; lists, models and stoichiometries of any size, any depth of the context stack): the final state exactly as the no-context contract proves it (same formulas) PLUS the undo registrations as a ghost trace, all in the INNERMOST context, nothing twice: per added reaction r a block setattr(r, _model, None), then for every key x of r._metabolites at exit x._reaction.remove(r) - registered only where the x._reaction.add(r) it inverts changed the set - or the recorded call add_metabolites(x) (x joined; the callee's own registrations, ASSUMED: in a context it changes the state as its no-context contract says), then the recorded call r.update_genes_from_gpr() (its proved in-context case), blocks in the order of pruned, and last reactions.__isub__(pruned) registered after `reactions += pruned`; glue lemmas undo-restores (membership of model.reactions, _model of reactions, _reaction sets of the entry members of model.metabolites); stated precondition own-keys-do-not-list (a key of a to-be-added reaction that is a member of model.metabolites does not list it at entry: otherwise the unguarded else-branch registers a remove for a no-op add - not reachable through the public API at the repaired commit); the re-pointing of the stoichiometry keys has no inverse and needs none (the reaction is outside the model at entry and exit). "
        "Context-aware model edits under contract with their undo registrations: Model.remove_reactions with a context open (remove_orphans=False; lists and models of any size): every change it makes to model pointers, model.reactions, back references and group members has its inverse registered in the INNERMOST context, nothing is registered for a change that was not made and nothing twice (ghost trace; per reaction [objective coefficients,] _populate_solver([r]), setattr(r, _model, model), reactions.add(r), x._reaction.add(r) per former referrer, g.add_members([r]) per former group), with the glue lemmas undo-restores (replaying the registered undos on the exit state gives back the entry views); Reaction.__imul__ in a context: exactly the two registrations _populate_solver([self]) and __imul__(1/c), lemma undo-restores (precondition c != 0). "
        "Deductive (kernel): HistoryManager.reset is proved to replay the recorded undo actions last-in-first-out and to empty the "
        "history (loop invariant over the recursive spec function run, with a decreasing variant), __call__ to append, get_context "
        "to return the innermost context of the object's model or None for every object shape, and the resettable wrapper to "
        "register partial(setter, self, OLD value) in the innermost context BEFORE calling the setter, to register nothing when the "
        "value is unchanged or no context is open, also when the setter raises; Model.__enter__ to push a new empty context and "
        "Model.__exit__ to pop the innermost one and replay exactly its history - with the obligation that the model's context stack is "
        "EMPTY while the undo functions run, so that a context-aware undo function cannot re-record itself in an enclosing context "
        "(this obligation has a counter-model `stack length 2` on the original code: the nested-context defect, repaired in /repo); "
        "add_cons_vars_to_problem / remove_cons_vars_from_problem to perform the solver call and to register exactly the inverse "
        "call in the innermost context, and nothing without a context (`what` ONE object). Removed VARIABLES (`what` one optlang "
        "Variable of the model's solver, in a context), over a ghost model of the solver - coefficient matrix A[constraint][variable] "
        "read by Constraint.get_linear_coefficients and written by set_linear_coefficients, constraint names, the Container keyed by "
        "name, all ASSUMED contracts of optlang: remove_cons_vars_from_problem is proved (loop invariant over solver.constraints) to "
        "record exactly the column { name of c -> A[c][v] | c a constraint of the solver at entry, A[c][v] != 0 }, to register the "
        "closure restore_columns capturing [(v, column)] in the innermost context BEFORE the removal exactly when that column is "
        "non-empty, then to call solver.remove(v), then to register partial(solver.add, v) in the same context, and to write no "
        "coefficient itself; a Variable of another solver is treated like any other object. The nested function restore_columns is "
        "verified on its own with its free variables (model, columns) as closure parameters, for 0, 1 and 2 recorded columns of "
        "different variables (loop invariant over the ghost enumeration of column.items()): for every recorded variable and every "
        "recorded name for which the CURRENT solver has a constraint, that coefficient is set to the recorded value; no other cell of "
        "the matrix changes; columns and container are only read; the only other solver call is update(). Glue lemma (two closed "
        "formulas over these two postconditions): if the variable added again by the first undo has coefficient 0 in every constraint "
        "(assumed optlang behaviour - the reason for the repair) then after the second undo every constraint that existed at the "
        "removal and still exists has its entry-time coefficient for v again, and no other variable's coefficient is touched; with an "
        "empty column nothing needs restoring. Preconditions stated, not proved: constraint names are pairwise different within a "
        "solver; the recorded variables are different. NOT covered deductively: lists / tuples / sets of several objects in `what` (the "
        "engine keeps lists of (object, dict) tuples only with a concrete length), more than two recorded columns, and what "
        "solver.add / solver.remove themselves do to the matrix (trace events here): bounded driver. "
        "OBJECTIVE AND DIRECTION (util.solver.set_objective, its nested undo function reset, its helper _valid_atoms, "
        "Model.objective setter, Reaction.objective_coefficient setter), over a ghost model of the optlang objective - an Objective object has an opaque "
        "immutable `expression` and a `direction`, `solver.objective = X` installs that very object, lin(expression) is its "
        "coefficient map (the ghost objc of C05), all ASSUMED contracts of optlang: set_objective is proved, for a dictionary "
        "{reaction: coefficient} (ints or finite floats, any number of entries, loop invariant over the ghost enumeration of "
        "value.items()) on a linear objective, when not additive to install a NEW zero objective with the CURRENT direction and "
        "then to give every listed reaction +coefficient on its forward and -coefficient on its reverse variable and 0 everywhere "
        "else, when additive to overwrite exactly those coefficients of the installed objective in place and to leave every other "
        "coefficient and the direction untouched; on a non-linear objective to raise ValueError with nothing changed; for an optlang "
        "Objective to install that very objective (a clone into the model's solver - opaque - when it uses foreign variables, "
        "direction kept; the helper _valid_atoms is proved to return `every optlang Variable occurring in the expression belongs "
        "to the model's solver` over the assumed views expression.atoms(Variable) and variable.problem), for a sympy expression a new objective with that expression and the CURRENT direction, additively the "
        "installed objective gets add(old expression, that expression) in place and keeps its direction; for any other type (int, "
        "str, None) to raise TypeError with nothing changed. Context: without a context nothing is registered; in a context "
        "EXACTLY ONE undo is registered, in the innermost context, AFTER the change (the solver objective recorded at the moment of "
        "registration is the final one), and it is the closure reset whose captured reverse_value is an objective OF ITS OWN "
        "(neither the one installed at entry nor the one installed at exit) holding the expression and the direction in force at "
        "entry. The nested reset is verified on its own with (model, reverse_value) as closure parameters: it installs the recorded "
        "objective and then sets its direction to the recorded direction - exactly these two solver calls - and registers nothing. "
        "Glue lemma (from the very post-conditions, on synthetic states change -> anything -> reset, the captured objective being "
        "referenced by the closure only): afterwards the solver objective has the entry expression, hence the entry coefficient "
        "map, and the entry direction. Model.objective setter: the call set_objective(self, X, additive=False) is recorded, and X "
        "is proved to be: for a sympy expression a new objective with that expression and the CURRENT direction (it used to be "
        "reset to max: repaired in /repo), an Objective or a dictionary as given, {reaction: 1} for a reaction / identifier / "
        "index resolved through reactions.get_by_any (assumed for one item), ValueError for an unknown identifier (IndexError / "
        "TypeError from get_by_any propagate), no call then. Reaction.objective_coefficient setter: exactly the call "
        "set_objective(self.model, {self: value}, additive=True) for a reaction in a model, AttributeError and no call for a "
        "detached one. Preconditions stated, not proved: every listed reaction is in a model, different reactions have different "
        "solver variables and no forward variable is a reverse variable, coefficients are finite. Assumed, not verified: "
        "optlang's behaviour as modelled, what add() / clone do to an expression "
        "(uninterpreted), lists of reactions as Model.objective value. That each OTHER context-aware "
        "operation registers a "
        "correct undo, and that undos compose over whole histories and nestings, is NOT proved: bounded driver (full observable "
        "state incl. the raw GLPK problem snapshotted at __enter__ and compared after __exit__ over operation sequences, nestings, "
        "exits by exception and naturally raising operations)."),
        trusted=["Model.add_reactions[context]: at the call site self.add_metabolites(metabolite) with a context open the callee is ASSUMED to change model.metabolites / _model / _reaction as its no-context contract (proved without a context only) says - its precondition without `no context open` is obliged - and to register its own undos (recorded call, not looked at); the callees' own undos are ASSUMED (glue lemmas only) to touch _model / _reaction of joined metabolites and genes only; stated precondition own-keys-do-not-list",
                 "non-reentrancy: an undo entry does not touch the history being reset (stated in the reset contract)",
                 "optlang (assumed contracts, ghost matrix A): Constraint.get_linear_coefficients([v]) reads A[c][v]; "
                 "Constraint.set_linear_coefficients({v: x}) writes exactly A[c][v] := x; Container: `name in`, `[name]` by pairwise "
                 "different constraint names; Model.update() writes no coefficient; `variable.problem is solver` decides membership; "
                 "glue lemma only: a variable that is added again has coefficient 0 in every constraint",
                 "optlang objective (assumed, ghost model in contracts/c03_objective.py): an Objective has an immutable opaque "
                 "expression and a direction; `solver.objective = X` installs the object X itself; interface.Objective(e, direction=d) "
                 "builds a new objective with exactly these; Objective.set_linear_coefficients overwrites exactly the given "
                 "coefficients of lin(expression) and keeps linearity; `objective += e` gives add(expression, e) in place; "
                 "Objective.clone keeps the direction; Zero has no coefficient; objective.is_Linear reads is_lin(expression)",
                 "assumed in the objective contracts: sympy expression.atoms(Variable) / optlang variable.problem as ghost views, "
                 "DictList.get_by_any for one int / str / member item, Reaction.forward_variable / reverse_variable (C01), "
                 "injectivity of reaction -> (forward, reverse) variable (precondition)"])


def replay(payload):
    return replay_with_driver("C03", payload)
