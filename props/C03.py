"""C03 — Leaving a `with model:` block restores the model completely."""
from contracts import c03_context as C
from props._generic import run_property, replay_with_driver

LEVEL = "other"
KEYS = ["HistoryManager.__call__", "HistoryManager.reset", "HistoryManager.size", "get_context", "resettable.wrapper",
        "Model.__enter__", "Model.__exit__", "add_cons_vars_to_problem", "remove_cons_vars_from_problem",
        "remove_cons_vars_from_problem.restore_columns"]


def run(rep):
    run_property(rep, KEYS, hooks=C.ALL_HOOKS, lemmas=C.lemmas, explanation=(
        "Deductive (kernel): HistoryManager.reset is proved to replay the recorded undo actions last-in-first-out and to empty the "
        "history (loop invariant over the recursive spec function run, with a decreasing variant), __call__ to append, get_context "
        "to return the innermost context of the object's model or None for every object shape, and the resettable wrapper to "
        "register partial(setter, self, OLD value) in the innermost context BEFORE calling the setter, to register nothing when the "
        "value is unchanged or no context is open, also when the setter raises; Model.__enter__ to push a new empty context and "
        "Model.__exit__ to pop the innermost one and replay exactly its history - with the obligation that the model's context stack is "
        "EMPTY while the undo functions run, so that a context-aware undo function cannot re-record itself in an enclosing context "
        "(this obligation has a counter-model `stack length 2` on the original code: the nested-context defect, repaired in /repo); "
        "add_cons_vars_to_problem / remove_cons_vars_from_problem to perform the solver call and to register exactly the inverse "
        "call in the innermost context, and nothing without a context (`what` ONE object). Removed VARIABLES (`what` one optlang "
        "Variable of the model's solver, in a context), over a ghost model of the solver - coefficient matrix A[constraint][variable] "
        "read by Constraint.get_linear_coefficients and written by set_linear_coefficients, constraint names, the Container keyed by "
        "name, all ASSUMED contracts of optlang: remove_cons_vars_from_problem is proved (loop invariant over solver.constraints) to "
        "record exactly the column { name of c -> A[c][v] | c a constraint of the solver at entry, A[c][v] != 0 }, to register the "
        "closure restore_columns capturing [(v, column)] in the innermost context BEFORE the removal exactly when that column is "
        "non-empty, then to call solver.remove(v), then to register partial(solver.add, v) in the same context, and to write no "
        "coefficient itself; a Variable of another solver is treated like any other object. The nested function restore_columns is "
        "verified on its own with its free variables (model, columns) as closure parameters, for 0, 1 and 2 recorded columns of "
        "different variables (loop invariant over the ghost enumeration of column.items()): for every recorded variable and every "
        "recorded name for which the CURRENT solver has a constraint, that coefficient is set to the recorded value; no other cell of "
        "the matrix changes; columns and container are only read; the only other solver call is update(). Glue lemma (two closed "
        "formulas over these two postconditions): if the variable added again by the first undo has coefficient 0 in every constraint "
        "(assumed optlang behaviour - the reason for the repair) then after the second undo every constraint that existed at the "
        "removal and still exists has its entry-time coefficient for v again, and no other variable's coefficient is touched; with an "
        "empty column nothing needs restoring. Preconditions stated, not proved: constraint names are pairwise different within a "
        "solver; the recorded variables are different. NOT covered deductively: lists / tuples / sets of several objects in `what` (the "
        "engine keeps lists of (object, dict) tuples only with a concrete length), more than two recorded columns, and what "
        "solver.add / solver.remove themselves do to the matrix (trace events here): bounded driver. That each OTHER context-aware "
        "operation registers a "
        "correct undo, and that undos compose over whole histories and nestings, is NOT proved: bounded driver (full observable "
        "state incl. the raw GLPK problem snapshotted at __enter__ and compared after __exit__ over operation sequences, nestings, "
        "exits by exception and naturally raising operations)."),
        trusted=["non-reentrancy: an undo entry does not touch the history being reset (stated in the reset contract)",
                 "optlang (assumed contracts, ghost matrix A): Constraint.get_linear_coefficients([v]) reads A[c][v]; "
                 "Constraint.set_linear_coefficients({v: x}) writes exactly A[c][v] := x; Container: `name in`, `[name]` by pairwise "
                 "different constraint names; Model.update() writes no coefficient; `variable.problem is solver` decides membership; "
                 "glue lemma only: a variable that is added again has coefficient 0 in every constraint"])


def replay(payload):
    return replay_with_driver("C03", payload)
