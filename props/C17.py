"""C17 — Loopless methods remove cycles without changing what matters."""
from contracts import c15_dictlist, c17_cyclefree as C  # noqa
from contracts import c17_loopless as CL
from contracts import c17_addloopless as CA
from contracts import w_reaction_sides as WRS
from contracts import c17_lrc as LRC
from contracts import w_model_boundary as WMB
from contracts import c17_fva_iter as FI
from props._generic import run_property, replay_with_driver

LEVEL = "other"
KEYS = ["_add_cycle_free", "Reaction.bounds@setter"]
KEYS_SOLUTION = ["loopless_solution"]
KEYS_MILP = ["add_loopless"]


def _lemmas():
    return C.lemmas() + CA.lemmas() + FI.lemmas()


def run(rep):
    run_property(rep, KEYS, hooks=C.HOOKS, lemmas=_lemmas, more=[(KEYS_SOLUTION, CL.HOOKS), (KEYS_MILP, CA.HOOKS), (["Reaction.boundary@getter:body"], WRS.HOOKS), (LRC.KEYS, LRC.HOOKS), (WMB.KEYS, WMB.HOOKS), ([FI.KEY], FI.HOOKS)], explanation=(
        "linear_reaction_coefficients(model) (an assumed contract until round 5) is proved against its body with its documented "
        "post-condition unchanged (loop invariant over model.reactions: exactly the reactions whose forward variable has a non-zero "
        "objective coefficient that is the negative of the reverse variable's, value = that coefficient; a new dict; nothing written) "
        "under the stated precondition that model.reactions is well formed and every listed reaction belongs to a model - obliged at "
        "the call site in loopless_solution, whose own precondition provides it. Model.boundary is proved to return a new list of "
        "exactly the reactions of model.reactions whose boundary flag holds, in model order. "
        "What the ghost flag is_boundary MEANS is proved on the real body of Reaction.boundary (with the real reactants / products "
        "bodies inlined): True - and one of the two sides empty, as documented - for a reaction with exactly one stored metabolite, "
        "False for any other number of metabolites (the code's reading; the docstring's 'either no products or reactants' would also "
        "accept two reactants and no product: documentation mismatch, reported). "
        "Deductive (kernel): loopless._add_cycle_free is proved, for models with any number of reactions (loop invariant over the "
        "reaction list) and every feasible finite starting flux vector, to give each boundary reaction bounds (v,v) and each internal "
        "reaction (max(0,lb), min(v,ub)) for v>=0 resp. (max(v,lb), min(0,ub)) for v<0 and to touch no other reaction; six glue lemmas "
        "(linear real arithmetic over extended-real bounds) derive from those bounds that no admissible flux reverses direction or "
        "grows in magnitude, that the start stays admissible and that the new bounds lie within the old ones. "
        "loopless_solution ITSELF is proved as data flow, for both ways of giving the start (clauses from the docstring / the "
        "CycleFreeFlux formulation): without fluxes the model is optimised exactly once, first, in its own direction, and the fluxes "
        "and the objective value of THAT solution are the start; with fluxes the pinned value is c.v0 = the sum of c_r * fluxes[r.id] "
        "over linear_reaction_coefficients(model) taken on the untouched model (assumed contract; the sum over the dictionary is an "
        "uninterpreted finite sum of a summand that is characterised pointwise). Then: exactly ONE constraint "
        "Constraint(objective expression at entry, lb = pin, ub = pin, name='loopless_obj_constraint') - an equality on the start's "
        "value - is handed to model.add_cons_vars (not solver.add) while the function's own context is innermost; "
        "_add_cycle_free(model, START fluxes) is called once in that context on the entry bounds (precondition discharged, proved "
        "contract used), so the state in which the final optimize() is made has exactly the CycleFreeFlux bounds for every reaction; "
        "the Solution returned is the one assembled from that final solve and its objective_value is the primal of the pinned "
        "constraint read after it; the context is closed again on return and when a solve raises. "
        "add_loopless is proved for any number of reactions (all bounds finite): the reactions treated are exactly the non-boundary "
        "ones in model order (witness enumeration), M is the largest |bound| of the model (spec constant by axiom), the first "
        "add_cons_vars call receives exactly [indicator_r (binary), on_off_r: -M <= flux_expression(r) - M*a <= 0, delta_g_r, "
        "delta_g_range_r: 1 <= G + (M+1)*a <= M] per internal reaction, and for EVERY row k of nullspace(S[:, cols]).T (second loop "
        "invariant) one constraint Constraint(Zero, lb=0, ub=0, name='nullspace_constraint_k') is added through add_cons_vars and "
        "the constraint of that name gets set_linear_coefficients({variables['delta_g_' + id of the p-th internal reaction]: "
        "row[p]}) for exactly the positions p with abs(row[p]) > zero_cutoff; a model without reactions raises ValueError; four "
        "lemmas (a=1: 0<=v<=M, G<=-1; a=0: -M<=v<=0, G>=1; flux sign opposes delta-G sign; every flux within the bounds keeps an "
        "indicator when M>=1 - for M<1 the delta_g range 1..M is empty). "
        "NOT proved: that the optimum of the LP / MILP is loop-free and minimal, the objective _add_cycle_free installs, that "
        "numpy.array(<list>) selects exactly the internal columns (opaque conversion), nullspace (SVD) and the adequacy of the "
        "thresholding, normalize_cutoff's value, that loopless_fva_iter's value IS the cycle-free extreme, reverting on context exit "
        "(C03 / C13): bounded driver (ring models in all reversibility patterns against exact LP cycle-removal tests and brute-force "
        "sign patterns). "
        "loopless_fva_iter (zero_cutoff None, solution False / True, `current` a finite number, bounds valid, reactions attached, target in "
        "the model) is proved as bookkeeping + frame: current / sol are read on the untouched model; a boundary target returns them with "
        "nothing else called; otherwise _add_cycle_free(model, sol.fluxes) is applied by its PROVED contract on the entry bounds in a first "
        "own context (precondition obliged), ONE solve sees exactly the CycleFreeFlux bounds, reaction.flux of the TARGET is read after it "
        "and current / sol returned when it is within the cutoff of current; otherwise the target is fixed at (current, current), a second "
        "solve, the context left, and in a SECOND own context entered on the entry bounds / coefficients / direction every reaction - the "
        "target included: the step the known finding loopless-fva-too-narrow is about - whose flux is below the cutoff in the first and "
        "above it in the second solution gets (max(0,lb), min(0,ub)) (loop invariant; ValueError of the bounds setter when 0 is outside "
        "its bounds is a proved exit), ONE last solve of the entry objective in the entry direction on those bounds, and reaction.flux "
        "after THAT solve / the Solution of THAT optimize() is returned. On EVERY exit (three returns, OptimizationError from "
        "reaction.flux / get_solution / optimize, ValueError) the context stack, all reaction and variable bounds, all objective "
        "coefficients and the direction are as at entry; the final direct write model.objective.direction = objective_dir re-writes the "
        "entry value and is redundant. The rollback performed by leaving `with model:` is a TRUSTED step here (C03 / C13)."),
        trusted=["the abstraction step only: the ghost flag is_boundary of a symbolic reaction stands for the value proved in contracts/w_reaction_sides.py (Reaction.boundary itself is no longer assumed); optlang objective calls (assumed)", "GLPK (assumed, monitored)",
                 "numpy SVD null space and zero_cutoff thresholding in add_loopless",
                 "sympy as_coefficients_dict of the objective expression = the ghost coefficient map objc restricted to its non-zero entries (leaf of the PROVED linear_reaction_coefficients)",
                 "Model.optimize at the call site = its C04 contract + the Solution get_solution assembles (fluxes keyed by all reaction ids)",
                 "sum() over a dict enumeration = an uninterpreted finite sum SIGMA(key set, summand) (order independence: reals, no rounding)",
                 "loopless_fva_iter: leaving `with model:` restores bounds, objective coefficients and direction to their values at the matching __enter__ (C03 / C13 A1, applied after the proved C03 contract of Model.__exit__); reaction.flux / get_solution raise exactly for a status without primal values (C04) and otherwise yield a finite number / a Solution keyed by all reaction ids; normalize_cutoff(model, None) is an opaque number",
                 "optlang / numpy / pandas constructors and operators as uninterpreted terms; model.add_cons_vars and "
                 "Constraint.set_linear_coefficients as recorded calls; DictList.__getitem__(int) by its C15 contract as a term"])


def replay(payload):
    return replay_with_driver("C17", payload)
