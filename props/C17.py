"""C17 — Loopless methods remove cycles without changing what matters."""
from contracts import c15_dictlist, c17_cyclefree as C  # noqa
from props._generic import run_property, replay_with_driver

LEVEL = "other"
KEYS = ["_add_cycle_free", "Reaction.bounds@setter"]


def run(rep):
    run_property(rep, KEYS, hooks=C.HOOKS, lemmas=C.lemmas, explanation=(
        "Deductive (kernel): loopless._add_cycle_free is proved, for models with any number of reactions (loop invariant over the "
        "reaction list) and every feasible finite starting flux vector, to give each boundary reaction bounds (v,v) and each internal "
        "reaction (max(0,lb), min(v,ub)) for v>=0 resp. (max(v,lb), min(0,ub)) for v<0 and to touch no other reaction; six glue lemmas "
        "(linear real arithmetic over extended-real bounds) derive from those bounds that no admissible flux reverses direction or "
        "grows in magnitude, that the start stays admissible and that the new bounds lie within the old ones. The objective part of "
        "_add_cycle_free, loopless_solution's constraint, add_loopless (MILP, SVD null space) and minimality are NOT proved: bounded "
        "driver (ring models in all reversibility patterns against exact LP cycle-removal tests and brute-force sign patterns)."),
        trusted=["Reaction.boundary (ghost flag), optlang objective calls (assumed)", "GLPK (assumed, monitored)",
                 "numpy SVD null space and zero_cutoff thresholding in add_loopless"])


def replay(payload):
    return replay_with_driver("C17", payload)
