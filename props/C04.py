"""C04 — FBA returns a true optimum, or a true verdict that none exists."""
from contracts import c04_status  # noqa
from props._generic import run_property, replay_with_driver

LEVEL = "other"
KEYS = ["check_solver_status", "assert_optimal", "Model.slim_optimize", "Model.optimize"]


def run(rep):
    run_property(rep, KEYS, explanation=(
        "Deductive (cobrapy's own part): slim_optimize is proved to return the objective value exactly when the status is optimal and "
        "otherwise the caller's error value, or - with error_value=None - to raise the exception class OPTLANG_TO_EXCEPTIONS_DICT "
        "assigns to the status; check_solver_status and assert_optimal are proved against their decision tables; Model.optimize is "
        "proved to leave the objective direction as found on every exit, normal or exceptional. That GLPK's optimal is a true "
        "optimum, and the numpy/pandas assembly in get_solution (fluxes = forward - reverse primal, duals), are NOT proved: bounded "
        "driver against an exact rational LP oracle with duality certificate on generated models."),
        trusted=["optlang/GLPK optimize() (assumed contract, monitored by the bounded tier)",
                 "get_solution raising behaviour as seen by optimize (follows check_solver_status, which is proved)"])


def replay(payload):
    return replay_with_driver("C04", payload)
