"""C04 — FBA returns a true optimum, or a true verdict that none exists."""
from contracts import c04_status, c15_dictlist, c01_lp, c04_solution as CS  # noqa
from contracts import c04_accessors as CA  # noqa
from props._generic import run_property, replay_with_driver

LEVEL = "other"
KEYS = ["check_solver_status", "assert_optimal", "Model.slim_optimize", "Model.optimize", "get_solution:body",
        # the encoding of flux bounds that makes `every flux bound is satisfied` true of an LP solution (C01 kernel, glue (i)-(iii))
        "Reaction.update_variable_bounds", "Reaction.bounds@setter", "Reaction.lower_bound@setter", "Reaction.upper_bound@setter"]


def lemmas():
    """reduced-cost identity of the statement from the assumed KKT contract of the solver: the dual of column j is c_j - sum_i a_ij pi_i;
    the forward column of reaction r has c = c_r and a = S_mr, so the reported value dual[r.id] equals c_r - sum_m S_mr pi_m (here with
    the weighted sum abstracted to one real q); the reverse column has the negated data, hence the negated dual - which is why the
    original `forward - reverse` was twice the value."""
    import z3
    from pyvc.engine import Obl
    c, q, df, dr, rep_ = z3.Reals("l_c l_q l_dfwd l_drev l_reported")
    kkt = [df == c - q, dr == -c + q]
    return [Obl("C04/lemma/reduced-cost-identity", kkt + [rep_ == df], rep_ == c - q, "lemma"),
            Obl("C04/lemma/reverse-dual-is-negated-forward-dual", kkt, dr == -df, "lemma")]


def run(rep):
    run_property(rep, KEYS, hooks=CS.HOOKS, lemmas=lemmas, more=[(["Reaction.reverse_id@getter"], c01_lp.GETTER_HOOKS), (CA.KEYS, CA.HOOKS)], explanation=(
        "Reaction.reverse_id (an assumed contract until round 5) is proved against its body: '_'.join((id, 'reverse', "
        "md5(id utf-8).hexdigest()[0:5])) of the CURRENT id, the documented shape (md5 / join uninterpreted). "
        "The per-object accessors Reaction.flux, Reaction.reduced_cost and Metabolite.shadow_price are proved against their bodies for "
        "every status on which documentation and code agree: RuntimeError for an object without a model; for status optimal the value "
        "primal(forward) - primal(reverse) / dual(forward variable) / dual(the row registered under the metabolite's id); "
        "OptimizationError (flux, reduced_cost) for a status that is neither optimal nor one with primals; nothing written. Stated "
        "precondition = the inputs where they DISAGREE (three findings, see contracts/c04_accessors.py): status None raises "
        "OptimizationError instead of the documented RuntimeError; a has-primals status (e.g. infeasible) only warns and returns the "
        "stale number instead of raising OptimizationError; shadow_price turns every raising status into a TypeError "
        "(err.with_traceback() without argument). "
        "Deductive (cobrapy's own part): slim_optimize is proved to return the objective value exactly when the status is optimal and "
        "otherwise the caller's error value, or - with error_value=None - to raise the exception class OPTLANG_TO_EXCEPTIONS_DICT "
        "assigns to the status; check_solver_status and assert_optimal are proved against their decision tables; Model.optimize is "
        "proved to leave the objective direction as found on every exit, normal or exceptional; get_solution is proved (three loop "
        "invariants, any number of reactions and metabolites) to assemble fluxes[i] = primal[id] - primal[reverse_id], reduced_costs[i] "
        "= dual of the forward variable, shadow_prices[i] = dual of the metabolite's row, all under the right identifiers in model "
        "order, NaN-filled duals for integer problems, in arrays created by the call; two glue lemmas derive the statement's "
        "reduced-cost identity from the assumed KKT contract of the solver. That GLPK's optimal is a true optimum and that its duals "
        "certify it is NOT proved: bounded driver against an exact rational LP oracle with duality certificate on generated models."),
        trusted=["optlang/GLPK optimize() (assumed contract, monitored by the bounded tier)",
                 "hashlib.md5(..).hexdigest()[0:5] and str.join as uninterpreted functions of their string arguments (reverse_id)",
                 "optlang variable.primal / .dual, constraint.dual read a finite number (heap fields, no exception modelled); solver.status is None or a string; model.constraints[name] (ConContainer.__getitem__, assumed); the solver-in-step axiom of the proved forward_variable / reverse_variable getters",
                 "get_solution raising behaviour as seen by optimize (follows check_solver_status, which is proved)"])


def replay(payload):
    return replay_with_driver("C04", payload)
