"""C04 — FBA returns a true optimum, or a true verdict that none exists."""
from contracts import c04_status, c15_dictlist, c01_lp, c04_solution as CS  # noqa
from props._generic import run_property, replay_with_driver

LEVEL = "other"
KEYS = ["check_solver_status", "assert_optimal", "Model.slim_optimize", "Model.optimize", "get_solution:body",
        # the encoding of flux bounds that makes `every flux bound is satisfied` true of an LP solution (C01 kernel, glue (i)-(iii))
        "Reaction.update_variable_bounds", "Reaction.bounds@setter", "Reaction.lower_bound@setter", "Reaction.upper_bound@setter"]


def lemmas():
    """reduced-cost identity of the statement from the assumed KKT contract of the solver: the dual of column j is c_j - sum_i a_ij pi_i;
    the forward column of reaction r has c = c_r and a = S_mr, so the reported value dual[r.id] equals c_r - sum_m S_mr pi_m (here with
    the weighted sum abstracted to one real q); the reverse column has the negated data, hence the negated dual - which is why the
    original `forward - reverse` was twice the value."""
    import z3
    from pyvc.engine import Obl
    c, q, df, dr, rep_ = z3.Reals("l_c l_q l_dfwd l_drev l_reported")
    kkt = [df == c - q, dr == -c + q]
    return [Obl("C04/lemma/reduced-cost-identity", kkt + [rep_ == df], rep_ == c - q, "lemma"),
            Obl("C04/lemma/reverse-dual-is-negated-forward-dual", kkt, dr == -df, "lemma")]


def run(rep):
    run_property(rep, KEYS, hooks=CS.HOOKS, lemmas=lemmas, more=[(["Reaction.reverse_id@getter"], c01_lp.GETTER_HOOKS)], explanation=(
        "Reaction.reverse_id (an assumed contract until round 5) is proved against its body: '_'.join((id, 'reverse', "
        "md5(id utf-8).hexdigest()[0:5])) of the CURRENT id, the documented shape (md5 / join uninterpreted). "
        "Deductive (cobrapy's own part): slim_optimize is proved to return the objective value exactly when the status is optimal and "
        "otherwise the caller's error value, or - with error_value=None - to raise the exception class OPTLANG_TO_EXCEPTIONS_DICT "
        "assigns to the status; check_solver_status and assert_optimal are proved against their decision tables; Model.optimize is "
        "proved to leave the objective direction as found on every exit, normal or exceptional; get_solution is proved (three loop "
        "invariants, any number of reactions and metabolites) to assemble fluxes[i] = primal[id] - primal[reverse_id], reduced_costs[i] "
        "= dual of the forward variable, shadow_prices[i] = dual of the metabolite's row, all under the right identifiers in model "
        "order, NaN-filled duals for integer problems, in arrays created by the call; two glue lemmas derive the statement's "
        "reduced-cost identity from the assumed KKT contract of the solver. That GLPK's optimal is a true optimum and that its duals "
        "certify it is NOT proved: bounded driver against an exact rational LP oracle with duality certificate on generated models."),
        trusted=["optlang/GLPK optimize() (assumed contract, monitored by the bounded tier)",
                 "hashlib.md5(..).hexdigest()[0:5] and str.join as uninterpreted functions of their string arguments (reverse_id)",
                 "get_solution raising behaviour as seen by optimize (follows check_solver_status, which is proved)"])


def replay(payload):
    return replay_with_driver("C04", payload)
