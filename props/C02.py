"""C02 — Model edits do exactly what they document; cross-references stay consistent."""
from contracts import c15_dictlist, misc_small, c02_xref  # noqa
from props._generic import run_property, replay_with_driver

LEVEL = "other"
# the DictList operations through which every model edit maintains "identifiers are unique and every listed object is the one
# found by looking up its identifier" (contracts shared with C15), plus Reaction.copy's pointer discipline used by add_reactions
KEYS = ["DictList." + k for k in ("append extend _extend_nocheck remove __isub__ pop _generate_index _replace_on_id get_by_id "
                                  "has_id index __contains__ union __iadd__ add").split()] + [
    "Reaction.copy", "Reaction._associate_gene", "Reaction._dissociate_gene", "Group.add_members", "Group.remove_members",
    "Model.get_associated_groups"]


def run(rep):
    run_property(rep, KEYS, explanation=(
        "Deductive part: the clauses `identifiers are unique` and `every listed object is the one found by looking up its "
        "identifier` hold because every model edit changes model.reactions/metabolites/genes/groups only through the DictList "
        "operations listed here, each proved (C15 contracts, unbounded) to preserve the representation invariant and to produce "
        "exactly the specified sequence, raising cases leaving the list unchanged; Reaction.copy (used when reactions of another "
        "model are added) is proved to leave all model pointers of its operand as found; the primitive cross-reference updates "
        "Reaction._associate_gene/_dissociate_gene are proved to update both directions (reaction lists gene iff gene lists reaction "
        "for the pair, nothing else touched), Group.add_members/remove_members to add/remove exactly the listed members of exactly "
        "that group, Model.get_associated_groups to return exactly the groups containing the element, in order. The documented effect of each public "
        "editing operation on stoichiometry, gene sets, back-references and groups (add_reactions re-pointing, add_metabolites "
        "combine/replace, update_genes_from_gpr, remove_* with orphans, remove_genes/rename_genes, add_boundary, merge) is NOT "
        "proved - those functions mix sympy/optlang calls, string parsing and nested loops outside the supported subset: bounded "
        "driver (histories compared step by step with an executable reference description + Inv_XRef after every step)."),
        trusted=["CPython list/dict semantics as axiomatised", "copy.deepcopy returns a fresh detached object (assumed)"])


def replay(payload):
    return replay_with_driver("C02", payload)
