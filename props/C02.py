"""C02 — Model edits do exactly what they document; cross-references stay consistent."""
from contracts import c15_dictlist, misc_small, c02_xref, c02_rename, c02_boundary  # noqa
from contracts import c02_update_genes as U
from contracts import c02_add_metabolites as AM
from contracts import c02_remove_reactions as RR
from contracts import c02_groups as GR
from contracts import c02_remove_metabolites as RM
from contracts import c02_rxn_add_metabolites as RAM
from contracts import c02_add_reactions as AR
from contracts import c02_remove_reactions_ctx as RRC
from contracts import c02_remove_reactions_ctx_orph as RRO
from contracts import c02_add_reactions_ctx as ARC
from contracts import c12_rxn_arith as ARITH
from contracts import c02_add_metabolites_ctx as AMC
from contracts import c02_remove_metabolites_ctx as RMC
from contracts import c02_remove_genes as RG
from contracts import c02_rename_genes as RN
from contracts import c02_repair as RP
from props._generic import run_property, replay_with_driver

LEVEL = "other"
# the DictList operations through which every model edit maintains "identifiers are unique and every listed object is the one
# found by looking up its identifier" (contracts shared with C15), plus Reaction.copy's pointer discipline used by add_reactions
KEYS = ["DictList." + k for k in ("append extend _extend_nocheck remove __isub__ pop _generate_index _replace_on_id get_by_id "
                                  "has_id index __contains__ union __iadd__ add").split()] + [
    "Reaction.copy", "Reaction._associate_gene", "Reaction._dissociate_gene", "Group.add_members", "Group.remove_members",
    "Model.get_associated_groups"]
# contracts with their own hook tables: renaming / removal wrappers (ghost trace of the Model calls), add_boundary (decision table)
RENAME_KEYS = ["Reaction._set_id_with_model", "Metabolite._set_id_with_model", "Reaction.remove_from_model", "Reaction.delete",
               "Metabolite.remove_from_model", "Variable.name@setter", "Constraint.name@setter", "Container.__getitem__"]
BOUNDARY_KEYS = ["Model.add_boundary"]
# Reaction.update_genes_from_gpr needs its own hook table (the materialised reaction's heap-resident gene set, the ghost undo trace)
KEYS_UG = ["Reaction.update_genes_from_gpr"]
KEYS_AM = ["Model.add_metabolites"]
KEYS_RR = ["Model.remove_reactions"]


def run(rep):
    run_property(rep, KEYS, more=[(RENAME_KEYS, c02_rename.HOOKS), (BOUNDARY_KEYS, c02_boundary.HOOKS), (KEYS_UG, U.HOOKS), (KEYS_AM, AM.HOOKS),
                                   (KEYS_RR, RR.HOOKS), (GR.KEYS, GR.HOOKS), (RM.KEYS, RM.HOOKS), (RAM.KEYS, RAM.HOOKS),
                                   (RAM.KEYS_SUB, RAM.HOOKS_SUB), (AR.KEYS, AR.HOOKS),
                                   (RG.KEYS, RG.HOOKS), (RN.KEYS_VISIT, RN.HOOKS_VISIT), (RN.KEYS, RN.HOOKS), (RP.KEYS, RP.HOOKS)]
                 # contracts whose HOME is another property's quick check (C03: the in-context contracts; C12: reaction arithmetic) are
                 # re-verified here in the thorough tier only: with them the quick check of C02 ran past 900 s
                 + ([(RRC.KEYS, RRC.HOOKS), (ARC.KEYS, ARC.HOOKS), (AMC.KEYS, AMC.HOOKS), (RMC.KEYS, RMC.HOOKS), (RRO.KEYS, RRO.HOOKS)]
                    + list(ARITH.GROUPS) if rep.tier == "thorough" else []),
                 lemmas=lambda: (U.lemmas() + RAM.lemmas() + RN.lemmas()
                                 + ((RRC.lemmas() + ARC.lemmas() + ARITH.lemmas() + AMC.lemmas() + RMC.lemmas() + RRO.lemmas())
                                    if rep.tier == "thorough" else [])), explanation=(
        "(QUICK TIER: the in-context contracts of remove_reactions / add_reactions / add_metabolites / remove_metabolites and reaction "
        "arithmetic named below are verified by the quick checks of C03 and C12, their home properties, and re-verified under C02 in the "
        "thorough tier only.) "
        "(THOROUGH TIER ONLY - its heaviest loop obligation needs ~60 s and a retry seed, too unstable for the quick check:) "
        "Model.remove_reactions with a context open AND remove_orphans=True (key Model.remove_reactions[context:orphans], contracts/c02_remove_reactions_ctx_orph.py; lists and models of any size, any depth of the context stack): the final state exactly as the no-context remove_orphans=True case proves it (in particular NO model pointer other than those of the listed reactions and of the orphaned metabolites changes: an orphaned gene keeps `_model`, a write to it fails the contract) plus the undo registrations of the remove_orphans=False in-context contract (same clauses) and additionally, complete both ways and nothing twice, all in the innermost context: one partial(self.genes.add, g) exactly for every gene g that left model.genes (registered after g's back-reference entry), one partial(grp.add_members, [g]) exactly for every group of the model that contained such a gene at entry (after the gene's own entry), and the RECORDED call self.remove_metabolites(m) exactly for every orphaned metabolite (an abstract call with an assumed effect; what it registers itself is the proved contract Model.remove_metabolites[context]); glue lemma undo-restores:genes-content (replaying the genes.add entries gives back the entry membership of model.genes; fails without the completeness clause). Inner loops carry an explicit frame for the heap fields _model / _reaction / _members (the engine does not check loop bodies against a loop's modifies). Preconditions: those of the two base contracts plus `no listed reaction is a gene of a listed reaction`; the lists returned by Model.get_associated_groups assumed free of duplicates at the call sites. "
        "Model.repair (contracts/c02_repair.py), PROVED for rebuild_relationships=False with rebuild_index True or False, models of any size: with rebuild_index each of the four DictLists (reactions, metabolites, genes, groups) keeps its members in place and gets a REGENERATED, well-formed index (the proved _generate_index contract; stated precondition: the identifiers of each list are pairwise different; without rebuild_index: lists well formed at entry), every member of the four lists - groups included - points at the model afterwards, nothing that pointed at it loses its pointer, no cross-reference set / identifier / list changes and nothing is registered (repair never calls get_context; only its callee update_genes_from_gpr registers). The default rebuild_relationships=True is NOT proved (specification and invariants drafted in the module, path generation did not finish in the session; the case is not registered). FINDING reported there with its native reproduction: repair() rebuilds the gene associations BEFORE it re-points `_model`, so for a listed reaction whose model pointer is lost the rule's genes are created as free-floating Gene objects and the model's own gene lists no reaction - the cross-reference invariant does NOT hold after one repair() (it does after a second one). "
        "Model.add_reactions with a context open (key Model.add_reactions[context]; lists, models and stoichiometries of any size, any depth of the context stack): the final state exactly as the no-context contract proves it (same formulas) PLUS the undo registrations as a ghost trace, all in the INNERMOST context, nothing twice: per added reaction r a block setattr(r, _model, None), then for every key x of r._metabolites at exit x._reaction.remove(r) - registered only where the x._reaction.add(r) it inverts changed the set - or the recorded call add_metabolites(x) (x joined; the callee's own registrations, ASSUMED: in a context it changes the state as its no-context contract says), then the recorded call r.update_genes_from_gpr() (its proved in-context case), blocks in the order of pruned, and last reactions.__isub__(pruned) registered after `reactions += pruned`; glue lemmas undo-restores (membership of model.reactions, _model of reactions, _reaction sets of the entry members of model.metabolites); stated precondition own-keys-do-not-list (a key of a to-be-added reaction that is a member of model.metabolites does not list it at entry: otherwise the unguarded else-branch registers a remove for a no-op add - not reachable through the public API at the repaired commit); the re-pointing of the stoichiometry keys has no inverse and needs none (the reaction is outside the model at entry and exit). "
        "Deductive part: the clauses `identifiers are unique` and `every listed object is the one found by looking up its "
        "identifier` hold because every model edit changes model.reactions/metabolites/genes/groups only through the DictList "
        "operations listed here, each proved (C15 contracts, unbounded) to preserve the representation invariant and to produce "
        "exactly the specified sequence, raising cases leaving the list unchanged; Reaction.copy (used when reactions of another "
        "model are added) is proved to leave all model pointers of its operand as found; the primitive cross-reference updates "
        "Reaction._associate_gene/_dissociate_gene are proved to update both directions (reaction lists gene iff gene lists reaction "
        "for the pair, nothing else touched), Group.add_members/remove_members to add/remove exactly the listed members of exactly "
        "that group, Model.get_associated_groups to return exactly the groups containing the element, in order. Renaming an object that "
        "belongs to a model (Reaction._set_id_with_model, Metabolite._set_id_with_model): an id already in the list raises ValueError "
        "and changes nothing; otherwise exactly this object's id becomes the new id, the model's DictList is well formed again with "
        "the same members at the same positions, lookup by the new id finds the object, the old id is gone, every other key is found "
        "as before, and the solver objects are renamed in step (C01); for a reaction whose new id or reverse id optlang refuses as a "
        "variable name (white space) ValueError is raised and nothing has changed - id, list, index, both variable names (the "
        "original body left id and index changed: defect found with this contract, repaired in /repo acce6db). Preconditions: the "
        "object is listed in its model's well-formed DictList, solver in step at entry; for a metabolite also that optlang accepts "
        "the new name (its constraint is renamed first, so a refused name raises before anything changed). The wrappers "
        "Reaction.remove_from_model / delete and Metabolite.remove_from_model make exactly one call Model.remove_reactions([self], "
        "remove_orphans=<as given>) resp. Model.remove_metabolites(self, <destructive as given>) on the object's own model (precondition: it belongs to one). "
        "Model.add_boundary follows the decision table of its docstring for every shape of its optional arguments (exchange / demand "
        "/ sink / custom: id prefix EX_/DM_/SK_ + metabolite id unless reaction_id is given; bounds given or configured, demand lower "
        "bound 0; default SBO term unless a non-empty one is given; name = metabolite name + ' ' + type; exactly {metabolite: -1} "
        "through one add_metabolites call; then one add_reactions([rxn]) call and rxn returned; the three ValueErrors - exchange of a "
        "metabolite outside the compartment find_external_compartment reports, custom type without id, id already in the model - "
        "with nothing handed to the model), find_external_compartment / the Reaction constructor / add_metabolites / add_reactions "
        "being abstract calls. "
        "Reaction.update_genes_from_gpr - the function through which every change of a gene rule updates reaction.genes and "
        "gene.reactions - is proved for a reaction that is IN a model, without and with an open context, whatever the rule (three "
        "loop invariants: over the rule's names in any enumeration order, over the new gene set, over old minus new; the callees "
        "_associate_gene / _dissociate_gene, DictList.has_id / append / get_by_id and get_context by their proved contracts). With N "
        "the set of gene names of the rule (empty when the rule has no body): afterwards reaction._genes is exactly the set of the "
        "model's genes whose identifier is in N (both inclusions, and member by member); model.genes keeps its old members in place "
        "and stays a well-formed DictList, and gains exactly one NEW Gene object per name of N that had no gene - with that "
        "identifier, pointing at the model, listed by no reaction before, listing exactly this reaction afterwards; for every gene "
        "of the old or the new set, `reaction in gene._reaction` holds afterwards exactly when the gene is in the new set, and every "
        "gene of the new set points at the model; a gene in neither set keeps its identifier, model pointer and reaction set, no "
        "entry of any gene's reaction set for ANOTHER reaction changes, no other reaction's gene set changes; hence if `g in "
        "genes(reaction) <=> reaction in reactions(g)` held for this reaction at entry it holds at exit, and (lemma xref-preserved, a "
        "closed formula over exactly these post-conditions) the same for the invariant over the whole heap. Without a context "
        "nothing is registered; with a context the undo functions registered - all in the innermost context of the model - are "
        "exactly: for each created gene partial(model.genes.__isub__, [gene]) immediately followed by partial(setattr, gene, "
        "'_model', None), both before its dissociation entry; one partial(self._dissociate_gene, g) per gene of the new set that was "
        "NOT in the old set (the repair: a gene that was part of the reaction before stays part of it when the change is "
        "reverted); one partial(self._associate_gene, g) per gene of the old set that is not in the new set; nothing else and "
        "nothing twice (ghost trace with a witness map). ASSUMED there: the GPR.genes getter returns the ghost name set of the rule "
        "tree; Gene(id) allocates a new object (referenced by nothing that exists, given identifier, no model, empty reaction set); "
        "glue precondition: the heap's model pointer of the materialised reaction is the materialised model; the explicit form of "
        "the DictList index after append is assumed at the call site and justified by the lemma append-index over the C15 "
        "post-condition. The model-less branch of update_genes_from_gpr (a set comprehension allocating one Gene per name) is NOT "
        "covered. "
        "Model.add_metabolites (no context open, a list of pairwise different objects) is proved for lists and models of any size: "
        "the metabolites that join are exactly those of the argument whose identifier is not yet in the model, appended in their "
        "order to model.metabolites, which is well formed again; every one of them points at the model and lists afterwards exactly "
        "those of its reactions that belong to this model (the back-references to reactions outside the model are dropped: repair "
        "f52a176), no other model pointer or reaction set changes; the mass-balance constraints handed to add_cons_vars in one call "
        "are Constraint(Zero, name=<id>, lb=0, ub=0), one for every joining metabolite whose identifier names no constraint yet and "
        "nothing else; an empty argument changes nothing, an empty identifier raises ValueError before anything is changed. "
        "Model.remove_reactions (no context open, a list of pairwise different members of the model, remove_orphans False and True) "
        "is proved for lists and models of any size: model.reactions afterwards is its entry content minus the listed reactions, "
        "the others in their order, well formed again; every listed reaction has no model pointer; per listed reaction, in list "
        "order, exactly one objective.set_linear_coefficients({forward: 0, reverse: 0}) and then one remove_cons_vars([forward, "
        "reverse]) (ghost trace with a clock: zeroed BEFORE removed, the repair 970afa3); afterwards no metabolite, gene or group "
        "of the model refers to a listed reaction, and the only back-references / memberships that changed are those; with "
        "remove_orphans: Model.remove_metabolites is called on exactly the metabolites that list no reaction any more, exactly the "
        "genes that list no reaction any more leave model.genes (well formed again) and the groups; without: model.genes and all "
        "other pointers untouched. Stated preconditions there: items are members, pairwise different (an item not in the model or "
        "listed twice only produces a warning: not covered); Model.remove_metabolites(one reaction-less metabolite) is an abstract "
        "call assumed to clear its model pointer and its group memberships. Observation visible in that contract (not demanded by "
        "the property text, hence not a finding): an orphaned gene removed from model.genes keeps its _model pointer. "
        "Model.remove_metabolites (no context open; a list or one metabolite; keeping the reactions or destructive): "
        "model.metabolites loses exactly the listed members (well formed again, order kept), each gets no model pointer, exactly one "
        "remove_cons_vars call with exactly their mass-balance constraints, no group of the model contains one of them afterwards "
        "and nothing else leaves or joins a group; non-destructive: every reaction that listed a removed metabolite x is sent "
        "subtract_metabolites({x: its coefficient}) (assumed effect of that callee: x leaves the reaction, the reaction leaves "
        "x._reaction), nothing else changes; destructive: remove_from_model() exactly once for every reaction that listed a removed "
        "metabolite and for nothing else. Model.remove_groups (Group objects or identifier strings, list or single, without and with "
        "a context): exactly the model's groups registered under a listed identifier leave model.groups (well formed again, order "
        "kept), their model pointer is cleared, member sets untouched, an unknown or repeated item changes nothing; in a context "
        "exactly partial(groups.add, g) then partial(setattr, g, '_model', model) per removed group. Model.add_groups (list or one "
        "Group, without and with a context): groups whose identifier is present are ignored, the joining ones form the new tail of "
        "model.groups (well formed) and point at the model, two joining groups with one identifier raise ValueError with nothing "
        "changed, each member that is a Metabolite / Reaction whose identifier was not in the model when examined is handed to "
        "add_metabolites([m]) / add_reactions([m]) (abstract calls) and nothing else; in a context exactly the two undo "
        "registrations per joining group. "
        "Reaction.add_metabolites - the function through which every stoichiometry edit goes - is proved for dictionaries of any "
        "size, combine and replace, object keys and identifier keys, reaction in a model (without / with context, also keys that are "
        "NEW metabolites when no context is open) and model-less: with final(m) = old + given (combine, m was a key) or given "
        "(replace, or m was not a key), m is a key afterwards exactly when it was touched and final(m) != 0, and then holds final(m); "
        "for every touched m `reaction in m._reaction` holds afterwards exactly when m is a key; nothing else changes; the solver "
        "row of every touched m holds final(m) for the forward and -final(m) for the reverse variable (0 for a removed one) and no "
        "other cell is written (C01); an unknown identifier raises KeyError (model-less: ValueError) BEFORE anything changed; "
        "without a context or with reversibly=False nothing is registered, otherwise exactly one undo: combine - "
        "subtract_metabolites(copy of the argument as at entry, combine=True, reversibly=False), replace - add_metabolites({key: "
        "old coefficient or 0}, combine=False, reversibly=False); Reaction.subtract_metabolites makes exactly one add_metabolites "
        "call with a new dictionary of the negated values and the same flags; glue lemmas: xref-preserved, rows-preserved, "
        "undo-restores:combine / :replace (the call followed by its registered undo call restores stoichiometry, reaction sets "
        "and solver rows). Not covered there: keys that belong to another model (copied), new metabolites inside a context, another "
        "object with the same identifier on a model-less reaction. "
        "Model.add_reactions (no context open; argument lists, models and stoichiometries of any size; two nested loops under hand "
        "invariants): the listed reactions whose identifier is unknown join model.reactions as its new tail in argument order (well "
        "formed again) and point at the model, the others are ignored and untouched; every key of a joining reaction is afterwards THE "
        "member of model.metabolites with that identifier, with the coefficient the entry key had (re-pointing), unknown metabolites "
        "join through Model.add_metabolites (proved contract applied), every key lists the reaction, genes by the proved contract of "
        "update_genes_from_gpr, exactly one _populate_solver(pruned) call in the exit state (recorded), two new reactions with one "
        "identifier raise ValueError before anything changed; frame over all other reactions, reaction sets and groups. "
        "Model.remove_reactions with a context open (remove_orphans=False): the final state as without a context plus the undo "
        "registrations as a ghost trace - all in the innermost context, per listed reaction the block [objective coefficients,] "
        "_populate_solver([r]), setattr(r, _model, model), reactions.add(r), one x._reaction.add(r) per metabolite / gene that listed "
        "it, one g.add_members([r]) per group that contained it, nothing else and nothing twice; glue lemmas undo-restores (model "
        "pointers, list content, back references, group members). Reaction arithmetic: __imul__ (in a model without / with context, "
        "detached; every coefficient scaled, bounds swapped and negated iff coefficient < 0, one _populate_solver call, the three undo "
        "registrations, lemma undo-restores exact also for the coefficient 0), __iadd__ / __isub__ (exactly one "
        "add_metabolites / subtract_metabolites call with the operand's dictionary and combine=True, the rule decision table, the "
        "operand untouched; in a model without context the EFFECT through the proved add_metabolites contract), __mul__ / __add__ / "
        "__sub__ (copies by the proved Reaction.copy contract, the in-place operator applied to the copy only, operands and every "
        "existing object unchanged). "
        "Model.add_metabolites and Model.remove_metabolites WITH a context open (lists and models of any size, any depth of the context stack; remove: a list or one metabolite, keeping the reactions or destructive): the final state exactly as their no-context contracts state it, plus the undo registrations as a ghost trace, all in the innermost context, nothing else and nothing twice - add: one x._reaction.update(S) per joining metabolite that lost back-references, S exactly the set taken out, then metabolites.__isub__(the joining metabolites), then setattr(x, _model, None) per joining metabolite, and nothing at all on the two early exits; remove: one g.add_members([x]) per (handled metabolite, group of the model that contained it), then metabolites.__iadd__(the handled metabolites), then setattr(x, _model, model) per handled metabolite; the constraint side is the recorded add_cons_vars / remove_cons_vars call whose own registration C03 proves, subtract_metabolites is called with the default reversibly, remove_from_model = remove_reactions in context; glue lemmas undo-restores (membership in model.metabolites as a set, back references resp. group members, model pointers - the last under the stated hypothesis that a joining metabolite had no model resp. a removed one pointed at the model). Stated preconditions: those of the no-context contracts, pairwise different items as a ghost inverse map, destructive list case: a reaction is not a listed metabolite; assumed at the call site: get_associated_groups returns no duplicates. "
        "cobra.manipulation.remove_genes (no context open; gene_list a list of Gene objects or of identifier strings each "
        "naming a gene of the model; lists and models of any size; remove_reactions a symbolic Boolean; every reaction of the "
        "model owning its GPR object with a well-formed tree) is proved up to its two final calls, which are recorded: in the "
        "state in which model.remove_reactions(l) is called the looked-up genes GS have left model.genes (well formed again, "
        "the others in order, exactly the members in GS gone), have no model pointer (no other pointer changed) and are in no "
        "group of the model (nothing else left a group); every reaction with a non-empty rule that is not a target has a rule "
        "that is - for an arbitrary set K of absent genes - equivalent to its old rule with K and the removed identifiers "
        "absent, or no body only if the old rule is False with them absent (the PROVED contracts of _GeneRemover.visit_Name / "
        "visit_BoolOp applied to the body at the call site), every other rule is untouched; l lists exactly the reactions with "
        "a non-empty rule that is False with the removed identifiers absent when remove_reactions is set (each once, members of "
        "the model, nothing when it is not set); update_genes_from_gpr() is then called on exactly the reactions that kept a "
        "rule. The effects of these two callees are their own contracts (Model.remove_reactions, "
        "Reaction.update_genes_from_gpr); their composition with this contract - the final cross-reference clause - is NOT "
        "carried out. Assumed there: NodeTransformer's visit of the root GPR object (body := visit(body) by the remover's "
        "contract, attribute deleted for None; rule trees of different GPR objects are disjoint and do not read the body "
        "field), the remover's constructor, gene_reaction_rule is empty exactly for a rule without body, "
        "Group.remove_members(<one object>) wraps it into a list. "
        "cobra.manipulation.rename_genes (no context open; models and dictionaries of any size; stated restriction PRE1: every new "
        "identifier is unused in the model, is not itself a key of the dictionary - no chains, no identity entries - and two keys "
        "naming genes of the model have different new identifiers - no merge): loop invariant `model.genes is a well-formed "
        "DictList with its entry members in place after EVERY entry` (the index is rebuilt per renamed gene), a member whose entry "
        "identifier is a handled key carries exactly the new identifier, no other identifier changed; in the state in which "
        "model.repair() is called (recorded, exactly once): every gene named by a key is found under its new identifier at its old "
        "position and not under the old one, every other member as before; the rules visited by _Renamer are exactly those of the "
        "reactions listed (at entry) by a renamed gene, each visited rule satisfies - for an arbitrary set K of absent genes - "
        "new rule with K absent == old rule with {k : rename(k) in K} absent, every other rule keeps its value; model pointers, "
        "reaction / gene sets, groups, model.reactions, tags, operators and child lists are untouched before repair(). "
        "_Renamer.visit_Name is PROVED on the real source (the node itself returned, exactly its identifier becomes "
        "rename_dict.get(id, id), the value clause above for the node) together with the induction step (lemma "
        "renamer/induction-step) that lifts it to and/or nodes and the root. Assumed there: NodeTransformer's visit of the root "
        "GPR object (every Name below by the proved visit_Name, tree induction with the proved step, rule trees of different GPR "
        "objects disjoint), the renamer's constructor, the Object.id setter for a string (`_id := value`), GPR.copy returns "
        "another object; Model.repair() recorded, its write set havocked - the re-derivation of the gene sets by "
        "update_genes_from_gpr inside repair() is NOT composed. Calls with dependent entries (chains, two old identifiers onto one "
        "new one, a new identifier already in use = the merge branch with its group repair 7173bc7) are outside the stated case. "
        "The documented effect of each other public "
        "editing operation on stoichiometry, gene sets, back-references and groups (add_reactions inside a context, "
        "remove_genes inside a context and its final cross-reference clause, rename_genes with dependent entries / merges / inside a context, merge), the parsing of the rule text and what the "
        "registered undo functions do when they run are NOT "
        "proved - those functions mix sympy/optlang calls, string parsing and nested loops outside the supported subset: bounded "
        "driver (histories compared step by step with an executable reference description + Inv_XRef after every step)."),
        trusted=["Model.add_reactions[context]: at the call site self.add_metabolites(metabolite) with a context open the callee is ASSUMED to change model.metabolites / _model / _reaction as its no-context contract (proved without a context only) says - its precondition without `no context open` is obliged - and to register its own undos (recorded call, not looked at); the callees' own undos are ASSUMED (glue lemmas only) to touch _model / _reaction of joined metabolites and genes only; stated precondition own-keys-do-not-list",
                 "add_metabolites / remove_metabolites in a context: context(f) = HistoryManager.__call__ by its proved contract, recorded "
                 "in a ghost trace; the list returned by Model.get_associated_groups has no duplicates (assumed consequence of its proved "
                 "post-condition); the trace clauses are stated under a free Boolean gate (proved for both values)",
                 "CPython list/dict semantics as axiomatised", "copy.deepcopy returns a fresh detached object (assumed)",
                 "reverse_id is a function of the current id; model.variables[...] finds the reaction's variables (assumed getters)",
                 "add_boundary: Reaction constructor stores id/name/bounds as given with an empty annotation dict; "
                 "find_external_compartment, Reaction.add_metabolites, Model.add_reactions abstract (ghost trace); f-strings as opaque "
                 "concatenation of uninterpreted identifiers",
                 "GPR.genes returns the gene names of the rule tree (ghost rule_names; assumed contract)",
                 "Gene(id) allocates a new object referenced by nothing that exists (assumed allocation contract)",
                 "get_context by its contract proved under C03; set semantics (copy, add, difference, iteration in any order) as "
                 "axiomatised", "Model.add_cons_vars as a recorded call; optlang Constraint constructor uninterpreted",
                 "remove_reactions: objective.set_linear_coefficients / Model.remove_cons_vars recorded, not executed; "
                 "Model.remove_metabolites(one reaction-less metabolite) abstract with an assumed effect (model pointer None, removed "
                 "from the model's groups, nothing else in view); len(set) == 0 iff the set is empty",
                 "remove_metabolites: Reaction.subtract_metabolites({x: c}) (coefficient old - c, at 0 x leaves the reaction and the "
                 "reaction leaves x._reaction) and Reaction.remove_from_model() (model pointer None, leaves every reaction set) by "
                 "assumed effect; solver.constraints[id] total (solver in step)",
                 "add_groups: Model.add_metabolites([m]) / add_reactions([m]) recorded abstract calls that may change only "
                 "model.metabolites / model.reactions (well formed again) and model pointers of non-Group objects; isinstance of a "
                 "member an uninterpreted class tag",
                 "remove_genes: ast.NodeTransformer visit of the root GPR object (body := visit(body), attribute deleted for None; "
                 "rule trees of different GPR objects disjoint, not reading the body field), _GeneRemover(ids) constructor, "
                 "gene_reaction_rule empty iff no body, Group.remove_members(one object) = remove_members([object]); "
                 "Model.remove_reactions / update_genes_from_gpr recorded there, write sets havocked",
                 "rename_genes: ast.NodeTransformer visit of the root GPR object by _Renamer (every Name node by the proved "
                 "visit_Name, tree induction with the proved step lemma, rule trees of different GPR objects disjoint), "
                 "_Renamer(d) constructor, Object.id setter for a string = `_id := value`, GPR.copy returns another object; "
                 "Model.repair() recorded, write set havocked",
                 "Reaction.add_metabolites: model.constraints[name] / constraint.set_linear_coefficients as a ghost matrix (assumed "
                 "optlang contracts); Model.add_metabolites applied at the call site by its proved contract plus: does not raise for "
                 "pairwise different new identifiers (obliged), add_cons_vars makes the constraints findable by name"])


def replay(payload):
    return replay_with_driver("C02", payload)
