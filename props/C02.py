"""C02 — Model edits do exactly what they document; cross-references stay consistent."""
from contracts import c15_dictlist, misc_small, c02_xref, c02_rename, c02_boundary  # noqa
from props._generic import run_property, replay_with_driver

LEVEL = "other"
# the DictList operations through which every model edit maintains "identifiers are unique and every listed object is the one
# found by looking up its identifier" (contracts shared with C15), plus Reaction.copy's pointer discipline used by add_reactions
KEYS = ["DictList." + k for k in ("append extend _extend_nocheck remove __isub__ pop _generate_index _replace_on_id get_by_id "
                                  "has_id index __contains__ union __iadd__ add").split()] + [
    "Reaction.copy", "Reaction._associate_gene", "Reaction._dissociate_gene", "Group.add_members", "Group.remove_members",
    "Model.get_associated_groups"]
# contracts with their own hook tables: renaming / removal wrappers (ghost trace of the Model calls), add_boundary (decision table)
RENAME_KEYS = ["Reaction._set_id_with_model", "Metabolite._set_id_with_model", "Reaction.remove_from_model", "Reaction.delete",
               "Metabolite.remove_from_model", "Variable.name@setter", "Constraint.name@setter", "Container.__getitem__"]
BOUNDARY_KEYS = ["Model.add_boundary"]


def run(rep):
    run_property(rep, KEYS, more=[(RENAME_KEYS, c02_rename.HOOKS), (BOUNDARY_KEYS, c02_boundary.HOOKS)], explanation=(
        "Deductive part: the clauses `identifiers are unique` and `every listed object is the one found by looking up its "
        "identifier` hold because every model edit changes model.reactions/metabolites/genes/groups only through the DictList "
        "operations listed here, each proved (C15 contracts, unbounded) to preserve the representation invariant and to produce "
        "exactly the specified sequence, raising cases leaving the list unchanged; Reaction.copy (used when reactions of another "
        "model are added) is proved to leave all model pointers of its operand as found; the primitive cross-reference updates "
        "Reaction._associate_gene/_dissociate_gene are proved to update both directions (reaction lists gene iff gene lists reaction "
        "for the pair, nothing else touched), Group.add_members/remove_members to add/remove exactly the listed members of exactly "
        "that group, Model.get_associated_groups to return exactly the groups containing the element, in order. Renaming an object that "
        "belongs to a model (Reaction._set_id_with_model, Metabolite._set_id_with_model): an id already in the list raises ValueError "
        "and changes nothing; otherwise exactly this object's id becomes the new id, the model's DictList is well formed again with "
        "the same members at the same positions, lookup by the new id finds the object, the old id is gone, every other key is found "
        "as before, and the solver objects are renamed in step (C01); for a reaction whose new id or reverse id optlang refuses as a "
        "variable name (white space) ValueError is raised and nothing has changed - id, list, index, both variable names (the "
        "original body left id and index changed: defect found with this contract, repaired in /repo acce6db). Preconditions: the "
        "object is listed in its model's well-formed DictList, solver in step at entry; for a metabolite also that optlang accepts "
        "the new name (its constraint is renamed first, so a refused name raises before anything changed). The wrappers "
        "Reaction.remove_from_model / delete and Metabolite.remove_from_model make exactly one call Model.remove_reactions([self], "
        "remove_orphans=<as given>) resp. Model.remove_metabolites(self, <destructive as given>) on the object's own model (precondition: it belongs to one). "
        "Model.add_boundary follows the decision table of its docstring for every shape of its optional arguments (exchange / demand "
        "/ sink / custom: id prefix EX_/DM_/SK_ + metabolite id unless reaction_id is given; bounds given or configured, demand lower "
        "bound 0; default SBO term unless a non-empty one is given; name = metabolite name + ' ' + type; exactly {metabolite: -1} "
        "through one add_metabolites call; then one add_reactions([rxn]) call and rxn returned; the three ValueErrors - exchange of a "
        "metabolite outside the compartment find_external_compartment reports, custom type without id, id already in the model - "
        "with nothing handed to the model), find_external_compartment / the Reaction constructor / add_metabolites / add_reactions "
        "being abstract calls. The documented effect of each public "
        "editing operation on stoichiometry, gene sets, back-references and groups (add_reactions re-pointing, add_metabolites "
        "combine/replace, update_genes_from_gpr, remove_* with orphans, remove_genes/rename_genes, merge) is NOT "
        "proved - those functions mix sympy/optlang calls, string parsing and nested loops outside the supported subset: bounded "
        "driver (histories compared step by step with an executable reference description + Inv_XRef after every step)."),
        trusted=["CPython list/dict semantics as axiomatised", "copy.deepcopy returns a fresh detached object (assumed)",
                 "reverse_id is a function of the current id; model.variables[...] finds the reaction's variables (assumed getters)",
                 "add_boundary: Reaction constructor stores id/name/bounds as given with an empty annotation dict; "
                 "find_external_compartment, Reaction.add_metabolites, Model.add_reactions abstract (ghost trace); f-strings as opaque "
                 "concatenation of uninterpreted identifiers"])


def replay(payload):
    return replay_with_driver("C02", payload)
