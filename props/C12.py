"""C12 — A copy is equivalent to its original and shares nothing with it."""
from contracts import misc_small  # noqa
from props._generic import run_property, replay_with_driver

LEVEL = "other"
KEYS = ["Reaction.copy"]


def run(rep):
    run_property(rep, KEYS, explanation=(
        "Deductive part is thin and stated as such: Reaction.copy is proved (four loop invariants over the reaction's metabolites and "
        "genes in any iteration order) to return a different, detached object and to leave EVERY model pointer of the operand, its "
        "metabolites and its genes as found on normal return, relative to the assumed contract of copy.deepcopy and the cross-reference "
        "invariant (members belong to the reaction's model). Model.copy iterates over __dict__ of arbitrary objects and relies on "
        "copy/deepcopy and the solver's own deep copy; its separation property is not within the verifier's reach: bounded driver "
        "(snapshot equality of copy/deepcopy/pickle incl. the solver problem, then every edit and depth-2 edit sequence incl. in-place "
        "edits of notes/annotations applied to one side with the other side compared, reaction arithmetic operands unchanged)."),
        trusted=["copy.copy / copy.deepcopy / pickle (assumed)", "an exception inside deepcopy would leave the pointers cleared "
                 "(no try/finally in Reaction.copy): outside the contract's normal-return case"])


def replay(payload):
    return replay_with_driver("C12", payload)
