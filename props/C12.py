"""C12 — A copy is equivalent to its original and shares nothing with it."""
from contracts import misc_small  # noqa
from contracts import c12_rxn_arith as ARITH
from contracts import c12_model_copy as MCOPY
from contracts import w_tolerance as WT
from contracts import c12_pickle as PK
from contracts import c12_species_copy as SC
from props._generic import run_property, replay_with_driver

LEVEL = "other"
KEYS = ["Reaction.copy", "Model.__setstate__", "Reaction.update_variable_bounds"]


def run(rep):
    run_property(rep, KEYS, more=list(ARITH.GROUPS) + [(MCOPY.KEYS, MCOPY.HOOKS), (WT.KEYS, WT.HOOKS), (PK.KEYS + PK.ASSUMED_KEYS, PK.HOOKS), (SC.KEYS, SC.HOOKS)], lemmas=lambda: ARITH.lemmas() + MCOPY.lemmas() + PK.lemmas(), explanation=(
        "Species.copy (= Metabolite.copy / Gene.copy; contracts/c12_species_copy.py; body `return deepcopy(self)`), for a species with ANY "
        "model pointer and ANY reaction set: the value returned is a NEW object of the same class (did not exist at entry: python "
        "identity and allocation stamp), DETACHED (`_model` None), whose `_reaction` is a NEW EMPTY set - not the original's -, with the "
        "same `_id`, name and scalar attributes and deep copies (new objects) of notes / annotation; the original keeps every attribute "
        "with the very object it held (`_model`, the `_reaction` set and its content included) and no heap field is written. Proved "
        "through the PROVED Species.__getstate__ contract applied at the call site, relative to the ASSUMED deepcopy codec (one "
        "__getstate__ call, one new instance whose attributes are structural deep copies of the state's entries, no memo). "
        "The pickle / deepcopy PROTOCOL methods (contracts/c12_pickle.py; obj.__dict__ = record over the attribute names derived from the "
        "__init__ sources, as for Model.copy): Model.__getstate__ returns a NEW dictionary with exactly the model's attributes, every "
        "entry but `_contexts` holding the attribute's own value and `_contexts` a NEW EMPTY list - the model itself keeps every "
        "attribute and its own context stack is not emptied (frame); Object.__getstate__ (Group, Metabolite, Gene, bare Object): a new "
        "dictionary, `_model` None when the attribute exists, everything else as held, the object untouched; Species.__getstate__: as "
        "Object's (by its contract) plus `_reaction` a NEW EMPTY set, the species' own set untouched; Reaction.__getstate__: a new "
        "dictionary whose `_gpr` is the rule's TEXT str(rule) and whose other entries - `_model`, `_metabolites`, `_genes` included - are "
        "the attributes' values, the reaction keeps its rule object; Reaction.__setstate__, for a state as written (rule text), a state "
        "with a rule object, and old pickles (`reaction` dropped; gene_reaction_rule / lower_bound / upper_bound renamed to the private "
        "names; rule taken from `_gene_reaction_rule`): the receiver's attributes are exactly the state's entries under their modern "
        "names, `_gpr` is a rule OBJECT - the given one, else GPR.from_string(text), called exactly once -, every stoichiometry key and "
        "every gene lists the receiver in `_reaction` in addition to what it listed and points at the receiver's model, every other "
        "object's `_reaction` / `_model` is as found (two loop invariants over the key set / gene set in any order). Glue lemmas: the "
        "restored rule is parsed from the text of the original rule; induction over the restored reactions (base: species start from "
        "the empty set __getstate__ wrote; step: Reaction.__setstate__'s post-condition): y in x._reaction <=> y is a restored reaction "
        "that uses x - with Model.__setstate__'s `members point at the restored model` the C02 cross-reference invariant of the "
        "restored model, relative to the assumed codec (structural copy, each __setstate__ once, members before their reaction). "
        "The Model.tolerance setter (an assumed contract until round 5) is proved against its body: every optlang tolerance "
        "(feasibility, optimality, integrality) the interface supports is set to the value on the tolerances object of this "
        "model's solver configuration, an unsupported one is left alone (AttributeError swallowed), self._tolerance is set on every "
        "path, nothing else is written; Model.__setstate__ uses that proved contract at its call site. "
        "Deductive part: Reaction.copy is proved (two loop invariants over the recorded (member, model) pairs, built from the "
        "reaction's metabolites and genes in any iteration order) to return a different, detached object and to leave EVERY model "
        "pointer of the operand, its metabolites and its genes as found on normal return - also for a reaction that has been removed "
        "from its model while its members stayed (the defect repaired by 14a80b8) - relative to the assumed contract of "
        "copy.deepcopy. Model.__setstate__ (the receiving end of deepcopy and pickle) is proved to install the state and to point "
        "every reaction, gene, metabolite and group of the restored lists at the restored model (loop invariants; groups were "
        "missing before d50da1c) and, when a solver came with the state, to leave every reaction's solver variables encoding its "
        "bounds (range lemma of C01 re-established by update_variable_bounds for each reaction; infinite bounds did not survive "
        "before fdf97f9), given distinct solver variables per reaction. Model.copy (contracts/c12_model_copy.py) is proved over its real "
        "source for models of ANY size (8 loop invariants; the attribute loops over obj.__dict__ are unrolled over the attribute names "
        "derived mechanically, on every run, from the `self.<name> = ...` assignments of the __init__ methods - ASSUMPTION: instances "
        "have no other attributes) as a SEPARATION post-condition over allocation stamps: the copy's four DictLists, context stack and "
        "compartment dictionary are new objects; every member of the four lists is an object allocated during the call, with the same "
        "identifier at the same index (lists well formed), pointing at the new model; notes / annotation of every member and of the "
        "model and the rule object of every reaction are objects allocated during the call (deep copies / a copy with the same gene "
        "names), all scalar attributes carry the original's value; a reaction of the copy has exactly the copy's metabolites standing "
        "for the original's keys, with the same coefficients, and the copy's genes standing for the original's genes; the `_reaction` "
        "sets of the copy's metabolites and genes list exactly the copy's reactions; group members are the copy's objects of the same "
        "class and identifier; NO field of an object that existed at entry is written, the original model object and its lists are "
        "untouched; the copy's context stack is empty and was never the original's while update_genes_from_gpr ran (e389e4c); the "
        "solver is a deep copy, the tolerance is set once through the setter on the model that already holds it (e3eb7c0), and the "
        "solver variables of every reaction of the copy encode its bounds (fdf97f9). Stated precondition: the original's lists are "
        "well formed, its reactions' metabolites / genes and its groups' members are members of its lists (C02 invariant), genes of a "
        "reaction = the model's genes named by its rule, valid bounds, no exception from deepcopy(solver) (Cplex fallback not covered). "
        "FINDING outside that assumption (reported in the module docstring with its native reproduction, not absorbed): a model read from "
        "SBML carries the additional attribute `_sbml`, which Model.copy shares by reference with the original. "
        "What stays with the bounded driver: that a deep copy has the CONTENT of its source and the optimum of the copied solver "
        "(snapshot equality of copy/deepcopy/pickle incl. the solver problem, then every edit and depth-2 edit sequence incl. in-place "
        "edits of notes/annotations applied to one side with the other side compared, reaction arithmetic operands unchanged)."),
        trusted=["copy.copy / copy.deepcopy / pickle (assumed)", "Species.copy: copy.deepcopy of an instance with __getstate__ and without __deepcopy__ / __setstate__ / __reduce__ calls __getstate__ once and builds ONE new instance from structural deep copies of the state's entries (scalars themselves, references new objects, an empty set a new empty set); no memo from an enclosing deepcopy; instances have exactly the attributes their __init__ methods assign", "pickle protocol: the codec copies state dictionaries structurally, calls each restored object's __setstate__ once and restores a reaction's metabolites / genes before the reaction; GPR.__str__ = to_string() text (rule_text), GPR.from_string(text) returns a new rule object parsed from that text (recorded call; text round trip bounded elsewhere); instances have exactly the attributes their __init__ methods assign", "Model.copy: allocation by the constructors Model() / Metabolite() / Gene(None) / Reaction() / Group(id), "
                 "copy() and deepcopy() returns a NEW object (assumed contracts); set-valued fields are modelled by value; "
                 "(Reaction.update_genes_from_gpr and Group.add_members: their contracts proved under C02 are applied at the call sites, "
                 "call-site lemmas obliged); a copy of a rule object has the same gene names", "optlang: solver.configuration.tolerances is a function of the solver object; assigning a tolerance attribute stores the value there or raises AttributeError with nothing written (ghost predicate tol_supported); logger / interface_to_str opaque", "an exception inside deepcopy would leave the pointers cleared "
                 "(no try/finally in Reaction.copy): outside the contract's normal-return case"])


def replay(payload):
    return replay_with_driver("C12", payload)
