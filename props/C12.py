"""C12 — A copy is equivalent to its original and shares nothing with it."""
from contracts import misc_small  # noqa
from contracts import c12_rxn_arith as ARITH
from contracts import w_tolerance as WT
from props._generic import run_property, replay_with_driver

LEVEL = "other"
KEYS = ["Reaction.copy", "Model.__setstate__", "Reaction.update_variable_bounds"]


def run(rep):
    run_property(rep, KEYS, more=list(ARITH.GROUPS) + [(WT.KEYS, WT.HOOKS)], lemmas=ARITH.lemmas, explanation=(
        "The Model.tolerance setter (an assumed contract until round 5) is proved against its body: every optlang tolerance "
        "(feasibility, optimality, integrality) the interface supports is set to the value on the tolerances object of this "
        "model's solver configuration, an unsupported one is left alone (AttributeError swallowed), self._tolerance is set on every "
        "path, nothing else is written; Model.__setstate__ uses that proved contract at its call site. "
        "Deductive part: Reaction.copy is proved (two loop invariants over the recorded (member, model) pairs, built from the "
        "reaction's metabolites and genes in any iteration order) to return a different, detached object and to leave EVERY model "
        "pointer of the operand, its metabolites and its genes as found on normal return - also for a reaction that has been removed "
        "from its model while its members stayed (the defect repaired by 14a80b8) - relative to the assumed contract of "
        "copy.deepcopy. Model.__setstate__ (the receiving end of deepcopy and pickle) is proved to install the state and to point "
        "every reaction, gene, metabolite and group of the restored lists at the restored model (loop invariants; groups were "
        "missing before d50da1c) and, when a solver came with the state, to leave every reaction's solver variables encoding its "
        "bounds (range lemma of C01 re-established by update_variable_bounds for each reaction; infinite bounds did not survive "
        "before fdf97f9), given distinct solver variables per reaction. Model.copy iterates over __dict__ of arbitrary objects and relies on "
        "copy/deepcopy and the solver's own deep copy; its separation property is not within the verifier's reach: bounded driver "
        "(snapshot equality of copy/deepcopy/pickle incl. the solver problem, then every edit and depth-2 edit sequence incl. in-place "
        "edits of notes/annotations applied to one side with the other side compared, reaction arithmetic operands unchanged)."),
        trusted=["copy.copy / copy.deepcopy / pickle (assumed)", "optlang: solver.configuration.tolerances is a function of the solver object; assigning a tolerance attribute stores the value there or raises AttributeError with nothing written (ghost predicate tol_supported); logger / interface_to_str opaque", "an exception inside deepcopy would leave the pointers cleared "
                 "(no try/finally in Reaction.copy): outside the contract's normal-return case"])


def replay(payload):
    return replay_with_driver("C12", payload)
