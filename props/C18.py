"""C18 — Medium get/set are inverse and a minimal medium is sufficient and minimal."""
from contracts import c18_medium as C
from props._generic import run_property, replay_with_driver

LEVEL = "other"
KEYS = ["medium.is_active", "medium.get_active_bound", "medium.set_active_bound", "add_linear_obj"]


def run(rep):
    run_property(rep, KEYS, lemmas=C.lemmas, explanation=(
        "Deductive (kernel): the three nested accessor functions of Model.medium are proved over an abstract exchange "
        "(has_reactants, has_products, lb, ub): is_active, get_active_bound (import bound by the direction of writing) and "
        "set_active_bound (sets exactly the import-side bound, leaves the export bound and every other reaction untouched; raises "
        "ValueError exactly when the value would cross the opposite bound - stated, not hidden). Four glue lemmas over those "
        "contracts (linear real arithmetic on extended reals, per exchange): a listed exchange reads back as given iff its value is "
        "positive, its export bound is untouched; an unlisted exchange ends with import closed, export bound untouched and bounds only "
        "tightened. minimal_medium.add_linear_obj (the LP formulation's objective) is proved, with a loop invariant over the exchange "
        "list, to put coefficient 1 on the IMPORT variable of every exchange (reverse variable of `met -->`, forward variable of "
        "`--> met`), to leave every other objective coefficient alone and to set the direction to min - i.e. the objective is the "
        "total import flux, as documented. The loops of the accessors over model.exchanges, add_mip_obj, minimal_medium's driver "
        "loop and the optimality of its answers are NOT proved: "
        "bounded driver (exchanges written both ways, sub-dictionaries, sufficiency and minimality against the exact LP / subset "
        "enumeration)."),
        trusted=["Reaction.reactants/products non-empty iff the reaction has negative/positive coefficients (assumed contracts)",
                 "find_boundary_types / model.exchanges (heuristics; assumed to return single-metabolite reactions of the model)",
                 "Objective.set_linear_coefficients (optlang, assumed)"])


def replay(payload):
    return replay_with_driver("C18", payload)
