"""C18 — Medium get/set are inverse and a minimal medium is sufficient and minimal."""
from contracts import c18_medium as C
from contracts import c18_mip as CMIP
from pyvc.contract import chain_hooks
from props._generic import run_property, replay_with_driver

LEVEL = "other"
KEYS = ["medium.is_active", "medium.get_active_bound", "medium.set_active_bound", "add_linear_obj", "add_mip_obj"]


def run(rep):
    run_property(rep, KEYS, hooks=chain_hooks(CMIP.HOOKS), lemmas=lambda: C.lemmas() + CMIP.lemmas(), explanation=(
        "Deductive (kernel): the three nested accessor functions of Model.medium are proved over an abstract exchange "
        "(has_reactants, has_products, lb, ub): is_active, get_active_bound (import bound by the direction of writing) and "
        "set_active_bound (sets exactly the import-side bound, leaves the export bound and every other reaction untouched; raises "
        "ValueError exactly when the value would cross the opposite bound - stated, not hidden). Four glue lemmas over those "
        "contracts (linear real arithmetic on extended reals, per exchange): a listed exchange reads back as given iff its value is "
        "positive, its export bound is untouched; an unlisted exchange ends with import closed, export bound untouched and bounds only "
        "tightened. minimal_medium.add_linear_obj (the LP formulation's objective) is proved, with a loop invariant over the exchange "
        "list, to put coefficient 1 on the IMPORT variable of every exchange (reverse variable of `met -->`, forward variable of "
        "`--> met`), to leave every other objective coefficient alone and to set the direction to min - i.e. the objective is the "
        "total import flux, as documented. minimal_medium.add_mip_obj (the MILP formulation 'least number of components') is proved on "
        "the unchanged source, for any number of exchanges, through the opaque optlang algebra (variables, rows and expressions are "
        "syntactic terms; `-`, `*` and Constraint(expr, ub=0) meaning expr <= 0 are optlang's) with a loop invariant over the exchange "
        "list: with M DEFINED (axiom; a finite non-empty list of extended reals has exactly one maximum) as the largest absolute value "
        "of any bound - lower and upper - of any exchange, the local big_m equals M (two-generator max(abs(b) ...) characterised by "
        "'every element <= m and some element = m'); the list handed to model.add_cons_vars, in one call, is exactly "
        "[ind(r0), row(r0), ind(r1), row(r1), ...] with ind(r) = Variable('ind_' + r.id, lb=0, ub=1, type='binary') and row(r) = "
        "Constraint(import_variable(r) - ind(r) * M, ub=0, name='ind_constraint_' + r.id), import_variable as above; then "
        "solver.update() and only then set_linear_coefficients: coefficient 1 on every indicator, every other coefficient unchanged, "
        "direction min; a model without exchanges raises ValueError (max of an empty sequence) - stated as a case, not hidden. Three "
        "lemmas (LRA, y binary, 0 <= v <= M): y = 0 forces v = 0, y = 1 admits every v up to M, v > 0 forces y = 1 - so the objective "
        "counts the active imports PROVIDED M bounds the import flux, which is why M must range over both bounds and absolute values. "
        "Not claimed: that M is finite (an infinite exchange bound makes big_m infinite - the term is then still the one stated), "
        "model.variables / model.problem are opaque (the size warning is dropped). The loops of the accessors over model.exchanges, "
        "minimal_medium's driver loop and the optimality of its answers are NOT proved: "
        "bounded driver (exchanges written both ways, sub-dictionaries, sufficiency and minimality against the exact LP / subset "
        "enumeration)."),
        trusted=["Reaction.reactants/products non-empty iff the reaction has negative/positive coefficients (assumed contracts)",
                 "find_boundary_types / model.exchanges (heuristics; assumed to return single-metabolite reactions of the model)",
                 "Objective.set_linear_coefficients (optlang, assumed; for add_mip_obj over opaque variable terms: sets exactly the "
                 "given coefficients)",
                 "add_mip_obj: find_boundary_types(model, 'exchange') is a function of the model (fixed-name list EX); "
                 "model.add_cons_vars / solver.update are recorded in a ghost trace, their effect on the solver is optlang's; "
                 "big-M spec constant M defined by axiom as max |bound| (existence: finite non-empty list; NaN excluded by A2)",
                 "opaque algebra (pyvc.npalg): optlang constructors and expression operators are pure functions of their arguments"])


def replay(payload):
    return replay_with_driver("C18", payload)
