"""C18 — Medium get/set are inverse and a minimal medium is sufficient and minimal."""
from contracts import c18_medium as C
from contracts import c18_mip as CMIP
from contracts import c18_medium_prop as CPROP
from contracts import c18_asmedium as CAM
from contracts import c18_minmedium as CMM
from contracts import c18_boundary as CB
from contracts import w_reaction_sides as WRS
from pyvc.contract import chain_hooks
from props._generic import run_property, replay_with_driver

LEVEL = "other"
KEYS = ["medium.is_active", "medium.get_active_bound", "medium.set_active_bound", "Model.medium@getter", "Model.medium@setter",
        "add_linear_obj", "add_mip_obj"]
AS_MEDIUM_KEYS = [CAM.KEY]
MINIMAL_MEDIUM_KEYS = [CMM.ALO, CMM.KEY]
BOUNDARY_KEYS = [CB.IBT, CB.FBT]


def run(rep):
    run_property(rep, KEYS, hooks=chain_hooks(CPROP.HOOKS, CMIP.HOOKS),
                 more=[(AS_MEDIUM_KEYS, CAM.HOOKS), (MINIMAL_MEDIUM_KEYS, CMM.HOOKS), (BOUNDARY_KEYS, CB.HOOKS),
                       (["Reaction.reactants@getter:body", "Reaction.products@getter:body"], WRS.HOOKS)],
                 lemmas=lambda: C.lemmas() + CPROP.lemmas() + CMIP.lemmas() + CB.lemmas() + CMM.lemmas(),
                 explanation=(
        "What the ghost flags has_reactants / has_products MEAN is proved on the real bodies of Reaction.reactants / Reaction.products "
        "(materialised reaction, stoichiometry dictionary of any size): a new list of exactly the metabolites with coefficient < 0 "
        "resp. > 0 (both inclusions, non-empty iff such a metabolite exists); for products under the stated precondition that no "
        "metabolite is stored with coefficient 0 - the body keeps v >= 0 where the documentation says > 0 (finding: after r *= 0 "
        "every metabolite is listed as a product). "
        "Deductive (kernel): the three nested accessor functions of Model.medium are proved over an abstract exchange "
        "(has_reactants, has_products, lb, ub): is_active, get_active_bound (import bound by the direction of writing) and "
        "set_active_bound (sets exactly the import-side bound, leaves the export bound and every other reaction untouched; raises "
        "ValueError exactly when the value would cross the opposite bound - stated, not hidden). Four glue lemmas over those "
        "contracts (linear real arithmetic on extended reals, per exchange): a listed exchange reads back as given iff its value is "
        "positive, its export bound is untouched; an unlisted exchange ends with import closed, export bound untouched and bounds only "
        "tightened. The property ITSELF is proved on top of these (the nested functions are applied by contract, not inlined), with "
        "EX = model.exchanges an assumed list of elements of model.reactions, each with exactly one non-empty side, that does not "
        "depend on bounds. Model.medium (getter, a dict comprehension): the returned dictionary has the id of every ACTIVE exchange "
        "as a key with its import bound (-lb for `met -->`, ub for `--> met`) as value - whenever that bound is finite: the "
        "containers of the encoding hold finite reals, an infinite import bound is outside the claim - and every key is the id of an "
        "active exchange; ids of members of a DictList are pairwise different, so no entry is overwritten; nothing is modified. "
        "Model.medium = m (setter; m: ids -> finite reals; precondition: model.reactions well-formed, every reaction with valid bounds "
        "and two distinct solver variables), two loop invariants (over the ghost enumeration of m.items(), and over the set "
        "difference exchange_rxns - frozen_media_rxns, which is shown to be exactly the unlisted exchanges, both directions): when "
        "every key is an id of the model and no value crosses an opposite bound, afterwards every reaction of the model whose id is "
        "a key - exchange or not - has its import-side bound set to the given value and its export-side bound untouched, every "
        "exchange that is NOT listed has its import-side bound set to min(0, -lb if it has reactants and no products else ub) (the "
        "closing that lemma unlisted-exchange-import-closed describes) and its export side untouched, and no other reaction is "
        "touched; a key that is no id of the model raises KeyError; a listed value, or the closing value of an unlisted exchange, "
        "that would cross the opposite bound raises ValueError (the bounds setter's raising case - stated, not hidden; lemma: for an "
        "unlisted exchange this happens exactly when it is FORCED to import, ub < 0 for `met -->` resp. lb > 0 for `--> met`); with "
        "both an unknown key and a crossing value it is KeyError or ValueError, whichever the iteration order meets first; what "
        "was changed before a raise is unspecified. Glue lemmas over the very post-conditions of the two contracts: "
        "get(set(m)) has exactly the keys k of m with m[k] > 0 whose reaction is an exchange, and reads every one back as given; the "
        "one-term call-site summary of get_active_bound follows from its proved cases. Not claimed for the setter: the solver-side "
        "variable bounds (C01, per bounds setter) and the logged warning. minimal_medium.add_linear_obj (the LP formulation's objective) is proved, with a loop invariant over the exchange "
        "list, to put coefficient 1 on the IMPORT variable of every exchange (reverse variable of `met -->`, forward variable of "
        "`--> met`), to leave every other objective coefficient alone and to set the direction to min - i.e. the objective is the "
        "total import flux, as documented. minimal_medium.add_mip_obj (the MILP formulation 'least number of components') is proved on "
        "the unchanged source, for any number of exchanges, through the opaque optlang algebra (variables, rows and expressions are "
        "syntactic terms; `-`, `*` and Constraint(expr, ub=0) meaning expr <= 0 are optlang's) with a loop invariant over the exchange "
        "list: with M DEFINED (axiom; a finite non-empty list of extended reals has exactly one maximum) as the largest absolute value "
        "of any bound - lower and upper - of any exchange, the local big_m equals M (two-generator max(abs(b) ...) characterised by "
        "'every element <= m and some element = m'); the list handed to model.add_cons_vars, in one call, is exactly "
        "[ind(r0), row(r0), ind(r1), row(r1), ...] with ind(r) = Variable('ind_' + r.id, lb=0, ub=1, type='binary') and row(r) = "
        "Constraint(import_variable(r) - ind(r) * M, ub=0, name='ind_constraint_' + r.id), import_variable as above; then "
        "solver.update() and only then set_linear_coefficients: coefficient 1 on every indicator, every other coefficient unchanged, "
        "direction min; a model without exchanges raises ValueError (max of an empty sequence) - stated as a case, not hidden. Three "
        "lemmas (LRA, y binary, 0 <= v <= M): y = 0 forces v = 0, y = 1 admits every v up to M, v > 0 forces y = 1 - so the objective "
        "counts the active imports PROVIDED M bounds the import flux, which is why M must range over both bounds and absolute values. "
        "Not claimed: that M is finite (an infinite exchange bound makes big_m infinite - the term is then still the one stated), "
        "model.variables / model.problem are opaque (the size warning is dropped). "
        "minimal_medium._as_medium is proved per exchange over a symbolic list (loop invariant; the pandas Series as the ordered mapping "
        "label -> value, assumed): with flux(r) the assumed Reaction.flux of the current solution and imp(r) = -flux(r) for an exchange "
        "with a reactant (`met -->`), flux(r) otherwise, the returned Series has the id of every exchange with |flux| >= tolerance and "
        "(exports or imp > 0) as a label with value imp(r), and every label is such an id (precondition: at most one reactant per "
        "exchange, pairwise different ids, finite tolerance) - import fluxes, by the direction of writing, export entries only on "
        "request. minimal_medium ITSELF is proved for the default branch (minimize_components False; open_exchanges False / True / a "
        "number >= 0) as data flow over a ghost trace of the calls with the state in force at each: everything happens inside ONE own "
        "context that is closed again on every exit, `return None` included; open_exchanges sets the bounds of exactly the exchanges to "
        "(-b, b) (b the number given, 1000 for True; loop invariant over the exchange list) and leaves every other reaction alone; "
        "exactly one constraint Constraint(<objective expression AT ENTRY>, lb=min_objective_value, name='medium_obj_constraint') - a "
        "lower bound only - goes through model.add_cons_vars in one call, followed by solver.update(), before the objective is replaced "
        "by Zero (assumed: no linear coefficients) and add_linear_obj is applied by its PROVED contract (re-proved over the fixed-name "
        "exchange list as add_linear_obj[EX]): in the state the ONE slim_optimize sees, the objective has coefficient 1 on the import "
        "variable of every exchange and 0 on every other variable, direction min, and the bounds are the opened (or entry) ones; None "
        "is returned EXACTLY when the status after that solve is not optimal, otherwise the Series is _as_medium(EX, feasibility "
        "tolerance, exports) by its proved contract over the fluxes of THAT solve, computed inside the context. For "
        "minimize_components=True (ONE medium; precondition: at least one exchange - without, add_mip_obj's ValueError case) the same "
        "context / opening / pin, then add_mip_obj by its PROVED contract restated for the call site (the rows handed to "
        "add_cons_vars, M the largest |bound| of the exchanges in force at that call, i.e. of the opened bounds; coefficient 1 on "
        "every indicator, 0 on every other variable term, direction min, in the state BOTH solves see), a first solve (None when "
        "not optimal), the still empty exclusion row Constraint(Zero, ub=0) through add_cons_vars + update, a second solve; None "
        "when the second status is not optimal or its value exceeds the first optimum (the code's numerical-instability exit), else "
        "_as_medium of the SECOND solve; five lemmas: the call-site form of add_mip_obj used there follows, conjunct by conjunct, from "
        "the post-condition proved for it. NOT proved: minimize_components = n > 1 (the loop collecting alternative media with the "
        "exclusion row over the union of the components seen) and the optimality of the solver's answers: bounded driver (exchanges "
        "written both ways, sub-dictionaries, sufficiency and minimality against the exact LP / subset enumeration). boundary_types.is_boundary_type is proved to BE the decision table (three "
        "boundary types; SBO(r) = upper-case `sbo` annotation, first entry of a list): SBO term of the type -> True whatever else "
        "holds, SBO term of another of the five types -> False, otherwise Reaction.boundary and no fragment of excludes[type] "
        "occurring ANYWHERE in the id (annotations.py documents prefixes; the code tests containment - stated as the code has it) and "
        "the external compartment among (exchange) / not among (demand, sink) the reaction's compartments and (demand) not reversible "
        "/ (sink) reversible; find_boundary_types returns [] when model.boundary is empty and otherwise, in the order of "
        "model.reactions, exactly the members the table accepts for the compartment given, else for the ONE value "
        "find_external_compartment returned (its RuntimeError propagates); the predicate handed to DictList.query is shown to be the "
        "table by executing the lambda on an arbitrary member. Lemmas: for `exchange` the decision reads no bound (the exchange list "
        "is the same before and after a change of bounds); an accepted reaction is a boundary reaction unless it carries the SBO term "
        "- the single-metabolite assumption of the assumed exchange lists concerns annotated reactions only."),
        trusted=["the abstraction step only: the ghost flags has_reactants / has_products / n_reactants / n_products of a symbolic reaction stand for the lists proved in contracts/w_reaction_sides.py (Reaction.reactants/products themselves are no longer assumed)",
                 "find_boundary_types / model.exchanges (heuristics; assumed to return single-metabolite reactions of the model)",
                 "Model.medium getter / setter: model.exchanges (assumed contract find_boundary_types[medium]) is a list of elements of "
                 "model.reactions, each with exactly one non-empty side (Reaction.boundary), and a function of the model structure - no "
                 "bound is read for boundary_type 'exchange' - hence the same list before and after the setter; WHICH reactions the "
                 "heuristic takes for exchanges is not verified",
                 "Model.medium: DictList.get_by_id under its C15 contract; medium values and read-back values are finite reals "
                 "(container encoding A2); Reaction bounds setters through set_active_bound's proved contract (C01)",
                 "Objective.set_linear_coefficients (optlang, assumed; for add_mip_obj over opaque variable terms: sets exactly the "
                 "given coefficients)",
                 "add_mip_obj: find_boundary_types(model, 'exchange') is a function of the model (fixed-name list EX); "
                 "model.add_cons_vars / solver.update are recorded in a ghost trace, their effect on the solver is optlang's; "
                 "big-M spec constant M defined by axiom as max |bound| (existence: finite non-empty list; NaN excluded by A2)",
                 "opaque algebra (pyvc.npalg): optlang constructors and expression operators are pure functions of their arguments",
                 "_as_medium: Reaction.flux (assumed getter: finite net flux of the current solution, ghost heap field renewed by every "
                 "solve); pandas Series as an ordered mapping (pd.Series() empty, s[label] = v, s[s > 0] keeps exactly the positive "
                 "entries)",
                 "minimal_medium: find_boundary_types[minimal_medium] (assumed: a fixed-name list of pairwise different reactions of the "
                 "model with pairwise different ids, one metabolite, two distinct solver variables each - the same list inside "
                 "add_linear_obj); `model.objective = Zero` installs an objective without linear coefficients, direction max (assumed; "
                 "reversibility of the setter: C03); Model.slim_optimize / Model.__enter__ / __exit__ / Reaction.bounds setter by their "
                 "proved C04 / C03 / C01 contracts; add_cons_vars / solver.update recorded, their solver-side effect is optlang's; the "
                 "context exit's reverting of bounds / constraint / objective is C03 / C13, not replayed in this heap model",
                 "boundary_types: reaction.annotation.get('sbo', '') (a string or a non-empty list: ghost), str.upper and substring "
                 "test as uninterpreted functions, Reaction.compartments as a ghost relation, Reaction.boundary (C17 ghost flag), "
                 "find_external_compartment (returns a string or raises RuntimeError), DictList.query(callable) as an order-preserving "
                 "filter; the tables sbo_terms / excludes are copied from annotations.py and compared with the source at import"])


def replay(payload):
    return replay_with_driver("C18", payload)
