"""C19 — Blocked-reaction and consistency analyses agree with the true flux ranges."""
from contracts import misc_small, c05_fva as C5  # noqa
from contracts import c19_blocked as C19
from contracts import c19_fastcc as CF
from pyvc.contract import chain_hooks
from props._generic import run_property, replay_with_driver

LEVEL = "other"
KEYS = ["normalize_cutoff", "_fva_step", "find_blocked_reactions"]
FASTCC_KEYS = ["_find_sparse_mode", "_flip_coefficients", "Reaction.reversibility@getter", "fastcc"]


def run(rep):
    run_property(rep, KEYS, hooks=chain_hooks(C5.HOOKS, C19.HOOKS), more=[(FASTCC_KEYS, CF.HOOKS)], lemmas=CF.lemmas, explanation=(
        "Deductive part: normalize_cutoff (the threshold both analyses compare fluxes with) is proved against its decision table "
        "(None -> model tolerance; below tolerance -> ValueError; otherwise the given value); the FVA step is proved to optimise "
        "exactly the requested reaction's net flux and to leave the objective as found (C05 kernel); find_blocked_reactions is "
        "proved as a data-flow statement for every model size and argument shape: inside its own context (closed again), when "
        "open_exchanges is set every exchange is widened to (min(lb,-1000), max(ub,1000)) and no other reaction is touched (loop "
        "invariant) BEFORE the pre-filter solution and FVA are computed; the candidates handed to FVA are the requested reactions "
        "whose flux in one solution is below the normalised cutoff in absolute value; the objective is replaced by Zero before FVA "
        "runs; FVA runs at fraction_of_optimum 0.0 on exactly those candidates; the answer is the index of the rows whose largest "
        "absolute range end is below the cutoff. The pandas operations are uninterpreted (opaque algebra), flux_variability_analysis "
        "and get_solution are abstract calls: that FVA's ranges are TRUE is C05. The FASTCC iteration (correctness is the paper's "
        "theorem, not a per-function contract) and GLPK are NOT proved: bounded driver (returned id list / model against exact FVA "
        "at fraction 0 on generated models with dead ends, isolated cycles, blocked branches; fastcc result has no blocked reaction "
        "and exactly the non-blocked ones with unchanged stoichiometry, bounds and rule). "
        "fastcc.py, for every number of listed reactions and every model size (optlang objects as syntactic terms): _find_sparse_mode "
        "hands exactly [aux(r0), row(r0), aux(r1), row(r1), ...] to model.add_cons_vars in one call, aux(r) = Variable('auxiliary_'+id, "
        "lb=0, ub=flux_threshold), row(r) = Constraint(forward + reverse - aux, name='constraint_'+id, lb=0); then replaces the objective "
        "by Objective(Zero, sloppy=True) (direction max) with coefficient 1 on every auxiliary and 0 elsewhere, solves once, and returns "
        "exactly the reactions of the MODEL with |primal(forward) - primal(reverse)| > zero_cutoff in that solution (model order, each once); "
        "an empty list returns [] without any call on the model; OptimizationError when the solve raises or ends without primal values; "
        "it opens no context of its own (the caller's `with model` reverts what is added). The row is what the code BUILDS, not the "
        "documented v_i >= z_i: lemmas prove it equal to the documented row when the reaction cannot run backwards (lb >= 0), equal to "
        "-v_i >= z_i when backward only, a relaxation of the documented row in general, and - DEVIATION lemmas, the root of the open "
        "finding fastcc-drops-reversible - that for a reversible reaction forward = reverse = z/2 satisfies it with zero net flux (full "
        "reward eps when eps <= 2 min(ub, -lb)), and that the flipped row -forward - reverse - z >= 0 pins forward = reverse = z = 0. "
        "_flip_coefficients (listed reactions pairwise different, rows / auxiliaries exist): in the row of every listed reaction every "
        "coefficient except the auxiliary's is negated, every other row is untouched (loop invariant), then EVERY objective coefficient is "
        "negated and the direction is not touched; glue lemma over that post-condition: applying it twice is the identity. "
        "fastcc, the skeleton (helpers applied by these contracts at their call sites; Reaction.reversibility proved to be lb < 0 < ub and "
        "used as that term in the filter of the irreversible list): works on the ARGUMENT model and only inside "
        "contexts - every helper call and the one model.optimize(min) (the builtin min is not a documented sense: direction stays max) "
        "are made with exactly one own context open, the stack is as at entry between iterations, at model.copy(), on return and when "
        "a solve raises; loop invariant: the kept list is one list that only grows, holds reactions of the model, each answered by some "
        "_find_sparse_mode call (ghost set), the list handed to _flip_coefficients has pairwise different ids; the last-iteration branch "
        "appends exactly the reactions labelled by fluxes.index[|fluxes| > cutoff] of the post-flip solution; final construction: "
        "model.copy() once after the loop, remove_reactions(ids, remove_orphans=True) on THE COPY with ids = exactly the ids of the "
        "model's reactions outside A = set(kept), the copy is returned, the argument's reaction list / bounds are as at entry. NOT "
        "proved: that A is the non-blocked set (FASTCC theorem; fails for reversible reactions: open finding), loop termination."),
        trusted=["GLPK (assumed, monitored)", "pandas elementwise semantics (uninterpreted operations)",
                 "model.exchanges / find_boundary_types returns a list of reactions (assumed; the heuristic itself is not verified)",
                 "flux_variability_analysis, get_solution, the objective setter as abstract calls (C05 / C04 / C03 cover them)", "FASTCC algorithm (Vlassis et al.)",
                 "optlang Constraint / Objective get_linear_coefficients / set_linear_coefficients read / write exactly the given coefficients; "
                 "`.variables` holds every variable with a non-zero coefficient; constraints.get / variables.get find the named object; a "
                 "fresh Objective has direction max (assumed)",
                 "Reaction.flux = primal(forward) - primal(reverse) behind check_solver_status (getter modelled in the hooks, not re-verified)",
                 "fastcc: Model.copy / remove_reactions as recorded calls (C12 / C02); the labels of solution.fluxes are ids of reactions "
                 "of the model (get_solution, C04); rows named after reactions with different ids are different objects (assumed)"])


def replay(payload):
    return replay_with_driver("C19", payload)
