"""C19 — Blocked-reaction and consistency analyses agree with the true flux ranges."""
from contracts import misc_small, c05_fva as C5  # noqa
from contracts import c19_blocked as C19
from pyvc.contract import chain_hooks
from props._generic import run_property, replay_with_driver

LEVEL = "other"
KEYS = ["normalize_cutoff", "_fva_step", "find_blocked_reactions"]


def run(rep):
    run_property(rep, KEYS, hooks=chain_hooks(C5.HOOKS, C19.HOOKS), explanation=(
        "Deductive part: normalize_cutoff (the threshold both analyses compare fluxes with) is proved against its decision table "
        "(None -> model tolerance; below tolerance -> ValueError; otherwise the given value); the FVA step is proved to optimise "
        "exactly the requested reaction's net flux and to leave the objective as found (C05 kernel); find_blocked_reactions is "
        "proved as a data-flow statement for every model size and argument shape: inside its own context (closed again), when "
        "open_exchanges is set every exchange is widened to (min(lb,-1000), max(ub,1000)) and no other reaction is touched (loop "
        "invariant) BEFORE the pre-filter solution and FVA are computed; the candidates handed to FVA are the requested reactions "
        "whose flux in one solution is below the normalised cutoff in absolute value; the objective is replaced by Zero before FVA "
        "runs; FVA runs at fraction_of_optimum 0.0 on exactly those candidates; the answer is the index of the rows whose largest "
        "absolute range end is below the cutoff. The pandas operations are uninterpreted (opaque algebra), flux_variability_analysis "
        "and get_solution are abstract calls: that FVA's ranges are TRUE is C05. The FASTCC iteration (correctness is the paper's "
        "theorem, not a per-function contract) and GLPK are NOT proved: bounded driver (returned id list / model against exact FVA "
        "at fraction 0 on generated models with dead ends, isolated cycles, blocked branches; fastcc result has no blocked reaction "
        "and exactly the non-blocked ones with unchanged stoichiometry, bounds and rule)."),
        trusted=["GLPK (assumed, monitored)", "pandas elementwise semantics (uninterpreted operations)",
                 "model.exchanges / find_boundary_types returns a list of reactions (assumed; the heuristic itself is not verified)",
                 "flux_variability_analysis, get_solution, the objective setter as abstract calls (C05 / C04 / C03 cover them)", "FASTCC algorithm (Vlassis et al.)"])


def replay(payload):
    return replay_with_driver("C19", payload)
