"""C19 — Blocked-reaction and consistency analyses agree with the true flux ranges."""
from contracts import misc_small, c05_fva as C5  # noqa
from props._generic import run_property, replay_with_driver

LEVEL = "other"
KEYS = ["normalize_cutoff", "_fva_step"]


def run(rep):
    run_property(rep, KEYS, hooks=C5.HOOKS, explanation=(
        "Deductive part is thin and stated as such: normalize_cutoff (the threshold both analyses compare fluxes with) is proved "
        "against its decision table (None -> model tolerance; below tolerance -> ValueError; otherwise the given value) and the FVA "
        "step that find_blocked_reactions is built on is proved to optimise exactly the requested reaction's net flux and to leave "
        "the objective as found (C05 kernel). The pandas filtering of find_blocked_reactions, the FASTCC iteration (correctness is "
        "the paper's theorem, not a per-function contract) and GLPK are NOT proved: bounded driver (returned id list / model against "
        "exact FVA at fraction 0 on generated models with dead ends, isolated cycles, blocked branches; fastcc result has no blocked "
        "reaction and exactly the non-blocked ones with unchanged stoichiometry, bounds and rule)."),
        trusted=["GLPK (assumed, monitored)", "pandas elementwise semantics", "FASTCC algorithm (Vlassis et al.)"])


def replay(payload):
    return replay_with_driver("C19", payload)
