"""C05 — Flux variability analysis reports the true flux ranges."""
from contracts import c15_dictlist, c04_status, c05_fva as C  # noqa
from contracts import c09_pfba as CP
from pyvc.contract import chain_hooks
from props._generic import run_property, replay_with_driver

LEVEL = "other"
KEYS = ["_fva_step", "check_solver_status", "Model.slim_optimize", "add_pfba"]


def run(rep):
    run_property(rep, KEYS, hooks=chain_hooks(C.HOOKS, CP.HOOKS), lemmas=CP.lemmas, explanation=(
        "Deductive (kernel): _fva_step is proved, for every model and reaction id, to solve the current LP with +1*forward -1*reverse of "
        "the requested reaction added to the objective, to return (requested id, solver objective value), and to leave EVERY "
        "objective coefficient as at entry on normal return (given both were 0 at entry, which the sweep's prelude establishes) - "
        "the frame that makes FVA steps independent of each other; unknown ids raise KeyError with nothing changed; add_pfba, from which "
        "the total-flux cap of pfba_factor is derived, is proved to put coefficient 1 on the forward AND reverse variable of EVERY "
        "reaction (C09 kernel + lemmas: the objective is the total absolute flux). The prelude's "
        "constraints (fraction of optimum, pfba_factor), the pool fan-out, the loopless post-processing and GLPK's optimality are "
        "NOT proved: bounded driver (ranges against exact rational min/max of the documented problem; loopless against brute force)."),
        trusted=["optlang Objective.set_linear_coefficients (assumed contract)", "GLPK optimize (assumed, monitored)",
                 "DictList.get_by_id contract (proved under C15)"])


def replay(payload):
    return replay_with_driver("C05", payload)
