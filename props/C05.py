"""C05 — Flux variability analysis reports the true flux ranges."""
from contracts import c15_dictlist, c04_status, c05_fva as C  # noqa
from contracts import c09_pfba as CP
from contracts import c05_fva_driver as CD
from contracts import c14_fva_pool as CPOOL
from contracts import c17_fva_iter as FI
from pyvc.contract import chain_hooks
from props._generic import run_property, replay_with_driver

LEVEL = "other"
KEYS = ["_fva_step", "check_solver_status", "Model.slim_optimize", "add_pfba"]


def run(rep):
    run_property(rep, KEYS, hooks=chain_hooks(C.HOOKS, CP.HOOKS), lemmas=lambda: CP.lemmas() + FI.lemmas(),
                 more=[(["_init_worker", "flux_variability_analysis"], CD.HOOKS),
                       (["flux_variability_analysis@pool"], CPOOL.HOOKS),
                       ([FI.KEY], FI.HOOKS), ([FI.STEP_KEY], FI.STEP_HOOKS)], explanation=(
        "Deductive (kernel): _fva_step is proved, for every model and reaction id, to solve the current LP with +1*forward -1*reverse of "
        "the requested reaction added to the objective, to return (requested id, solver objective value), and to leave EVERY "
        "objective coefficient as at entry on normal return (given both were 0 at entry, which the sweep's prelude establishes) - "
        "the frame that makes FVA steps independent of each other; unknown ids raise KeyError with nothing changed; add_pfba, from which "
        "the total-flux cap of pfba_factor is derived, is proved to put coefficient 1 on the forward AND reverse variable of EVERY "
        "reaction (C09 kernel + lemmas: the objective is the total absolute flux). flux_variability_analysis ITSELF is proved for "
        "the serial, non-loopless path, for all reactions or a given reaction_list, with and without pfba_factor (loop invariant over "
        "the requested reaction ids, both sweeps): "
        "the model is optimised first; ONE variable fva_old_objective, bounded by fraction_of_optimum x optimum from below for a "
        "maximisation model and from above for a minimisation model, is tied to the old objective expression by an equality "
        "constraint and both are added in one call; the objective is replaced by Zero; the direction is min in the first sweep and "
        "max in the second (_init_worker, proved); in each sweep, for EVERY reaction the LP solved has exactly +1 forward -1 reverse "
        "of that reaction as objective (contract of _fva_step at the call site inside map()) and the value stored under (id, "
        "minimum / maximum) is the value of that solve; all coefficients are 0 again after every step; the function's context is "
        "closed again; with pfba_factor: add_pfba (proved, C09) is called with the SAME fraction (repair 1766950) inside an inner "
        "context, the parsimonious problem is solved, flux_sum <= pfba_factor x that minimum is tied to the total-flux expression "
        "by an equality and both are added AFTER the inner context has been left (in the function's own context). With the "
        "assumption that an `optimal` answer of the solver is a true optimum this is the statement for that path. The SAME "
        "post-condition is proved for ANY `processes` (int or None -> configuration.processes), i.e. also for the PARALLEL branch "
        "(contracts/c14_fva_pool.py), against an assumed contract of the pool (imap_unordered yields every task's result once in an "
        "arbitrary order - ghost permutation -, workers initialised by _init_worker on a copy of the prepared model; that earlier "
        "tasks of a worker do not matter follows from _fva_step's proved frame): for every requested id the stored minimum / maximum "
        "is the value of the +forward -reverse solve of that reaction in direction min / max, nothing is stored under another key, "
        "one pool per sweep with exactly (min(processes, n), _init_worker, (model, loopless, sense)), chunksize = n // processes >= 1, "
        "pool left again. "
        "The loopless post-processing is under contract as far as it can be: loopless_fva_iter (contracts/c17_fva_iter.py; zero_cutoff "
        "None, `current` finite, bounds valid) - bookkeeping as a ghost trace and the frame on every exit, see C17 - and _fva_step with "
        "the global _loopless = True (key _fva_step@loopless, the same real body): after the +1 forward / -1 reverse solve and the status "
        "check loopless_fva_iter(_model, rxn) is called ONCE with exactly these arguments in that state (its precondition obliged), its "
        "result is the value returned under the requested id, every objective coefficient is as at entry afterwards and bounds, direction "
        "and context stack are as at entry on every exit. `Loopless ranges lie inside the plain ones` is proved as lemmas over that "
        "contract: the last solve of loopless_fva_iter is a solve of the ENTRY problem whose bounds are the entry bounds or, for the "
        "closed reactions, (max(0,lb), min(0,ub)) - which lie within (lb, ub) and force flux 0 -, hence, ASSUMING the solver contract "
        "(the plain optimum `current` bounds the objective over the plain feasible set; a solve's answer is feasible for its own bounds), "
        "a maximum returned is <= current and a minimum >= current; on the two early returns the value IS current. "
        "The pool itself (C14), that the loopless value is the TRUE cycle-free extreme (known finding loopless-fva-too-narrow) and "
        "GLPK's optimality are NOT proved: bounded driver (ranges against exact rational min/max of the documented problem; loopless "
        "against brute force)."),
        trusted=["optlang Objective.set_linear_coefficients (assumed contract)", "an optimal LP has a finite optimum (in the assumed optimize contract)",
                 "pandas / numpy / optlang constructors as uninterpreted operations; model.add_cons_vars and the objective setter as recorded calls", "GLPK optimize (assumed, monitored)",
                 "DictList.get_by_id contract (proved under C15)",
                 "loopless_fva_iter / _fva_step@loopless: leaving `with model:` restores bounds, coefficients and direction (C03 / C13 A1); objective.value is a finite float after a solve whose status passes check_solver_status (GLPK: c.x of the stored primal values); reaction.flux / get_solution as in C04; the two restricted-optimum lemmas ASSUME the solver contract they name",
                 "multiprocessing.Pool as the assumed contract Pool.imap_unordered (every result once, arbitrary order, private copies)"])


def replay(payload):
    return replay_with_driver("C05", payload)
