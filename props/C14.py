"""C14 — Results do not depend on process count, scheduling or item order."""
from contracts import c05_fva as C5
from contracts import c06_deletion as C6
from pyvc.contract import chain_hooks
from contracts import c05_fva_driver as CD
from props._generic import run_property, replay_with_driver

LEVEL = "other"
KEYS = ["_fva_step", "_reaction_deletion", "_gene_deletion", "_get_growth"]


def run(rep):
    run_property(rep, KEYS, hooks=chain_hooks(C5.HOOKS, C6.HOOKS_G, C6.HOOKS_GG),
                 more=[(["deletion._init_worker", "_reaction_deletion_worker", "_gene_deletion_worker"], C6.HOOKS_W),
                       (["_init_worker"], CD.HOOKS)], explanation=(
        "Contracts cannot speak about schedules; they remove the need to: what is proved is that each task is a function of (worker "
        "state at task entry, item) and hands the worker back in the state it found it. _fva_step: the LP is solved with exactly the "
        "requested reaction's +forward -reverse added, the returned pair is (requested id, solver value), and every objective "
        "coefficient is as at entry on return; _reaction_deletion: growth/status are read with exactly the listed reactions at (0,0) "
        "and all other bounds as at entry, the function's own context is closed again (its undo history replayed); _gene_deletion "
        "likewise with the gene-level effect of C07; _get_growth never "
        "reports a value for a non-optimal solve (NaN), so no stale solver value can leak from a previous task (the defect found here "
        "by the bounded tier, repaired in /repo). The tasks AS THE POOL RUNS THEM are under contract too: the initialisers store the "
        "worker's private model in the module global (and, for FVA, set the sweep's direction), and _reaction_deletion_worker / "
        "_gene_deletion_worker call the proved function on that model with exactly the task's ids and return its result unchanged. "
        "By induction over a worker's task sequence every task then sees the initial state; "
        "results are keyed by id. The Pool itself, OS scheduling, chunking and completion order are outside any sequential contract "
        "language: bounded driver (processes 1-8, permutations, chunk sizes, seeded per-task delays injected into the workers, "
        "single-item calls, exact oracle; reproducibility of parallel sampling)."),
        trusted=["multiprocessing.Pool: each task runs once in a worker initialised on a private copy; imap_unordered yields every "
                 "result once; map is ordered", "fork semantics", "C03 (undo actions restore the model)"])


def replay(payload):
    return replay_with_driver("C14", payload)
