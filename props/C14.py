"""C14 — Results do not depend on process count, scheduling or item order."""
from contracts import c05_fva as C5
from contracts import c06_deletion as C6
from pyvc.contract import chain_hooks
from contracts import c05_fva_driver as CD
from contracts import c14_fva_pool as CP
from contracts import c14_essential as CE
from contracts import c16_samplers as CX
from contracts import c06_multi_deletion as CM
from props._generic import run_property, replay_with_driver

LEVEL = "other"
KEYS = ["_fva_step", "_reaction_deletion", "_gene_deletion", "_get_growth"]


def run(rep):
    run_property(rep, KEYS, hooks=chain_hooks(C5.HOOKS, C6.HOOKS_G, C6.HOOKS_GG),
                 more=[(["deletion._init_worker", "_reaction_deletion_worker", "_gene_deletion_worker"], C6.HOOKS_W),
                       (["_init_worker"], CD.HOOKS), (["flux_variability_analysis@pool"], CP.HOOKS),
                       (["find_essential_genes", "find_essential_reactions"], CE.HOOKS),
                       (["mp_init", "_sample_chain"], CX.HOOKS_C), (["OptGPSampler.sample"], CX.HOOKS_O),
                       (["_multi_deletion", "_entities_ids", "_element_lists"], CM.HOOKS), (list(CM.WRAPPERS), CM.HOOKS_W)],
                 lemmas=lambda: CP.lemmas() + CM.lemmas(), explanation=(
        "Contracts cannot speak about schedules; they remove the need to: what is proved is that each task is a function of (worker "
        "state at task entry, item) and hands the worker back in the state it found it. _fva_step: the LP is solved with exactly the "
        "requested reaction's +forward -reverse added, the returned pair is (requested id, solver value), and every objective "
        "coefficient is as at entry on return; _reaction_deletion: growth/status are read with exactly the listed reactions at (0,0) "
        "and all other bounds as at entry, the function's own context is closed again (its undo history replayed); _gene_deletion "
        "likewise with the gene-level effect of C07; _get_growth never "
        "reports a value for a non-optimal solve (NaN), so no stale solver value can leak from a previous task (the defect found here "
        "by the bounded tier, repaired in /repo). The tasks AS THE POOL RUNS THEM are under contract too: the initialisers store the "
        "worker's private model in the module global (and, for FVA, set the sweep's direction), and _reaction_deletion_worker / "
        "_gene_deletion_worker call the proved function on that model with exactly the task's ids and return its result unchanged. "
        "By induction over a worker's task sequence every task then sees the initial state; "
        "results are keyed by id. flux_variability_analysis is proved for ANY `processes` (an int, or None -> configuration.processes; "
        "serial and PARALLEL branch, max / min model, all reactions / a list, with / without pfba_factor) against an ASSUMED contract of "
        "the pool: imap_unordered(f, items, chunksize >= 1) yields the results f(x) of every item exactly once in an ARBITRARY order "
        "- a ghost permutation of [0, n) given with its inverse (bijection axioms), standing for the number of workers, the chunking "
        "and the completion order - each evaluated in a worker that ran initializer(*initargs) on its own copy of the prepared model "
        "and then any number of earlier tasks. That earlier tasks do not matter is NOT assumed: it is the modifies clause and the last "
        "clause of _fva_step's proved post-condition (every objective coefficient as at entry; lemma worker-state-invariant), and "
        "_fva_step's precondition is an obligation in the worker state. Proved with a loop invariant over the ARRIVAL index: for "
        "EVERY requested id the stored minimum / maximum is exactly the value _fva_step returns for that id in a worker whose "
        "direction is min / max (the very post-condition of the serial cases of C05, hence independent of the permutation, of "
        "`processes` and of the chunk size); nothing is stored under a key that is not a requested id; the pool is used exactly "
        "when min(processes, n) > 1, one pool per sweep created with exactly (min(processes, n), initializer=_init_worker, "
        "initargs=(model, loopless, 'min' / 'max')) AFTER the constraints were added and the objective zeroed, one imap_unordered "
        "(_fva_step, the requested ids in request order, chunksize = n // processes, proved >= 1), and the pool is left again also "
        "when a task raises; the parent's model is untouched by the sweeps. Glue lemmas over the post-conditions: serial == "
        "parallel for every id, and the value for an id in a list request == the value in the one-element request [id], both under "
        "the hypothesis that the same LP (coefficients, direction, prepared model) has the same optimal value (C04). "
        "find_essential_genes / find_essential_reactions (threshold None / given, processes None / int): threshold None -> 0.01 x the "
        "optimum of a first solve; ONE recorded call of single_gene_deletion / single_reaction_deletion with exactly (model, "
        "method='fba', processes=<the caller's, unchanged>); the Series iterated is exactly D.loc[D['growth'].isna() | (D['growth'] < "
        "threshold), :].ids (data flow through the opaque algebra); the returned set is exactly the entities named by its entries, "
        "and - with the ASSUMED row-wise semantics of isna / < / | / .loc and the assumed frame shape (one row per entity, ids = "
        "{id}, ids known to the model) - exactly the entities with a row whose growth is NaN or below the threshold (both inclusions). "
        "_multi_deletion (single / double gene / reaction deletion, all five methods) is proved for ANY `processes` against the same "
        "assumed pool contract (plus assumed contracts for product / frozenset - a finite set C of combination identities with a "
        "ghost enumeration - and for the lazy ordered map; the per-combination call of the deletion function is a recorded call "
        "with the frame of its proved contract): processes = min(processes or configuration.processes, len(C)), the pool is used "
        "exactly when that is > 1, with chunksize = len(C) // processes proved >= 1; in BOTH branches the frame has exactly one row "
        "per combination of C, the row of c holds exactly (set(c), growth, status) the deletion function returned for c - stated "
        "through the inverse permutation (loop invariant over the arrival index), hence independent of the completion order, of "
        "`processes` and of the chunk size -, every row belongs to a combination, nothing occurs twice, and the deletion function "
        "(through the proved worker contract on the worker's copy of the model) is called exactly once per combination; the pool "
        "is left again also when a task raises. Glue lemmas over that post-condition: serial == parallel for every combination, "
        "and the row of c in a request over C == the row in the one-element request {c}, under `same combination -> same result "
        "of the deletion function`. The four public wrappers pass processes (and everything else) through unchanged. "
        "The Pool itself, OS scheduling and pickling are outside any sequential contract "
        "language: bounded driver (processes 1-8, permutations, chunk sizes, seeded per-task delays injected into the workers, "
        "single-item calls, exact oracle; reproducibility of parallel sampling). "
        "Parallel sampling (contracts/c16_samplers.py, opaque array algebra + exact integers; n >= 0, processes >= 1, thinning >= 1, nproj >= 1): "
        "optgp._sample_chain((n, idx)) reseeds np.random exactly once with (seed + idx) % (2**31 - 1) BEFORE any draw, reads only sampler "
        "fields and writes none but `retries` (centre and n_samples are updated locally), returns (retries, the n x . array whose row r was "
        "written when the step counter was 1 + (r+1)*thinning with a point that passed the guard of step() or is a _random_point) - so a "
        "chain is a function of (sampler fields, n, idx, the generator seeded with seed + idx); OptGPSampler.sample against the ASSUMED "
        "ordered-map contract Pool.map: one pool (processes, mp_init, (self,)), one map(_sample_chain, [(ceil(n/processes), j) for j < "
        "processes]) - the task precondition obliged for an arbitrary j in the worker state mp_init's proved contract leaves -, chains "
        "stacked in index order, n <= rows returned = ceil(n/processes)*processes < n + processes, n_samples / centre / retries updated "
        "with the numbers ACTUALLY generated; processes = 1: mp_init(self) + _sample_chain((n, 0)) in process."),
        trusted=["multiprocessing.Pool: each task runs once in a worker initialised on a private copy; imap_unordered yields every "
                 "result once in an arbitrary order (assumed contract Pool.imap_unordered, ghost permutation); map is ordered "
                 "(assumed contract Pool.map)", "float division n / processes and np.ceil are exact (operands below 2**53)",
                 "np.random draws are a deterministic function of the last seed and the draw sequence",
                 "fork semantics (a worker's copy is isomorphic to the parent's model at pool creation)",
                 "C03 (undo actions restore the model)", "the same LP has the same optimal value (hypothesis of the result lemmas; C04)",
                 "pandas DataFrame.at[key, column] = value writes exactly that cell (recorded per column)",
                 "single_gene_deletion / single_reaction_deletion as recorded calls returning a frame with one row per entity, ids = {id} "
                 "of a gene / reaction of the model (assumed)", "row-wise semantics of Series.isna, <, |, DataFrame.loc[mask, :] "
                 "(assumed contract pandas.rowwise)",
                 "itertools.product / frozenset / set as a finite set of opaque combination identities with a ghost enumeration (assumed "
                 "contract itertools.product+frozenset)", "map is lazy and ordered (assumed contract builtins.map)",
                 "_reaction_deletion / _gene_deletion on a frozenset of ids as a recorded call with the frame of its proved contract "
                 "(assumed contract deletion-call)", "add_moma / add_room as recorded calls that may raise (proved under C09)",
                 "the same combination has the same deletion result (hypothesis of the _multi_deletion glue lemmas; C04 / C06 kernel)"])


def replay(payload):
    return replay_with_driver("C14", payload)
