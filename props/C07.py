"""C07 — Knocking out genes disables exactly the reactions whose rule becomes false."""
from contracts import c07_knockout as C
from contracts import c01_lp  # noqa
from props._generic import run_property, replay_with_driver

LEVEL = "other"
KEYS = ["GPR._eval_gpr", "GPR.eval", "Reaction.functional@getter", "Gene.functional@setter", "Gene.knock_out", "Reaction.knock_out",
        "Reaction.bounds@setter"]


def run(rep):
    run_property(rep, KEYS, hooks=C.HOOKS, explanation=(
        "Deductive: GPR._eval_gpr is proved equal to the Boolean and/or semantics sem(rule, absent genes) for every well-formed rule "
        "tree by structural induction (recursive calls use the function's own contract), GPR.eval and Reaction.functional follow "
        "(functional = sem(rule, ids of the reaction's non-functional genes), True without a model), and Gene.knock_out is proved, "
        "with a loop invariant over the gene's reactions in any iteration order, to mark the gene non-functional and to set bounds "
        "(0,0) on exactly those of its reactions whose rule is then false, leaving every other reaction and gene untouched; "
        "Reaction.knock_out zeroes exactly its own bounds. knock_out_model_genes and the any-order/together lemma are not proved: "
        "bounded driver (exhaustive rule trees x gene subsets x orders x entry points against an independent truth-table evaluator)."),
        trusted=["set comprehension / any / all semantics as axiomatised", "rule trees are finite and acyclic (well-formedness precondition)"])


def replay(payload):
    return replay_with_driver("C07", payload)
