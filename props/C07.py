"""C07 — Knocking out genes disables exactly the reactions whose rule becomes false."""
from contracts import c07_knockout as C
from contracts import c01_lp  # noqa
from contracts import c15_get_by_any as GBA
from props._generic import run_property, replay_with_driver

LEVEL = "other"
KEYS = ["GPR._eval_gpr", "GPR.eval", "Reaction.functional@getter", "Gene.functional@setter", "Gene.knock_out", "Reaction.knock_out",
        "Reaction.bounds@setter", "knock_out_model_genes"]


def run(rep):
    run_property(rep, KEYS, hooks=C.HOOKS, more=[(GBA.KEYS, GBA.HOOKS)], explanation=(
        "DictList.get_by_any (the look-up behind knock_out_model_genes' gene_list; an assumed contract until round 5) is proved against "
        "its body per argument shape: a single int / str / object gives the NEW one-element list of self[i] / the member registered "
        "under the id / the object itself, IndexError / KeyError / TypeError otherwise; a list of ints / strs / objects whose items are "
        "all acceptable gives the NEW list of the look-ups in order; nothing is written. For object items the result consists of "
        "MEMBERS only under the stated hypothesis that each object is the member registered under its id: `item in self` compares "
        "identifiers, so a foreign object carrying a member's id is passed through (finding: knock_out_model_genes(m, "
        "[copy_of_m.genes[0]]) switches off the copy's gene and leaves m untouched). The abstract contract the callers use stays as it "
        "is; it is implied by the proved one for int / str items and, under that hypothesis, for object items. "
        "Deductive: GPR._eval_gpr is proved equal to the Boolean and/or semantics sem(rule, absent genes) for every well-formed rule "
        "tree by structural induction (recursive calls use the function's own contract), GPR.eval and Reaction.functional follow "
        "(functional = sem(rule, ids of the reaction's non-functional genes), True without a model), and Gene.knock_out is proved, "
        "with a loop invariant over the gene's reactions in any iteration order, to mark the gene non-functional and to set bounds "
        "(0,0) on exactly those of its reactions whose rule is then false, leaving every other reaction and gene untouched; "
        "Reaction.knock_out zeroes exactly its own bounds. knock_out_model_genes (the entry point for SETS of genes) is proved with a "
        "loop invariant over the resolved gene list: afterwards exactly the listed genes have become non-functional and a reaction has "
        "bounds (0,0) exactly when it belongs to a listed gene and its rule is false with all its non-functional genes absent (every "
        "other reaction keeps its bounds), and the returned list contains exactly those reactions - a statement about the SET of "
        "listed genes, hence the same for every order and for one call or several. The proof uses the cross-reference invariant "
        "(g in genes(r) <=> r in reactions(g), C02) as precondition and the monotonicity of the and/or semantics (more absent genes "
        "never turn a rule true), proved by structural induction whose step is the obligation sem-monotone/induction-step. "
        "model.genes.get_by_any is an assumed contract; _gene_deletion / delete_model_genes and the composition with contexts are "
        "not proved: bounded driver (exhaustive rule trees x gene subsets x orders x entry points against an independent truth-table "
        "evaluator)."),
        lemmas=C.mono_lemmas,
        trusted=["set comprehension / any / all semantics as axiomatised", "DictList.get_by_any in its abstract form (a new list of non-None members; may raise): implied by the PROVED body contract for int / str items and for object items that are the members registered under their ids - for a foreign object with a member's id it does NOT hold (finding); lists with an unacceptable item (raising inside the comprehension) are not covered by the body proof", "rule trees are finite and acyclic (well-formedness precondition)"])


def replay(payload):
    return replay_with_driver("C07", payload)
