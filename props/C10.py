"""C10 — SBML export is valid and import(export(model)) is the same model."""
from contracts import c10_c11_io as C
from contracts import c10_sbml_logic as S
from contracts import c10_ann_order as O
from props._generic import run_property, replay_with_driver

LEVEL = "other"
KEYS = ["_create_bound"]


def run(rep):
    more = [(S.PA_KEYS, S.PA_HOOKS), (["_check_required"], S.CR_HOOKS), (["_check"], S.CK_HOOKS), (S.CP_KEYS, S.CP_HOOKS),
            (S.M2S_KEYS, S.M2S_HOOKS), (S.AN_KEYS, S.ANN_HOOKS), (O.KEYS, O.HOOKS)]
    run_property(rep, KEYS, hooks=C.HOOKS, more=more, explanation=(
        "Deductive part (thin next to what libsbml hides, and stated as such). sbml._create_bound is proved, for every bound value and "
        "every Configuration, to return the id of a parameter whose value equals the reaction's bound (the five shared ids for the "
        "configured defaults, 0 and +-inf; otherwise a per-reaction parameter created with exactly that value), relative to the "
        "assumption that _model_to_sbml created the five shared parameters with those values. Everything else of C10 is behind libsbml "
        "(C++), regex/str.replace chains and a 500-line reader, outside any decidable SMT fragment: bounded driver (exhaustive id "
        "escaper round trips over a reduced alphabet, whole-model round trips through path/handle/string with the libsbml validator as "
        "oracle for validity, shipped SBML files against an independent XML extraction). "
        "Pure-Python decision logic of sbml.py with libsbml objects as opaque references (contracts/c10_sbml_logic.py): "
        "_sbml_to_model.process_association is proved, by structural induction over a well-formed libsbml association tree (every node "
        "below the root is an FbcOr / FbcAnd / GeneProductRef), to return an ast tree with the same Boolean semantics - sem(result, K) "
        "= sem_sbml(ass, K) for every set K of absent genes, sem being the function GPR._eval_gpr is proved to compute (C07), gene ids "
        "translated by f_replace[F_GENE] as an uninterpreted function - and to return None silently for an unknown association kind; "
        "_check_required (value returned when set, CobraSBMLError and its message otherwise), _check (never raises: which values log), "
        "_create_parameter against a model of the libsbml calls (one parameter, id / value / constant / SBO term / units as given: the "
        "assumption _create_bound relied on) and - on the restricted path of a model without compartments, metabolites, genes, "
        "reactions and groups - that _model_to_sbml creates the five shared parameters with config.lower_bound / config.upper_bound / 0 / "
        "-inf / +inf under exactly the ids _create_bound hands out; _parse_annotation_info (regular expression assumed) and the "
        "collection logic of _parse_annotations by two loop invariants: every matched resource is held under its provider (nothing "
        "dropped, also no substring of an earlier identifier), lists have no duplicates, nothing is invented; and (key "
        "_parse_annotations@order, with a ghost log of the uris read that is proved to be the flattened list of resources) every "
        "identifier is stored at the FIRST occurrence of its (provider, identifier) pair and a list is sorted by first occurrence. "
        "NOT proved, because false (findings): that a provider with one identifier always holds a single string (the same identifier "
        "met twice gives a list of one), the metaId text of _check_required's message, freshness of the bound parameter ids."),
        trusted=["libsbml", "_create_parameter creates a constant parameter with the given value (assumed contract)",
                 "string concatenation treated as an uninterpreted injective-agnostic function",
                 "python ast nodes as immutable values (constructors assumed; the frame argument that later constructions do not change "
                 "the semantics of earlier trees is not mechanised); finite acyclic libsbml association trees",
                 "libsbml accessors as ghost functions (assumed contracts, listed below); re / str.isupper / str.lower / `in` on str "
                 "as uninterpreted functions; LOGGER calls counted, their arguments not evaluated"])


def replay(payload):
    return replay_with_driver("C10", payload)
