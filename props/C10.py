"""C10 — SBML export is valid and import(export(model)) is the same model."""
from contracts import c10_c11_io as C
from props._generic import run_property, replay_with_driver

LEVEL = "other"
KEYS = ["_create_bound"]


def run(rep):
    run_property(rep, KEYS, hooks=C.HOOKS, explanation=(
        "Deductive part is thin and stated as such: only sbml._create_bound is within reach - it is proved, for every bound value and "
        "every Configuration, to return the id of a parameter whose value equals the reaction's bound (the five shared ids for the "
        "configured defaults, 0 and +-inf; otherwise a per-reaction parameter created with exactly that value), relative to the "
        "assumption that _model_to_sbml created the five shared parameters with those values. Everything else of C10 is behind libsbml "
        "(C++), regex/str.replace chains and a 500-line reader, outside any decidable SMT fragment: bounded driver (exhaustive id "
        "escaper round trips over a reduced alphabet, whole-model round trips through path/handle/string with the libsbml validator as "
        "oracle for validity, shipped SBML files against an independent XML extraction)."),
        trusted=["libsbml", "_create_parameter creates a constant parameter with the given value (assumed contract)",
                 "string concatenation treated as an uninterpreted injective-agnostic function"])


def replay(payload):
    return replay_with_driver("C10", payload)
