"""C06 — Deletion analyses report the optimum of each knocked-out model."""
from contracts import c06_deletion as C
from contracts import c06_multi_deletion as CM
from pyvc.contract import chain_hooks
from props._generic import run_property, replay_with_driver

LEVEL = "other"
KEYS = ["_reaction_deletion", "_gene_deletion", "_get_growth", "Reaction.knock_out", "Model.__enter__", "Model.__exit__", "Model.slim_optimize"]


def run(rep):
    run_property(rep, KEYS, hooks=chain_hooks(C.HOOKS_G, C.HOOKS_GG), lemmas=C.C7.mono_lemmas,
                 more=[(["_multi_deletion", "_entities_ids", "_element_lists"], CM.HOOKS), (list(CM.WRAPPERS), CM.HOOKS_W)], explanation=(
        "Deductive (kernel): _reaction_deletion is proved, for every list of reaction ids (loop invariant over the list), to read growth "
        "and status at a moment when exactly the listed reactions have bounds (0,0) and every other reaction has the bounds it had at "
        "entry, to return what was read there together with the ids, and to close the context it opened (stack as found, its history "
        "replayed by __exit__); an unknown id raises KeyError. _get_growth is proved to return the objective value iff the status is "
        "optimal and NaN otherwise (FBA), resp. the primal of moma_old_objective (MOMA), with the solver status of that solve. "
        "_gene_deletion is proved likewise (loop invariant over the id list, using Gene.knock_out's contract, the cross-reference "
        "invariant as precondition and the monotonicity of the and/or semantics): growth and status are read when exactly the listed "
        "genes have become non-functional and a reaction has bounds (0,0) exactly when it belongs to a listed gene and its rule is "
        "false with its non-functional genes absent, every other reaction as at entry. "
        "_multi_deletion is proved for both branches (entity gene / reaction, one or two element lists, the five methods, processes an "
        "int or None -> configuration.processes; contracts/c06_multi_deletion.py) against ASSUMED contracts for exactly the library "
        "calls - product / frozenset (a finite set C of combination identities = {frozenset_of(t): t of product(*lists)}, ghost "
        "enumeration), map (lazy, in order), the pool (imap_unordered yields every f(x) once in an arbitrary order: ghost permutation "
        "with its inverse) - and a RECORDED per-combination call of _reaction_deletion / _gene_deletion (result (c, growth, status) "
        "recorded per combination; effect on the model = havoc of the proved contract's modifies clause + its context clause; "
        "precondition: it returns normally in the serial branch): the returned frame is DataFrame(rows, columns=[ids, growth, status]) "
        "with exactly len(C) rows, every combination of C has a row holding exactly (set(c), growth, status) the deletion function "
        "returned for c, every row belongs to a combination and nothing occurs twice (loop invariant over the arrival index, through "
        "the inverse permutation in the parallel branch, so independent of the permutation), the deletion function of the entity is "
        "called exactly once per combination and never otherwise, processes = min(processes, len(C)), the pool is used exactly when "
        "that is > 1 (one pool (processes, _init_worker, (model,)) created inside the function's context after the set-up call, one "
        "imap_unordered(worker of the entity, C, chunksize = len(C) // processes >= 1), left again also when a task raises), "
        "'moma' without a QP solver raises RuntimeError before anything is touched, add_moma / add_room are called exactly as "
        "documented (linear = 'linear' in method, **kwargs to add_room) inside the function's own context, which is closed again on "
        "every exit. The four public wrappers are proved to make exactly one _element_lists call on (model.reactions | model.genes, "
        "the list arguments) and one _multi_deletion call with (model, entity, those lists, method / solution / processes / **kwargs "
        "unchanged) and to return its result; _entities_ids (objects -> their ids, ids -> a copy) and _element_lists (None -> all "
        "entities, second None -> the SAME list as the first) are proved for one or two arguments of every shape. What is still NOT "
        "proved: that iterating a frozenset hands the deletion function exactly its member ids, the pool itself, pandas, and the "
        "essentiality thresholds: bounded driver (every row against the exact optimum of an independently knocked-out copy; fba and "
        "linear moma; objects or ids; processes 1-3)."),
        trusted=["optlang/GLPK optimize (assumed, monitored)", "C03: undo actions restore the model (abstract world)",
                 "DictList.get_by_id (proved under C15)", "Reaction.knock_out (proved under C01/C07)",
                 "itertools.product / frozenset / set as a finite set of opaque combination identities with a ghost enumeration (assumed "
                 "contract itertools.product+frozenset)", "map is lazy and ordered (assumed contract builtins.map)",
                 "multiprocessing.Pool: imap_unordered yields every result once in an arbitrary order (assumed contract "
                 "Pool.imap_unordered, ghost permutation); each worker runs _init_worker on a private copy",
                 "_reaction_deletion / _gene_deletion on a frozenset of ids as a recorded call with the frame of its proved contract "
                 "(assumed contract deletion-call)", "add_moma / add_room as recorded calls that may raise (proved under C09)",
                 "pandas.DataFrame(rows, columns) as a term of the opaque algebra"])


def replay(payload):
    return replay_with_driver("C06", payload)
