"""C06 — Deletion analyses report the optimum of each knocked-out model."""
from contracts import c06_deletion as C
from pyvc.contract import chain_hooks
from props._generic import run_property, replay_with_driver

LEVEL = "other"
KEYS = ["_reaction_deletion", "_gene_deletion", "_get_growth", "Reaction.knock_out", "Model.__enter__", "Model.__exit__", "Model.slim_optimize"]


def run(rep):
    run_property(rep, KEYS, hooks=chain_hooks(C.HOOKS_G, C.HOOKS_GG), lemmas=C.C7.mono_lemmas, explanation=(
        "Deductive (kernel): _reaction_deletion is proved, for every list of reaction ids (loop invariant over the list), to read growth "
        "and status at a moment when exactly the listed reactions have bounds (0,0) and every other reaction has the bounds it had at "
        "entry, to return what was read there together with the ids, and to close the context it opened (stack as found, its history "
        "replayed by __exit__); an unknown id raises KeyError. _get_growth is proved to return the objective value iff the status is "
        "optimal and NaN otherwise (FBA), resp. the primal of moma_old_objective (MOMA), with the solver status of that solve. "
        "_gene_deletion is proved likewise (loop invariant over the id list, using Gene.knock_out's contract, the cross-reference "
        "invariant as precondition and the monotonicity of the and/or semantics): growth and status are read when exactly the listed "
        "genes have become non-functional and a reaction has bounds (0,0) exactly when it belongs to a listed gene and its rule is "
        "false with its non-functional genes absent, every other reaction as at entry. The frozenset combination logic of "
        "_multi_deletion, the pool fan-out, the pandas result frame and the essentiality thresholds are NOT proved: bounded driver "
        "(every row against the exact optimum of an independently knocked-out copy; fba and linear moma; objects or ids; processes "
        "1-3)."),
        trusted=["optlang/GLPK optimize (assumed, monitored)", "C03: undo actions restore the model (abstract world)",
                 "DictList.get_by_id (proved under C15)", "Reaction.knock_out (proved under C01/C07)"])


def replay(payload):
    return replay_with_driver("C06", payload)
