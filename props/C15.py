"""C15 — Identifier-indexed lists stay coherent under every list operation."""
from contracts import c15_dictlist  # noqa  (registers the contracts)
from contracts import c15_get_by_any as GBA
from contracts import c15_query as Q
from contracts.common import REG
from bcc import dictlist_native as N

LEVEL = "proof"

KEYS = ["DictList." + k for k in (
    "has_id _check get_by_id index __contains__ __getitem__ append insert pop remove __delitem__ __setitem__ "
    "_generate_index __setstate__ reverse sort __copy__ _replace_on_id extend _extend_nocheck __iadd__ add __add__ "
    "union __init__ __isub__ __sub__ __getattr__ __getslice__ __delslice__").split()]

# which native operations exercise a function under contract (for the fallback search on a failed obligation)
OPS = {
    "DictList.insert": ["insert"], "DictList.append": ["append"], "DictList.pop": ["pop"], "DictList.remove": ["remove"],
    "DictList.__delitem__": ["delitem"], "DictList.__setitem__": ["setitem"], "DictList.__getitem__": ["getitem"],
    "DictList.extend": ["extend", "iadd", "add", "plus"], "DictList.__iadd__": ["iadd"], "DictList.add": ["add"],
    "DictList.__add__": ["plus"], "DictList.union": ["union"], "DictList.reverse": ["reverse"], "DictList.sort": ["sort"],
    "DictList.__copy__": ["copy"], "DictList._generate_index": ["reverse", "sort", "pickle", "setitem", "delitem"],
    "DictList.__setstate__": ["pickle"], "DictList._extend_nocheck": ["getitem", "query"], "DictList.__init__": ["init_from", "plus"],
    "DictList.__isub__": ["isub"], "DictList.__sub__": ["sub"], "DictList.index": ["remove", "isub"],
    "DictList.get_by_id": ["get_by_any"], "DictList._check": ["append", "insert", "setitem"],
    "DictList.query": ["query"], "DictList.__reduce__": ["pickle"], "DictList.__getstate__": ["pickle"],
}


def fallback(key, case, rec):
    ops = OPS.get(key)
    ev, nt, fails, _ = N.explore_parallel(depth=1, only_ops=ops, stop_after=1)
    if not fails:
        ev, nt, fails, _ = N.explore_parallel(depth=2, rich=False, only_ops=ops, stop_after=1)
    return fails[0] if fails else None


def run(rep):
    rep.explanation = (
        "Deductive: every DictList operation under contract is symbolically executed from the real AST of "
        "src/cobra/core/dictlist.py for symbolic (unbounded) lists, indices and identifiers against the representation "
        "invariant WF (list and id index agree in both directions) and the whole new element sequence; raising cases must "
        "leave list and index unchanged. get_by_any is proved per argument shape (single int / str / object incl. IndexError / "
        "KeyError / TypeError; lists of ints / strs / objects whose items are all acceptable): a NEW list of the look-ups in order, "
        "nothing written; an object item is passed through when its IDENTIFIER is in the index, so a foreign object carrying a "
        "member's id comes back although it is not a member (finding; the member clause is proved under the hypothesis that the "
        "object is the member registered under its id). "
        "query (contracts/c15_query.py; six cases: callable / pattern string / compiled pattern x attribute None / given): a NEW well-formed "
        "DictList, never self, holding exactly the selected elements of self in their order (ghost index maps of the filtered "
        "comprehension, and `found in the result by identifier <=> selected`), self unchanged; the generator is materialised and the "
        "proved _extend_nocheck contract applied with its precondition obliged at the call site; stated assumptions: the search "
        "function is a pure predicate, every element has the attribute and (pattern cases) its value is a str (a None value makes "
        "query raise TypeError natively, self untouched), the pattern string is valid, re.compile / findall as assumed uninterpreted "
        "functions. list_attr: a new plain list of getattr(self[j], attribute) in order. Pickling: __getstate__ / __reduce__ hand "
        "pickle (DictList, (), {'_dict': the index}, an iterator over the elements in order); round-trip lemmas from the very "
        "post-conditions of __init__ / extend / append / __setstate__ (invariant over the batches): unpickling copies that keep their "
        "identifiers gives a well-formed list with the same identifiers in the same order and the same index, no step raises "
        "(assumed: pickle's reduce protocol for list items, an unpickled Object keeps its id). __dir__: dir(DictList) + '_dict' + "
        "every identifier of the index. Slice assignment dl[a:b] = y (second contract of __setitem__ for a simple slice with any bounds "
        "and a list y that is not self; loop invariant over the placeholder loop): with pairwise different identifiers none of which "
        "is in the index, WF again and the sequence self[:lo] + y + self[max(hi, lo):]; otherwise - also for the identifier of an "
        "element the slice would have replaced - ValueError with list and index unchanged; list slice assignment itself is an assumed "
        "splice axiom (cross-checked against CPython); __setslice__ by that contract (with __getslice__ / __delslice__ dead code "
        "under Python 3: slicing syntax never calls them). Selection by a boolean mask dl[[True, False, ...]] (third contract of "
        "__getitem__, the technique of query): a full-length mask gives a NEW well-formed DictList of exactly the elements whose entry "
        "is True, in order, self unchanged; an empty mask on an empty list raises IndexError, a list of another length TypeError "
        "(assumed CPython), nothing changed. OUTSIDE the claim, inherited from list and not overridden: clear(), *= (and "
        "list.__init__ on an existing DictList) desynchronise the index (native reproduction in the module docstring); the method "
        "copy(), * and reversed() return plain lists / iterators without an index. Bounded stand-in (not counted as proved): exhaustive operation histories on the real "
        "class next to a plain-list oracle; it also covers the operations not under contract (slices with steps, slice assignment from a non-list iterable, "
        "get_by_any with lists that raise, the pickle codec itself) and cross-checks the list/dict axioms against CPython.")
    rep.trusted += ["CPython list/dict/set built-ins as axiomatised in pyvc/builtins.py",
                    "z3 5.1 / cvc5 1.0.3 soundness", "pyvc executor (guarded by canaries and native cross-check)"]
    rep.add_pyvc(REG, KEYS, fallback=fallback)
    rep.add_pyvc(REG, GBA.KEYS, hooks=GBA.HOOKS, fallback=fallback)
    rep.add_pyvc(REG, Q.KEYS, hooks=Q.HOOKS, fallback=fallback)
    rep.add_lemmas(Q.lemmas())
    rep.trusted += ["re.compile / Pattern.findall, getattr with a symbolic attribute name, a user search function: uninterpreted pure "
                    "functions (contracts/c15_query.py)", "dir(cls): a new list of strings", "list.__getitem__(l, <list>) raises TypeError",
                    "list.__setitem__(l, slice, xs) for a simple slice: the splice axiom of contracts/c15_query.py (cross-checked natively)",
                    "pickle's reduce protocol for list items (cls(*args), extend per batch / append, then __setstate__); an unpickled "
                    "Object keeps its identifier"]
    depth = 2 if rep.tier == "quick" else 3
    ev, nt, fails, samples = N.explore_parallel(depth=depth, rich=True)
    rep.add_bounded("dictlist-histories", ev, nt, fails, samples,
                    rule="all histories of DictList operations up to the depth bound from every list of <=3 distinct ids over "
                         "{a,b,c}, arguments: new objects with ids a..d, existing elements, every index in [-len-2,len+2], "
                         "slices, masks; distinct = (current contents, operation, arguments)",
                    bounds={"depth": depth, "max_initial_len": 3, "ids": N.IDS}, exhaustive=True)


def replay(payload):
    fi = payload.get("failing_input") or {}
    if "replay" not in fi:
        return None
    return N.replay_encoded(fi["replay"])
