"""C09 — pFBA, linear MOMA and ROOM solve their documented secondary problems optimally."""
from props._generic import run_property, replay_with_driver
from contracts import c03_context as C3
from contracts import c09_fixobj as C9
from contracts import c09_pfba as CP
from contracts import c09_absexpr as CA
from contracts import c09_room as CR
from contracts import c09_moma as CM  # noqa  (registers add_moma; its hooks are those of c09_room)
from contracts import c09_drivers as CD  # (pfba / optimize_minimal_flux / moma / room, add_moma@quadratic; upgrades add_room / add_moma)
from pyvc.contract import chain_hooks

LEVEL = "other"
KEYS = ["add_cons_vars_to_problem", "fix_objective_as_constraint", "add_pfba", "add_absolute_expression", "add_room", "add_moma",
        "add_moma@quadratic"]
KEYS_DRIVERS = ["pfba", "optimize_minimal_flux", "moma", "room"]


def run(rep):
    run_property(rep, KEYS, hooks=chain_hooks(CD.Q_HOOKS, CR.OWN_HOOKS, CP.HOOKS, CA.HOOKS, C3.ALL_HOOKS, C9.HOOKS),
                 more=[(KEYS_DRIVERS, CD.HOOKS)],
                 lemmas=lambda: CP.lemmas() + CA.lemmas() + CR.lemmas() + CD.lemmas(), explanation=(
        "Deductive part: the STRUCTURE of the three formulations is proved for models with any number of reactions, through an opaque "
        "expression algebra (every sympy/optlang operation is an uninterpreted function named after the operation, so 'the constraint "
        "built is Constraint(a - y*(b - c), ub=c, name=...)' is a syntactic statement); what the verifier cannot interpret is that this "
        "arithmetic denotes the linear combination it writes (trusted) and optimality of the solve (bounded driver). "
        "Helpers: add_cons_vars_to_problem (proved: performs solver.add(what) and, in a context, registers exactly the inverse "
        "solver.remove(what) in the innermost context), and fix_objective_as_constraint: "
        "the constraint it installs is Constraint(objective expression, lb=bound) for a "
        "max problem and (ub=bound) otherwise, bound = optimum x fraction unless given, an older constraint of that name is replaced "
        "reversibly, the bound is returned; add_pfba is proved (any number of reactions) to fix the original objective first with the "
        "requested fraction and then to install an objective named _pfba_objective, direction min, with coefficient 1 on the forward "
        "AND the reverse variable of EVERY reaction and 0 elsewhere, ValueError if already applied; three lemmas (LRA): with f,r>=0 and "
        "f-r=v the sum f+r is at least |v|, |v| is attained, and at the minimum one of the pair is 0 - so the installed objective is the "
        "total absolute flux; add_absolute_expression (the building block of linear MOMA) is proved to create Variable(name, lb=0, ub) "
        "and the rows expr - var <= difference, expr + var >= difference, with two lemmas: the variable is at least |expr - difference| "
        "and that distance is admissible. "
        "add_room (post-condition from the docstring's formulation; loop invariant over model.reactions): with S the reference (the "
        "solution given, else the result of exactly one call pfba(model) made before the objective is touched; no such call when a "
        "solution is given) and w = S.fluxes[r.id] looked up BY THE REACTION'S ID, for EVERY reaction r the list handed to the single "
        "model.add_cons_vars call holds y_r = Variable('y_'+id, type='binary') (Variable('y_'+id, lb=0, ub=1) and delta = epsilon = 0.0 "
        "when linear), Constraint(flux_expression(r) - y_r*(ub(r) - w_u), ub=w_u, name='room_constraint_upper_'+id) and "
        "Constraint(flux_expression(r) - y_r*(lb(r) - w_l), lb=w_l, name='room_constraint_lower_'+id) with w_u = w + delta*|w| + epsilon, "
        "w_l = w - delta*|w| - epsilon, flux_expression(r) = 1.0*forward - 1.0*reverse (the getter is executed); the list starts with "
        "Variable('room_old_objective') and Constraint(<objective expression at entry> - it, lb=0.0, ub=0.0) and has exactly 2+3n "
        "entries (the contract fixes their order [y, upper, lower] per reaction in model order - stronger than documented); the objective "
        "is replaced by Objective(Zero, direction='min', sloppy=True) and then gets coefficient 1 on every y_r and on nothing else; "
        "ValueError, with nothing done, when the solver already has 'room_old_objective'. (The docstring prints row (2) with <=; the "
        "paper it cites and the lb= keyword of the row say >=, which is what is checked.) Five lemmas (LRA/NRA) over the rows: y=0 "
        "confines the flux to [w_l, w_u]; y=1 gives exactly the reaction's own bounds; a flux outside the band forces y>0; the reference "
        "lies in its band when delta, epsilon >= 0; for 0<=y<=1 and a band inside the bounds the rows imply the bounds. "
        "add_moma, linear=True: same skeleton with 'moma_old_objective'; per reaction the three components that "
        "add_absolute_expression(model, flux_expression(r), name='moma_dist_'+id, difference=w, add=False) is PROVED to return (its "
        "contract is applied at the call site, case return_only: the helper adds nothing itself), all 2+3n objects in one add_cons_vars "
        "call, zero min objective with coefficient 1 on every distance variable and on nothing else - with the two abs-expr lemmas: the "
        "objective is sum_r |v_r - w_r|. "
        "Stated preconditions: every member of model.reactions has that model (so flux_expression is not None), the reactions DictList "
        "is well formed, delta/epsilon are floats (no NaN). Assumed (listed as trusted): Model.add_cons_vars(what) passes `what` to "
        "add_cons_vars_to_problem; Objective.set_linear_coefficients sets exactly the given coefficients; the fresh Objective(Zero) has "
        "all coefficients 0; the context exit inside pfba(model) rolls the pFBA objective / constraint back (C03 / C13). "
        "THE DRIVERS (contracts/c09_drivers.py, proved as data flow, any number of reactions). pfba(model, fraction_of_optimum, "
        "objective, reactions), for objective None: add_pfba(model, objective=<given>, fraction_of_optimum=<given>) is called once, first, "
        "on the untouched model, inside the function's own context (its proved contract applied); then exactly ONE solve "
        "slim_optimize(error_value=None) in a state in which the pFBA objective (coefficient 1 on both variables of every reaction, min) "
        "is still in force - a status other than optimal RAISES there (C04), so that on that exit no Solution is returned, get_solution "
        "was never called and the context is closed; get_solution(model, reactions=R) is called once, right after that solve with "
        "nothing changed in between and INSIDE the context (before the rollback), R = model.reactions or "
        "model.reactions.get_by_any(reactions) (opaque, assumed) resolved before the context is entered; the value returned is that "
        "Solution unchanged, its status optimal and its objective_value the solver's (finite) value of THAT solve, i.e. of the total "
        "flux; the context stack is as at entry on return, when the solve raises and when add_pfba refuses (ValueError, nothing solved). "
        "optimize_minimal_flux(*args, **kwargs): exactly one pfba call with the same positional values in the same order and the same "
        "keywords, its result returned (three splittings of the arguments). moma(model, solution, linear) / room(model, solution, "
        "linear, delta, epsilon): the builder is called once, first, on the untouched model, in the own context, with EVERY argument the "
        "driver's own (its proved contract applied in a call-site form - the list handed to add_cons_vars as a ghost - that six lemmas "
        "derive from the very post-conditions); then exactly ONE model.optimize() in the model's own direction while that problem is "
        "in force; the Solution returned is the one of THAT solve (status / objective_value the solver's after it); the context is "
        "closed on return, when the solve raises, when the reference pfba raises and when the builder refuses (ValueError). "
        "add_moma with linear=False (key add_moma@quadratic; loop invariant): per reaction, in model order, dist_r = "
        "Variable('moma_dist_'+id) and Constraint(flux_expression(r) - dist_r, lb=w, ub=w, name='moma_constraint_'+id) with w = "
        "S.fluxes[r.id] BY ID, one add_cons_vars call with [moma_old_objective, its equality on the objective expression AT ENTRY, "
        "dist_r1, const_r1, ...] (2+2n entries), the objective first replaced by Objective(Zero, min, sloppy) and LAST set to "
        "Objective(add([dist_r1**2, ...]), direction='min', sloppy=True), the summed list having exactly the n squares in order; "
        "precondition: the solver interface is QP-capable (the solver-switch branch is not covered). In ALL builders the reference for "
        "solution None is now pfba(model) BY ITS PROVED CONTRACT (one call, before anything is built): its failure is a proved exit "
        "(OptimizationError, nothing built / added / installed, stack as at entry); added precondition there: no pFBA objective "
        "installed. NOT proved deductively: the solver-switch branch of quadratic MOMA, pfba with an explicit objective, and "
        "optimality of the secondary problems - decided by the bounded driver: the documented problem rebuilt independently from (S, bounds, objective, "
        "reference) in exact rational arithmetic (ROOM binaries by enumeration) on generated models x objectives x fractions x "
        "references x knock-out states."),
        trusted=["sympy/optlang expression arithmetic denotes the linear combination it writes", "GLPK (assumed, monitored)",
                 "Model.add_cons_vars(what) hands `what` unchanged to add_cons_vars_to_problem (one-line wrapper, read not executed)",
                 "optlang Objective.set_linear_coefficients on freshly built variables sets exactly the given coefficients; "
                 "Objective(Zero, ...) has no non-zero coefficient",
                 "the context exit inside pfba(model) (reference when none is given) rolls its objective / constraint back (C03 / C13): "
                 "applied as a step at the three call sites in add_room / add_moma",
                 "a Solution is an opaque term whose status / objective_value are the solver's when get_solution is called (proved on "
                 "get_solution:body, C04, for the default lists; assumed for an explicit reaction list) and Model.optimize returns the "
                 "Solution of its own solve (as in C17); DictList.get_by_any resolves the given reactions (opaque, as in C19)",
                 "string concatenation is an uninterpreted injective-free function (names are compared as terms)"])


def replay(payload):
    return replay_with_driver("C09", payload)
