"""C09 — pFBA, linear MOMA and ROOM solve their documented secondary problems optimally."""
from props._generic import run_property, replay_with_driver
from contracts import c03_context as C3
from contracts import c09_fixobj as C9
from contracts import c09_pfba as CP
from contracts import c09_absexpr as CA
from pyvc.contract import chain_hooks

LEVEL = "other"
KEYS = ["add_cons_vars_to_problem", "fix_objective_as_constraint", "add_pfba", "add_absolute_expression"]


def run(rep):
    run_property(rep, KEYS, hooks=chain_hooks(CP.HOOKS, CA.HOOKS, C3.ALL_HOOKS, C9.HOOKS), lemmas=lambda: CP.lemmas() + CA.lemmas(), explanation=(
        "Deductive part is thin and stated as such: the formulations are built from sympy/optlang expression arithmetic over all "
        "reactions (add_pfba, add_moma, add_room), which the verifier cannot interpret; within reach are the helper through which "
        "every one of them installs its variables and constraints, add_cons_vars_to_problem (proved: performs solver.add(what) and, "
        "in a context, registers exactly the inverse solver.remove(what) in the innermost context), and fix_objective_as_constraint, "
        "verified through the opaque expression algebra: the constraint it installs is Constraint(objective expression, lb=bound) for a "
        "max problem and (ub=bound) otherwise, bound = optimum x fraction unless given, an older constraint of that name is replaced "
        "reversibly, the bound is returned; add_pfba is proved (any number of reactions) to fix the original objective first with the "
        "requested fraction and then to install an objective named _pfba_objective, direction min, with coefficient 1 on the forward "
        "AND the reverse variable of EVERY reaction and 0 elsewhere, ValueError if already applied; three lemmas (LRA): with f,r>=0 and "
        "f-r=v the sum f+r is at least |v|, |v| is attained, and at the minimum one of the pair is 0 - so the installed objective is the "
        "total absolute flux; add_absolute_expression (the building block of linear MOMA) is proved to create Variable(name, lb=0, ub) "
        "and the rows expr - var <= difference, expr + var >= difference, with two lemmas: the variable is at least |expr - difference| "
        "and that distance is admissible. The loops of add_moma / add_room over the reactions and optimality of the secondary problems "
        "is decided by the bounded driver: the documented problem rebuilt independently from (S, bounds, objective, reference) in "
        "exact rational arithmetic (ROOM binaries by enumeration) on generated models x objectives x fractions x references x "
        "knock-out states."),
        trusted=["sympy/optlang expression arithmetic denotes the linear combination it writes", "GLPK (assumed, monitored)"])


def replay(payload):
    return replay_with_driver("C09", payload)
