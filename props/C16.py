"""C16 — Every flux sample is a feasible flux distribution."""
from contracts import c16_sampling as C
from contracts import c16_samplers as CX
from contracts import c16_hrinit as CH
from props._generic import run_property, replay_with_driver

LEVEL = "other"
KEYS = ["step"]


def run(rep):
    run_property(rep, KEYS, hooks=C.HOOKS,
                 more=[(["HRSampler._random_point", "HRSampler._bounds_dist", "HRSampler._reproject", "ACHRSampler.__single_iteration"], CX.HOOKS),
                       (["ACHRSampler.sample"], CX.HOOKS_S), (["mp_init", "_sample_chain"], CX.HOOKS_C),
                       (["OptGPSampler.sample"], CX.HOOKS_O), (["sampling.sample"], CX.HOOKS_D),
                       (["HRSampler.validate"], CX.HOOKS_V), (["HRSampler.batch"], CX.HOOKS_B),
                       (["HRSampler.__init__"], CH.HOOKS), (["ACHRSampler.__init__"], CH.HOOKS_SUB),
                       (["OptGPSampler.__init__"], CH.HOOKS_OPT)], lemmas=CH.lemmas, explanation=(
        "Deductive part (control/data flow only, through the opaque array algebra - numpy operations are uninterpreted functions): "
        "sampling.core.step is proved, on every one of its return paths (direct, or through the recursive retry under its own "
        "contract), to return only a point p for which the guard `not any(sampler._bounds_dist(p) < -sampler.bounds_tol)` was evaluated "
        "and found true; after MAX_TRIES retries it raises RuntimeError instead. That this guard, evaluated in floating point on "
        "numpy arrays, implies feasibility at the documented tolerance, the choice of alpha, the null-space projection and the "
        "bookkeeping of both samplers are NOT proved (floating point, SVD, random walk): bounded driver (every returned sample of ACHR "
        "and OptGP on generated models x n x thinning x seeds x processes against an independent S v = 0 / bounds / user-constraint "
        "check, row counts, column order, seed reproducibility, validate() agreement, model unchanged). "
        "The guards, bookkeeping and index arithmetic AROUND the walk are proved too (contracts/c16_samplers.py; the sampler is a "
        "materialised object with exact integer fields, its arrays opaque; preconditions n >= 0, thinning >= 1, nproj >= 1 as documented, "
        "n_samples >= 0, processes >= 1): ACHRSampler.__single_iteration does exactly one step() from the previous point in the direction "
        "warmup[random] - center, re-projects point AND centre exactly when problem.homogeneous and n_samples * thinning % nproj == 0, "
        "updates the centre as the running mean n c/(n+1) + p/(n+1) with the OLD count and increments n_samples once; "
        "ACHRSampler.sample(n, fluxes) and optgp._sample_chain((n, idx)) (loop invariants with `rows filled = iterations // thinning`): "
        "exactly the rows 0..n-1 of the array created as zeros((n, .)) are written, row r when the iteration counter is (r+1)*thinning, with "
        "the current point, and every stored point either passed the guard of step() (its proved contract) or is a value _random_point() "
        "returned at a re-projection (a mean of warmup rows; NOT guarded - stated, not hidden); n_samples grows by thinning*n; the frame "
        "is DataFrame(samples[:, fwd_idx] - samples[:, rev_idx], columns = the model's reaction ids in order) resp. DataFrame(samples, "
        "columns = variable names in solver order); _sample_chain reseeds np.random exactly once with (seed + idx) % (2**31 - 1) BEFORE any "
        "draw, writes no sampler field but retries and returns (sampler.retries, samples); OptGPSampler.sample: serial branch = mp_init(self) "
        "+ _sample_chain((n, 0)); parallel branch (processes > 1) against the ASSUMED ordered-map contract Pool.map: n_process = ceil(n / "
        "processes) (c*P >= n > (c-1)*P), one pool (processes, initializer=mp_init, initargs=(self,)), one map(_sample_chain, [(n_process, "
        "j) for j < processes]), the chains stacked in index order, rows returned = n_process*processes with n <= rows < n + processes, "
        "retries += the sum of the tasks' counts, n_samples += the number ACTUALLY generated and the centre = (n_samples*center + "
        "chains.sum(0)) / (n_samples + that number); the pool is left also when a task raises; _bounds_dist (lower distances p - lb, upper "
        "ub - p, constraints included iff there are any), _random_point, _reproject (returns p when the equalities hold within tolerance; "
        "otherwise p or a _random_point - the projection itself is returned only if it compares equal to p, see the finding in the "
        "module docstring); sampling.sample dispatches 'optgp' -> OptGPSampler(model, processes=, thinning=, seed=), 'achr' -> "
        "ACHRSampler(model, thinning=, seed=), anything else ValueError before any constructor call, and returns DataFrame(columns = "
        "reaction ids of the model, data = sampler.sample(n)); HRSampler.batch (ACHR receiver, generator run eagerly) yields exactly "
        "batch_num results of sample(batch_size, fluxes=fluxes); HRSampler.validate: ValueError unless the column count is that of the "
        "reactions or of the variables, and - under ASSUMED row-wise semantics of the final mask operations - per row the code is "
        "('v' if f < feasibility_tol and lb > -bounds_tol and ub > -bounds_tol) + ('l' if lb <= -bounds_tol) + ('u' if ub <= -bounds_tol) "
        "+ ('e' if f > feasibility_tol), i.e. 'v' iff feasible, l / u / e exactly for a violated lower bound / upper bound / equality, "
        "1 to 3 letters provided the residual is not EXACTLY the tolerance (there, and for NaN, the code is empty: finding, reproduced "
        "natively, see contracts/c16_samplers.py). "
        "The CONSTRUCTOR HRSampler.__init__ is proved against its real body (contracts/c16_hrinit.py; no precondition on the arguments; "
        "the SHAPE of the object model.copy() returns is the assumed contract Model.copy@hrinit: a new model, well-formed reaction DictList, "
        "reactions attached, solver in step = every reaction's forward / reverse variable is a member of copy.variables, a sequence of "
        "distinct objects): TypeError for model.solver.is_integer before anything is done; otherwise exactly one model.copy(), self.model IS "
        "the copy and the argument model is never written; INDEX MAPS: for every i, fwd_idx[i] (rev_idx[i]) is a valid position of the "
        "solver's variable list and the variable AT that position is the i-th reaction's own forward_variable (reverse_variable) - the "
        "position_of that object, whatever else the solver holds and in whatever order (np.array of a list of ints by the assumed "
        "contract numpy.array@intlist); feasibility_tol = bounds_tol = model.tolerance, thinning as given, nproj as given or "
        "int(min(len(variables)**3, 1e6)), n_samples = retries = 0, warmup None, problem = ONE recorded self.__build_problem() made after "
        "model / feasibility_tol were set, _seed = seed % (2**31 - 1) resp. int(time()) % (2**31 - 1) (one clock read), in [0, 2**31 - 1): the "
        "field _sample_chain seeds numpy with. Glue lemmas built from this post-condition and the post-conditions of ACHRSampler.sample / "
        "OptGPSampler.sample (serial): under the assumed column-selection semantics of A[:, idx] and entry-wise `-`, column i of the "
        "returned frame is CELL(samples, k, position_of(forward variable of reaction i)) - CELL(samples, k, position_of(reverse variable "
        "of reaction i)), the two positions are different valid positions, and the column is labelled with reaction i's id (hypothesis: "
        "no method between the constructor and sample writes fwd_idx / rev_idx / model); and what sampling.sample assumes of a new sampler "
        "(thinning, n_samples = 0, private copy with a well-formed reaction list, nproj >= 1 given one solver variable) follows from the "
        "constructor's post-condition. The SUBCLASS constructors are proved too, with super().__init__(model, thinning, nproj=nproj, seed=seed) "
        "applied by the proved contract at the call site (so every clause above holds for the new ACHR / OptGP sampler, the arguments "
        "being passed on unchanged) and generate_fva_warmup() a RECORDED call (sets warmup / n_warmup or raises ValueError; made once, after "
        "all HRSampler fields exist, none of fwd_idx / rev_idx / model / problem / _seed written afterwards): ACHRSampler.__init__ sets prev = "
        "center = warmup.mean(axis=0) and calls np.random.seed exactly once with the STORED self._seed (the reproducibility clause); "
        "OptGPSampler.__init__ sets processes = the argument, or configuration.processes when None, center = shared_np_array((len("
        "model.variables),), warmup.mean(axis=0)) and does NOT seed numpy (every chain seeds itself, see _sample_chain). sampling.sample's "
        "dispatch hook still creates the new sampler by the assumed interface contract HRSampler.__init__@samplers (its facts are the ones "
        "proved here; the lemma above)."),
        trusted=["numpy operations are pure deterministic functions of their arguments (opaque algebra)", "floating point",
                 "SVD null space", "multiprocessing.Pool.map is ordered and runs each task once in a worker initialised on a private copy "
                 "(assumed contract Pool.map)", "float division n / processes and np.ceil are exact (operands below 2**53)",
                 "two arrays that differ in no element are the same point (NaN-free; used for _reproject)",
                 "the sampler object sampling.sample's dispatch hook creates (assumed interface contract HRSampler.__init__@samplers: thinning / processes "
                 "as given, n_samples = 0, nproj >= 1, private copy with a well-formed reaction list - each proved for the three constructors in "
                 "contracts/c16_hrinit.py, nproj >= 1 given one solver variable)",
                 "generate_fva_warmup sets warmup / n_warmup or raises ValueError (recorded call); configuration.processes, shared_np_array opaque",
                 "the shape of model.copy() for the sampler: new object, well-formed reactions attached to a model, solver in step (forward / reverse "
                 "variables are members of copy.variables), distinct variable objects (assumed contract Model.copy@hrinit)",
                 "np.array(<list of ints>)[i] = list[i] (assumed contract numpy.array@intlist); A[:, idx] selects column idx[i] as column i and "
                 "`-` acts entry by entry (hypotheses of the glue lemmas)", "time() returns a float, int() truncates, np.iinfo(np.int32).max = 2**31 - 1",
                 "row-wise semantics of <, <=, >, unary -, &, mask assignment and np.char.add (assumed contract numpy.rowwise; validate)",
                 "np.random draws are a deterministic function of the last seed and the draw sequence (reproducibility)"])


def replay(payload):
    return replay_with_driver("C16", payload)
