"""C16 — Every flux sample is a feasible flux distribution."""
from contracts import c16_sampling as C
from props._generic import run_property, replay_with_driver

LEVEL = "other"
KEYS = ["step"]


def run(rep):
    run_property(rep, KEYS, hooks=C.HOOKS, explanation=(
        "Deductive part (control/data flow only, through the opaque array algebra - numpy operations are uninterpreted functions): "
        "sampling.core.step is proved, on every one of its return paths (direct, or through the recursive retry under its own "
        "contract), to return only a point p for which the guard `not any(sampler._bounds_dist(p) < -sampler.bounds_tol)` was evaluated "
        "and found true; after MAX_TRIES retries it raises RuntimeError instead. That this guard, evaluated in floating point on "
        "numpy arrays, implies feasibility at the documented tolerance, the choice of alpha, the null-space projection and the "
        "bookkeeping of both samplers are NOT proved (floating point, SVD, random walk): bounded driver (every returned sample of ACHR "
        "and OptGP on generated models x n x thinning x seeds x processes against an independent S v = 0 / bounds / user-constraint "
        "check, row counts, column order, seed reproducibility, validate() agreement, model unchanged)."),
        trusted=["numpy operations are pure deterministic functions of their arguments (opaque algebra)", "floating point",
                 "SVD null space"])


def replay(payload):
    return replay_with_driver("C16", payload)
