"""pyvc symbolic executor: real `ast` of a /repo function -> named verification conditions.

Forward symbolic execution path by path; calls to functions under contract are replaced by
assert-pre / havoc-frame / assume-post; loops are cut by invariants or by proved summaries.
Outcomes are tuples (kind, state, value): expression kinds 'ok' | 'raise'; statement kinds
'next' | 'return' | 'raise' | 'break' | 'continue'.
"""
import ast
import os
import z3
from .values import *  # noqa
from .state import *  # noqa
from .contract import Env
from . import source

EXC_PARENTS = {
    "KeyError": "LookupError", "IndexError": "LookupError", "LookupError": "Exception",
    "ValueError": "Exception", "TypeError": "Exception", "AttributeError": "Exception",
    "RuntimeError": "Exception", "StopIteration": "Exception", "ZeroDivisionError": "ArithmeticError",
    "ArithmeticError": "Exception", "AssertionError": "Exception", "Exception": "BaseException",
    "OptimizationError": "Exception", "Infeasible": "OptimizationError", "Unbounded": "OptimizationError",
    "FeasibleButNotOptimal": "OptimizationError", "UndefinedSolution": "OptimizationError",
    "SolverNotFound": "Exception", "SolverError": "Exception", "UserWarning": "Exception",
    "NotImplementedError": "RuntimeError", "ContainerAlreadyContains": "Exception",
}


def exc_isa(cls, parent):
    while cls is not None:
        if cls == parent:
            return True
        cls = EXC_PARENTS.get(cls)
    return False


STR_CONCAT = z3.Function("str_concat", Id, Id, Id)   # opaque string concatenation
_QCACHE = {}


def _has_quantifier(t):
    i = t.get_id()
    if i in _QCACHE:
        return _QCACHE[i]
    seen, todo, r = set(), [t], False
    while todo:
        x = todo.pop()
        if x.get_id() in seen:
            continue
        seen.add(x.get_id())
        if z3.is_quantifier(x):
            r = True
            break
        todo.extend(x.children())
    _QCACHE[i] = r
    return r


def flatten_and(g):
    out, todo = [], [g]
    while todo:
        x = todo.pop(0)
        if z3.is_and(x):
            todo = list(x.children()) + todo
        elif not z3.is_true(x):
            out.append(x)
    return out or [z3.BoolVal(True)]


class Obl:
    __slots__ = ("name", "hyps", "goal", "kind", "meta")

    def __init__(self, name, hyps, goal, kind="post", meta=None):
        self.name, self.hyps, self.goal, self.kind, self.meta = name, tuple(hyps), goal, kind, meta or {}


class Engine:
    def __init__(self, registry, hooks=None):
        self.reg = registry
        self.hooks = hooks or {}
        self.obls = []
        self.prefix = ""
        self.paths = 0
        self.feas_timeout_ms = 3000
        self.full_feas_timeout_ms = 400
        # budgets of the feasibility queries are z3 RESOURCE units (deterministic: the same query consumes the same amount whatever the
        # machine load, ~3 M units per second on this image), so that the set of explored paths - and with it the obligation names the
        # baseline is keyed by - does not depend on how busy the 16 cores are; the wall-clock caps are only a backstop (10x)
        self.feas_rlimit = int(os.environ.get("PYVC_FEAS_RLIMIT", "6000000"))
        self.full_feas_rlimit = int(os.environ.get("PYVC_FULL_FEAS_RLIMIT", "1500000"))
        self.mod = None
        self.cur_contract = None
        self.loop_ordinal = {}
        self._feas_cache = {}
        self.call_depth = 0
        self.stats = {"feas_checks": 0, "forks": 0}

    # ------------------------------------------------------------------ solver helpers
    def feasible(self, st):
        """False only if the path condition is provably unsat (unknown keeps the path: sound).

        Two stages: the quantifier-free conjuncts alone (fast, decides most branches), then the full path condition
        under a short budget (prunes paths that are dead only because of an invariant)."""
        key = tuple(c.get_id() for c in st.pc)
        if key in self._feas_cache:
            return self._feas_cache[key]
        self.stats["feas_checks"] += 1
        qf = [c for c in st.pc if not _has_quantifier(c)]
        s = z3.Solver()
        s.set("timeout", 20000)
        s.set("rlimit", self.feas_rlimit)
        for c in qf:
            s.add(c)
        for c in lit_axioms():
            s.add(c)
        r = s.check()
        if r == z3.unsat:
            self._feas_cache[key] = False
            return False
        if len(qf) == len(st.pc):
            self._feas_cache[key] = True
            return True
        s = z3.Solver()
        s.set("timeout", self.full_feas_timeout_ms * 10)
        s.set("rlimit", self.full_feas_rlimit)
        for c in st.pc:
            s.add(c)
        for c in lit_axioms():
            s.add(c)
        r = s.check() != z3.unsat
        self._feas_cache[key] = r
        return r

    def branch(self, st, cond):
        """-> list of (python bool, state) for the feasible sides of a Boolean term / python bool."""
        if isinstance(cond, bool):
            return [(cond, st)]
        cond = z3.simplify(cond)
        if z3.is_true(cond):
            return [(True, st)]
        if z3.is_false(cond):
            return [(False, st)]
        out = []
        for val, c in ((True, cond), (False, z3.Not(cond))):
            s2 = st.assume(c)
            if self.feasible(s2):
                out.append((val, s2))
        self.stats["forks"] += 1
        return out

    def oblige_split(self, st, goal, what, kind="side", meta=None):
        """one obligation per top-level conjunct (smaller, more stable queries; finer-grained names)"""
        parts = flatten_and(goal)
        if len(parts) == 1:
            return self.oblige(st, goal, what, kind, meta)
        for i, g in enumerate(parts):
            self.oblige(st, g, f"{what}.{i + 1}", kind, meta)

    def oblige(self, st, goal, what, kind="side", meta=None):
        name = f"{self.prefix}/{what}"
        n, base = 1, name
        names = {o.name for o in self.obls}
        while name in names:
            n += 1
            name = f"{base}~{n}"
        self.obls.append(Obl(name, st.pc, goal, kind, meta))

    # ------------------------------------------------------------------ truthiness / comparison
    def truth(self, st, v):
        h = self.hooks.get("truth")
        if h:
            r = h(self, st, v)
            if r is not None:
                return r
        if isinstance(v, VBool):
            return v.t
        if isinstance(v, VNone):
            return False
        if isinstance(v, VInt):
            return v.t != 0
        if isinstance(v, VReal):
            return z3.Not(z3.And(v.k == 0, v.v == 0))
        if isinstance(v, VTuple):
            return len(v.items) > 0
        if isinstance(v, VConc):
            return bool(v.py)
        if isinstance(v, (VFunc, VClass)):
            return True
        if isinstance(v, VObj):
            rec = st.objs[v.oid]
            if v.kind == "list":
                return rec["len"] != 0
            if v.kind in ("dict", "set"):
                if "card" in rec:
                    return rec["card"] != 0
                if rec.get("lazy"):
                    return False
                if rec.get("pure"):
                    if any(isinstance(x, tuple) for _, x in rec["pyitems"]):
                        raise Unsupported("truthiness of a record with conditional entries")
                    return len(rec["pyitems"]) > 0
                k = z3.Const(fresh_name("tk"), rec["dom"].sort().domain())
                return z3.Exists([k], z3.Select(rec["dom"], k))          # non-empty: some key is present
            return True
        if isinstance(v, VRef):
            h = self.hooks.get("truth_ref")
            if h:
                r = h(self, st, v)
                if r is not None:
                    return r
            return v.t != NULL
        if isinstance(v, VStr):
            h = self.hooks.get("truth_str")
            if h:
                return h(self, st, v)
            raise Unsupported("truthiness of opaque string")
        raise Unsupported(f"truthiness of {v!r}")

    def to_real(self, v):
        if isinstance(v, VReal):
            return v
        if isinstance(v, VInt):
            return VReal(0, z3.ToReal(v.t))
        if isinstance(v, VBool):
            return VReal(0, z3.If(v.t, z3.RealVal(1), z3.RealVal(0)))
        if isinstance(v, VConc) and isinstance(v.py, float):
            return xr_const(v.py)
        raise Unsupported(f"not a number: {v!r}")

    def eq(self, st, a, b, identity=False):
        """-> z3 Bool or python bool for a == b (identity=True: `is`)."""
        if isinstance(a, VNone) or isinstance(b, VNone):
            o = b if isinstance(a, VNone) else a
            if isinstance(o, VNone):
                return True
            if isinstance(o, VRef):
                return o.t == NULL
            return False
        if isinstance(a, VRef) and isinstance(b, VRef):
            h = self.hooks.get("eq_ref")
            if h and not identity:
                r = h(self, st, a, b)
                if r is not None:
                    return r
            return a.t == b.t
        if not identity and (isinstance(a, VObj) and a.kind == "dict" and isinstance(b, VConc) and b.py == {}
                             or isinstance(b, VObj) and b.kind == "dict" and isinstance(a, VConc) and a.py == {}):
            d = a if isinstance(a, VObj) else b            # d == {}: the dictionary has no key
            rec = st.objs[d.oid]
            if rec.get("lazy"):
                return True
            if rec.get("pure"):
                if any(isinstance(v, tuple) for _, v in rec["pyitems"]):
                    raise Unsupported("emptiness of a record with conditional entries")
                return len(rec["pyitems"]) == 0
            k = z3.Const(fresh_name("ek"), rec["dom"].sort().domain())
            return FA([k], z3.Not(z3.Select(rec["dom"], k)), patterns=[z3.Select(rec["dom"], k)])
        if isinstance(a, VObj) and isinstance(b, VObj):
            if identity:
                return a.oid == b.oid
            if a.oid == b.oid:
                return True
            raise Unsupported("structural equality of containers")
        if isinstance(a, (VObj, VRef)) and isinstance(b, (VObj, VRef)):
            o, r = (a, b) if isinstance(a, VObj) else (b, a)
            if o.kind == "obj" and isinstance(r, VRef):
                from .values import ident_of
                # a reference read from the heap may be this very (materialised) object: compare with its symbolic identity
                return ident_of(o.oid) == r.t
            return False  # materialised objects are distinct from symbolic ones by construction
        if isinstance(a, VBool) and isinstance(b, VBool):
            return a.t == b.t
        if isinstance(a, (VInt, VBool)) and isinstance(b, (VInt, VBool)) and not identity:
            return unwrap(a, "int") == unwrap(b, "int")
        if isinstance(a, (VReal, VInt, VBool)) and isinstance(b, (VReal, VInt, VBool)) and not identity:
            return xr_eq(self.to_real(a), self.to_real(b))
        strs = (VStr, VConc)
        if isinstance(a, strs) and isinstance(b, strs):
            if isinstance(a, VConc) and isinstance(b, VConc):
                return a.py == b.py
            if (isinstance(a, VConc) and not isinstance(a.py, str)) or (isinstance(b, VConc) and not isinstance(b.py, str)):
                return False
            return unwrap(a, "id") == unwrap(b, "id")
        if isinstance(a, VTuple) and isinstance(b, VTuple):
            if len(a.items) != len(b.items):
                return False
            cs = [self.eq(st, x, y, identity=False) for x, y in zip(a.items, b.items)]
            if any(c is False for c in cs):
                return False
            cs = [c for c in cs if c is not True]
            return z3.And(*cs) if cs else True
        if isinstance(a, VClass) and isinstance(b, VClass):
            return a.name == b.name
        if isinstance(a, VClass) or isinstance(b, VClass):
            return False
        if isinstance(a, VTuple) and isinstance(b, VObj) or isinstance(a, VObj) and isinstance(b, VTuple):
            return False  # tuple == list is False in Python
        if isinstance(a, VOpaque) or isinstance(b, VOpaque):
            raise Unsupported("comparison with opaque value")
        if type(a) is not type(b):
            ta, tb = self.pytype(a), self.pytype(b)
            if ta and tb and ta != tb:
                return False
        raise Unsupported(f"equality {a!r} ~ {b!r}")

    def pytype(self, v):
        if isinstance(v, VBool):
            return "bool"
        if isinstance(v, VInt):
            return "int"
        if isinstance(v, VReal):
            return "float"
        if isinstance(v, VStr):
            return "str"
        if isinstance(v, VConc):
            return type(v.py).__name__
        if isinstance(v, VNone):
            return "NoneType"
        if isinstance(v, VTuple):
            return "tuple"
        if isinstance(v, VSlice):
            return "slice"
        if isinstance(v, (VObj, VRef)):
            return v.cls
        if isinstance(v, VFunc):
            return "function"
        return None

    # ------------------------------------------------------------------ class table
    def class_info(self, name):
        return source.find_class(name, self.reg.modules)

    def mro(self, name):
        out, todo = [], [name]
        while todo:
            n = todo.pop(0)
            if n in out:
                continue
            out.append(n)
            ci = self.class_info(n)
            if ci:
                todo.extend(ci.bases)
            else:
                todo.extend(self.reg.classes.get(n, []))
        return out

    def isinstance_static(self, st, v, clsname):
        """python bool / z3 Bool."""
        h = self.hooks.get("isinstance")
        if h:
            r = h(self, st, v, clsname)
            if r is not None:
                return r
        t = self.pytype(v)
        if t is None:
            raise Unsupported(f"isinstance of {v!r}")
        if clsname == "object":
            return True
        if t == "bool" and clsname == "int":
            return True
        if t in ("int", "bool") and clsname in ("float",):
            return False
        if t == "float" and clsname in ("int", "bool"):
            return False
        if isinstance(v, (VObj, VRef)):
            return clsname in self.mro(t)
        return t == clsname

    # ------------------------------------------------------------------ expressions
    def bind(self, outs, f):
        res = []
        for k, st, v in outs:
            if k == "ok":
                res.extend(f(st, v))
            else:
                res.append((k, st, v))
        return res

    def eval_many(self, nodes, st, fid):
        outs = [("ok", st, [])]
        for n in nodes:
            def step(s, acc, n=n):
                r = []
                for k2, s2, v2 in self.eval(n, s, fid):
                    r.append((k2, s2, acc + [v2]) if k2 == "ok" else (k2, s2, v2))
                return r
            outs = self.bind(outs, step)
        return outs

    def raise_(self, st, cls, *args):
        return ("raise", st, VExc(cls, args))

    def eval(self, node, st, fid):
        m = getattr(self, "e_" + type(node).__name__, None)
        if m is None:
            raise Unsupported(f"expression {type(node).__name__} at line {getattr(node, 'lineno', '?')}")
        return m(node, st, fid)

    def e_Constant(self, node, st, fid):
        v = node.value
        if v is None:
            return [("ok", st, NONE)]
        if isinstance(v, bool):
            return [("ok", st, VBool(v))]
        if isinstance(v, int):
            return [("ok", st, VInt(v))]
        if isinstance(v, float):
            return [("ok", st, xr_const(v))]
        return [("ok", st, VConc(v))]

    def e_Name(self, node, st, fid):
        v = st.lookup(fid, node.id)
        if v is not None:
            return [("ok", st, v)]
        if ("global", node.id) in st.ghost:
            return [("ok", st, st.ghost[("global", node.id)])]
        g = self.global_name(node.id, st)
        if g is None:
            raise Unsupported(f"unbound name {node.id!r} at line {node.lineno}")
        return [("ok", st, g)]

    def global_name(self, name, st=None):
        from . import builtins as B
        h = self.hooks.get("global")
        if h:
            r = h(self, name)
            if r is not None:
                return r
        if self.mod is not None:
            if name in self.mod.functions:
                return VFunc("repo", name)
            if name in self.mod.classes:
                return VClass(name)
            if name in B.BUILTINS and name not in B.TYPE_NAMES and name in self.mod.imports:
                return VFunc("builtin", name)       # islice, partial, isinf, ... imported from the standard library
            c = self.module_constant(name)
            if c is not None:
                return c
        if name in B.TYPE_NAMES:
            return VClass(name)
        if name in B.BUILTINS:
            return VFunc("builtin", name)
        if name in B.CLASSES or name in EXC_PARENTS or self.class_info(name) is not None:
            return VClass(name)
        if self.reg.get(name) is not None:
            return VFunc("repo", name)
        if name in ("logger", "LOGGER"):
            return VOpaque("logger")
        if name in B.MODULES or (self.mod is not None and name in self.mod.imports and self.mod.imports[name][0] is None):
            real = self.mod.imports[name][1] if self.mod is not None and name in self.mod.imports else name
            return VConc(("module", {"np": "numpy", "pd": "pandas"}.get(real, real)))
        return None

    def module_constant(self, name):
        """Module-level constants: imported primitives are read from the installed dependency (trusted),
        module-level list/tuple displays of such constants become tuples."""
        import importlib
        mi = self.mod
        if name in mi.imports:
            modname, orig = mi.imports[name]
            if modname is None:
                return None
            try:
                val = getattr(importlib.import_module(modname), orig)
            except Exception:  # noqa
                return None
            c = self.py_constant(val)
            if c is None and callable(val) and self.reg.get(getattr(val, "__name__", "")) is not None:
                return VFunc("repo", val.__name__)
            return c
        if name in mi.globals_assign:
            node = mi.globals_assign[name]
            if isinstance(node, (ast.List, ast.Tuple)):
                items = []
                for e in node.elts:
                    if isinstance(e, ast.Name):
                        v = self.module_constant(e.id)
                    elif isinstance(e, ast.Constant):
                        v = self.py_constant(e.value)
                    else:
                        v = None
                    if v is None:
                        return None
                    items.append(v)
                return VTuple(items)
            if isinstance(node, ast.Constant):
                return self.py_constant(node.value)
            if isinstance(node, ast.Dict) and all(isinstance(k, ast.Constant) for k in node.keys):
                # {"literal": constant | {} | [] | None ...}: a constant dictionary (only looked up / passed on)
                d = {}
                for k, e in zip(node.keys, node.values):
                    if isinstance(e, ast.Constant):
                        v = self.py_constant(e.value)
                    elif isinstance(e, ast.Dict) and not e.keys:
                        v = VConc({})
                    elif isinstance(e, (ast.List, ast.Tuple)) and not e.elts:
                        v = VTuple(())
                    else:
                        v = None
                    if v is None:
                        return None
                    d[k.value] = v
                return VConc(d)
        return None

    def py_constant(self, val):
        if val is None:
            return NONE
        if isinstance(val, bool):
            return VBool(val)
        if isinstance(val, int):
            return VInt(val)
        if isinstance(val, float):
            if val != val:
                return VReal(0, z3.Real("NaN_const"))   # NaN only as a marker value that is stored and passed through
            return xr_const(val)
        if isinstance(val, str):
            return VConc(val)
        if isinstance(val, type) and issubclass(val, BaseException):
            for b in val.__mro__[1:2]:
                EXC_PARENTS.setdefault(val.__name__, b.__name__)
            return VClass(val.__name__)
        import functools
        if val is functools.partial:
            return VFunc("builtin", "partial")
        if isinstance(val, type):
            return VClass(val.__name__)
        if isinstance(val, dict) and all(isinstance(k, str) for k in val):
            out = {}
            for k, v in val.items():
                c = self.py_constant(v)
                if c is None:
                    return None
                out[k] = c
            return VConc(out)
        import types
        if isinstance(val, types.ModuleType):
            return VConc(("module", val.__name__))
        return None

    def e_JoinedStr(self, node, st, fid):
        subs = [v.value for v in node.values if isinstance(v, ast.FormattedValue)]
        outs = self.eval_many(subs, st, fid)

        def mk(s, vs):
            # hook "fstring" / "joined_str" (eng, st, node, values of the formatted sub-expressions in order) may give the string a
            # meaning (e.g. an identifier built by concatenation); without it an f-string is an opaque value (messages)
            h = self.hooks.get("fstring") or self.hooks.get("joined_str")
            if h:
                r = h(self, s, node, vs)
                if r is not None:
                    return r
            return [("ok", s, VOpaque("fstring"))]
        return self.bind(outs, mk)

    def e_Tuple(self, node, st, fid):
        if any(isinstance(e, ast.Starred) for e in node.elts):
            raise Unsupported("starred in tuple display")
        return self.bind(self.eval_many(node.elts, st, fid), lambda s, vs: [("ok", s, VTuple(vs))])

    def e_List(self, node, st, fid):
        def mk(s, vs):
            from . import builtins as B
            h = self.hooks.get("list_display")
            if h:
                r = h(self, s, vs)
                if r is not None:
                    return r
            return [B.list_from_values(self, s, vs)]
        return self.bind(self.eval_many(node.elts, st, fid), mk)

    def e_Set(self, node, st, fid):
        def mk(s, vs):
            from . import builtins as B
            return [B.set_from_values(self, s, vs)]
        return self.bind(self.eval_many(node.elts, st, fid), mk)

    def e_Dict(self, node, st, fid):
        if any(k is None for k in node.keys):
            raise Unsupported("dict unpacking display")

        def mk(s, vs):
            from . import builtins as B
            n = len(node.keys)
            return [B.dict_from_pairs(self, s, list(zip(vs[:n], vs[n:])))]
        return self.bind(self.eval_many(list(node.keys) + list(node.values), st, fid), mk)

    def e_IfExp(self, node, st, fid):
        def after(s, c):
            res = []
            for val, s2 in self.branch(s, self.truth(s, c)):
                res.extend(self.eval(node.body if val else node.orelse, s2, fid))
            return res
        return self.bind(self.eval(node.test, st, fid), after)

    def e_BoolOp(self, node, st, fid):
        is_and = isinstance(node.op, ast.And)

        def go(i, s):
            def after(s2, v):
                if i == len(node.values) - 1:
                    return [("ok", s2, v)]
                res = []
                for val, s3 in self.branch(s2, self.truth(s2, v)):
                    if val == is_and:
                        res.extend(go(i + 1, s3))
                    else:
                        res.append(("ok", s3, v))
                return res
            return self.bind(self.eval(node.values[i], s, fid), after)
        return go(0, st)

    def e_UnaryOp(self, node, st, fid):
        def after(s, v):
            h = self.hooks.get("unary")
            if h:
                r = h(self, s, node.op, v)
                if r is not None:
                    return r
            if isinstance(node.op, ast.Not):
                t = self.truth(s, v)
                return [("ok", s, VBool(not t if isinstance(t, bool) else z3.Not(t)))]
            if isinstance(node.op, ast.USub):
                if isinstance(v, VInt):
                    return [("ok", s, VInt(-v.t))]
                if isinstance(v, VReal):
                    return [("ok", s, xr_neg(v))]
            if isinstance(node.op, ast.UAdd) and isinstance(v, (VInt, VReal)):
                return [("ok", s, v)]
            raise Unsupported(f"unary {type(node.op).__name__} on {v!r}")
        return self.bind(self.eval(node.operand, st, fid), after)

    def e_BinOp(self, node, st, fid):
        def after(s, vs):
            return self.binop(s, node.op, vs[0], vs[1], node)
        return self.bind(self.eval_many([node.left, node.right], st, fid), after)

    def binop(self, st, op, a, b, node=None):
        from . import builtins as B
        h = self.hooks.get("binop")
        if h:
            r = h(self, st, op, a, b)
            if r is not None:
                return r
        if isinstance(a, (VInt, VBool)) and isinstance(b, (VInt, VBool)):
            x, y = unwrap(a, "int"), unwrap(b, "int")
            if isinstance(op, ast.Add):
                return [("ok", st, VInt(x + y))]
            if isinstance(op, ast.Sub):
                return [("ok", st, VInt(x - y))]
            if isinstance(op, ast.Mult):
                return [("ok", st, VInt(x * y))]
            if isinstance(op, (ast.FloorDiv, ast.Mod)):
                res = []
                for val, s2 in self.branch(st, y == 0):
                    if val:
                        res.append(self.raise_(s2, "ZeroDivisionError"))
                    else:
                        # Python floor division / modulo (sign of divisor); z3 div/mod are Euclidean
                        q = z3.If(y > 0, x / y, -((-x) / (-y)) if False else (x / y))
                        fq = z3.If(y > 0, x / y, (-x) / (-y))
                        if isinstance(op, ast.FloorDiv):
                            # floor(x/y): for y>0 z3's x/y is floor; for y<0 floor(x/y)=floor((-x)/(-y))
                            res.append(("ok", s2, VInt(fq)))
                        else:
                            res.append(("ok", s2, VInt(x - y * fq)))
                return res
        if isinstance(a, (VReal, VInt, VBool)) and isinstance(b, (VReal, VInt, VBool)):
            x, y = self.to_real(a), self.to_real(b)
            # arithmetic only on finite values (side condition); infinities: unsupported
            self.oblige(st, z3.And(xr_fin(x), xr_fin(y)), "finite-arith", kind="side")
            st = st.assume(xr_fin(x), xr_fin(y))
            if isinstance(op, ast.Add):
                return [("ok", st, VReal(0, x.v + y.v))]
            if isinstance(op, ast.Sub):
                return [("ok", st, VReal(0, x.v - y.v))]
            if isinstance(op, ast.Mult):
                return [("ok", st, VReal(0, x.v * y.v))]
            if isinstance(op, ast.Div):
                res = []
                for val, s2 in self.branch(st, y.v == 0):
                    if val:
                        res.append(self.raise_(s2, "ZeroDivisionError"))
                    else:
                        res.append(("ok", s2, VReal(0, x.v / y.v)))
                return res
        if isinstance(op, ast.Add) and isinstance(a, VObj) and a.kind == "list" and a.cls == "list" \
                and isinstance(b, VObj) and b.kind == "list":
            return [B.list_concat(self, st, a, b)]
        if isinstance(op, ast.Add) and isinstance(a, (VStr, VConc)) and isinstance(b, (VStr, VConc)):
            if isinstance(a, VConc) and isinstance(b, VConc):
                return [("ok", st, VConc(a.py + b.py))]
            return [("ok", st, VStr(STR_CONCAT(unwrap(a, "id"), unwrap(b, "id"))))]
        if isinstance(op, ast.Add) and isinstance(a, VTuple) and isinstance(b, VTuple):
            return [("ok", st, VTuple(a.items + b.items))]
        if isinstance(a, (VObj, VRef)):
            dunder = {ast.Add: "__add__", ast.Sub: "__sub__", ast.Mult: "__mul__"}.get(type(op))
            if dunder:
                return self.call_method(st, a, dunder, [b], {})
        raise Unsupported(f"binop {type(op).__name__} on {a!r}, {b!r}")

    def e_Compare(self, node, st, fid):
        def go(i, s, left, acc):
            # acc: z3 Bool / True accumulated conjunction; short-circuit is modelled by forking on falsity
            def after(s2, right):
                outs = self.compare(s2, node.ops[i], left, right)

                def cont(s3, c):
                    if i == len(node.ops) - 1:
                        return [("ok", s3, c)]
                    res = []
                    for val, s4 in self.branch(s3, self.truth(s3, c)):
                        if val:
                            res.extend(go(i + 1, s4, right, None))
                        else:
                            res.append(("ok", s4, VBool(False)))
                    return res
                return self.bind(outs, cont)
            return self.bind(self.eval(node.comparators[i], s, fid), after)
        return self.bind(self.eval(node.left, st, fid), lambda s, l: go(0, s, l, None))

    def compare(self, st, op, a, b):
        from . import builtins as B
        h = self.hooks.get("compare")
        if h:
            r = h(self, st, op, a, b)
            if r is not None:
                return r
        mk = lambda c: [("ok", st, VBool(c))]  # noqa
        if isinstance(op, (ast.Eq, ast.NotEq)):
            c = self.eq(st, a, b)
            if isinstance(op, ast.NotEq):
                c = (not c) if isinstance(c, bool) else z3.Not(c)
            return mk(c)
        if isinstance(op, (ast.Is, ast.IsNot)):
            c = self.eq(st, a, b, identity=True)
            if isinstance(op, ast.IsNot):
                c = (not c) if isinstance(c, bool) else z3.Not(c)
            return mk(c)
        if isinstance(op, (ast.In, ast.NotIn)):
            outs = B.contains(self, st, b, a)
            if isinstance(op, ast.NotIn):
                outs = self.bind(outs, lambda s, v: [("ok", s, VBool(z3.Not(v.t) if not isinstance(v.t, bool) else (not v.t)))])
            return outs
        if isinstance(a, (VInt, VBool)) and isinstance(b, (VInt, VBool)):
            x, y = unwrap(a, "int"), unwrap(b, "int")
            c = {ast.Lt: x < y, ast.LtE: x <= y, ast.Gt: x > y, ast.GtE: x >= y}[type(op)]
            return mk(c)
        if isinstance(a, (VReal, VInt, VBool)) and isinstance(b, (VReal, VInt, VBool)):
            x, y = self.to_real(a), self.to_real(b)
            c = {ast.Lt: xr_lt(x, y), ast.LtE: xr_le(x, y), ast.Gt: xr_lt(y, x), ast.GtE: xr_le(y, x)}[type(op)]
            return mk(c)
        raise Unsupported(f"compare {type(op).__name__} on {a!r}, {b!r}")

    def e_Attribute(self, node, st, fid):
        return self.bind(self.eval(node.value, st, fid), lambda s, v: self.getattr(s, v, node.attr))

    def e_Subscript(self, node, st, fid):
        def after(s, vs):
            from . import builtins as B
            return B.getitem(self, s, vs[0], vs[1])
        return self.bind(self.eval_many([node.value, node.slice], st, fid), after)

    def e_Slice(self, node, st, fid):
        parts = [node.lower, node.upper, node.step]
        nodes = [p for p in parts if p is not None]

        def after(s, vs):
            it = iter(vs)
            vals = [next(it) if p is not None else NONE for p in parts]
            return [("ok", s, VSlice(*vals))]
        return self.bind(self.eval_many(nodes, st, fid), after)

    def e_Lambda(self, node, st, fid):
        return [("ok", st, VFunc("closure", node, fid))]

    def e_Starred(self, node, st, fid):
        raise Unsupported("starred expression outside call")

    def e_Yield(self, node, st, fid):
        # a generator function executed EAGERLY: only through the hook "yield" (eng, st, value) -> outcomes, which records the value
        # (e.g. in a ghost trace); the value of the yield expression itself is what the hook returns (None for a plain `yield x`)
        h = self.hooks.get("yield")
        if h is None:
            raise Unsupported("yield (no `yield` hook)")
        outs = self.eval(node.value, st, fid) if node.value is not None else [("ok", st, NONE)]
        return self.bind(outs, lambda s, v: h(self, s, v))

    def e_Call(self, node, st, fid):
        def after_f(s, f):
            pos_nodes, star_idx = [], []
            for i, a in enumerate(node.args):
                if isinstance(a, ast.Starred):
                    star_idx.append(i)
                    pos_nodes.append(a.value)
                else:
                    pos_nodes.append(a)
            kw_nodes = [k.value for k in node.keywords]

            def after_args(s2, vs):
                pos = []
                for i, v in enumerate(vs[:len(pos_nodes)]):
                    if i in star_idx:
                        if isinstance(v, VTuple):
                            pos.extend(v.items)
                        elif isinstance(f, VFunc) and f.kind == "builtin" and f.a == "chain":
                            pos.append(VConc(("starred", v)))      # chain(*generator): flattened by the builtin model
                        elif isinstance(f, VFunc) and f.kind == "abstract" and isinstance(v, VObj) and v.kind == "list":
                            pos.append(VConc(("starred", v)))      # abstract(*list): the call_abstract hook receives the list itself
                        else:
                            raise Unsupported("star-args of non-tuple")
                    else:
                        pos.append(v)
                kw = {}
                for k, v in zip(node.keywords, vs[len(pos_nodes):]):
                    if k.arg is None:
                        # **mapping: only a concrete keyword mapping (the function's own **kwargs passed through)
                        if isinstance(v, VConc) and isinstance(v.py, dict) and v.py.get("__kwargs__"):
                            kw.update({a: b for a, b in v.py.items() if a != "__kwargs__"})
                        elif isinstance(v, VObj) and v.kind == "dict" and s2.objs[v.oid].get("pure") and all(
                                isinstance(a, str) and not isinstance(b, tuple) for a, b in s2.objs[v.oid]["pyitems"]):
                            # **record: a dictionary with literal string keys and unconditional entries (a keyword table)
                            kw.update(dict(s2.objs[v.oid]["pyitems"]))
                        else:
                            raise Unsupported("**mapping at call site")
                    else:
                        kw[k.arg] = v
                return self.call(s2, f, pos, kw, node)
            return self.bind(self.eval_many(pos_nodes + kw_nodes, s, fid), after_args)
        return self.bind(self.eval(node.func, st, fid), after_f)

    def e_ListComp(self, node, st, fid):
        from . import comprehension as C
        return C.listcomp(self, node, st, fid)

    def e_DictComp(self, node, st, fid):
        from . import comprehension as C
        return C.dictcomp(self, node, st, fid)

    def e_SetComp(self, node, st, fid):
        from . import comprehension as C
        return C.setcomp(self, node, st, fid)

    def e_GeneratorExp(self, node, st, fid):
        from . import comprehension as C
        return C.genexp(self, node, st, fid)

    # ------------------------------------------------------------------ attributes
    def getattr(self, st, v, name, default=None):
        from . import builtins as B
        h = self.hooks.get("getattr")
        if h:
            r = h(self, st, v, name)
            if r is not None:
                return r
        if name == "__class__" and not isinstance(v, (VObj, VRef)) and self.pytype(v):
            return [("ok", st, VClass(self.pytype(v)))]
        if isinstance(v, VObj):
            rec = st.objs[v.oid]
            if "attr:" + name in rec:
                return [("ok", st, rec["attr:" + name])]
            if name == "__class__":
                return [("ok", st, VClass(v.cls))]
            if name == "__dict__" and v.kind == "obj":
                return [("ok", st, VFunc("objdict", v))]       # only `obj.__dict__.update(<record>)` is supported
            r = self.class_attr(st, v, v.cls, name)
            if r is not None:
                return r
            if v.kind in ("list", "dict", "set", "tlist") or v.cls in getattr(self.reg, "external_classes", ()):
                return [("ok", st, VFunc("bound", v, name))]
            if v.kind == "pylist" and name == "append":
                return [("ok", st, VFunc("bound", v, name))]       # see call_method: append to a list display of concrete length
            if default is not None:
                return [("ok", st, default)]
            return [self.raise_(st, "AttributeError")]
        if isinstance(v, VRef):
            if name == "__class__":
                return [("ok", st, VClass(v.cls))]
            if (v.cls, name) in getattr(self.reg, "absent_attrs", ()):
                return [self.raise_(st, "AttributeError")]
            if v.cls not in getattr(self.reg, "null_checked", ()):
                return self._getattr_ref(st, v, name, default)
            outs = []
            for isnull, s2 in self.branch(st, v.t == NULL):
                if isnull:
                    outs.append(self.raise_(s2, "AttributeError"))
                else:
                    outs.extend(self._getattr_ref(s2, v, name, default))
            return outs
        if isinstance(v, VClass) and name == "__name__":
            return [("ok", st, VConc(v.name))]
        if isinstance(v, VClass):
            return [("ok", st, VFunc("unbound", v.name, name))]
        if isinstance(v, VNone):
            return [self.raise_(st, "AttributeError")]
        if isinstance(v, VConc) and isinstance(v.py, tuple) and v.py[0] == "module":
            import importlib
            try:
                val = getattr(importlib.import_module(v.py[1]), name)
                c = self.py_constant(val)
                if c is not None:
                    return [("ok", st, c)]
            except Exception:  # noqa
                pass
            g = self.global_name(name, st)
            if g is not None:
                return [("ok", st, g)]
        if isinstance(v, VOpaque):
            return [("ok", st, VOpaque(v.what + "." + name))]
        if isinstance(v, (VConc, VStr)):
            return [("ok", st, VFunc("bound", v, name))]
        if isinstance(v, VFunc) and v.kind == "objdict":
            return [("ok", st, VFunc("bound", v, name))]
        if isinstance(v, VFunc) and v.kind == "super":
            return [("ok", st, VFunc("partial", VFunc("unbound", v.a, name), (v.b,), {}))]
        if isinstance(v, VFunc) and name == "__name__":
            if v.kind == "closure":
                return [("ok", st, VConc(v.a.name))]
            if v.kind == "abstract":
                return [("ok", st, VConc(v.a))]
        if isinstance(v, (VExc,)) and name == "args":
            return [("ok", st, VTuple(v.args))]
        raise Unsupported(f"getattr {name} on {v!r}")

    def _getattr_ref(self, st, v, name, default=None):
        r = self.class_attr(st, v, v.cls, name)
        if r is not None:
            return r
        if name in self.reg.fields:
            kind = self.reg.fields[name]
            if kind.startswith("set:"):
                # set-valued field of a symbolic object: a read-only snapshot set (writes through it are unsupported)
                st2, sv = alloc_set(st, kind[4:], dom=z3.Select(self.heap_arr(st, name), v.t))
                st2 = st2.updobj(sv.oid, origin=(name, v.t))      # mutations write through to the heap field
                return [("ok", st2, sv)]
            return [("ok", st, self.heap_read(st, name, v.t))]
        if default is not None:
            return [("ok", st, default)]
        raise Unsupported(f"attribute {v.cls}.{name} has no declared field, property or contract")

    def class_attr(self, st, recv, clsname, name):
        """Property getter / bound method resolved through the class table and the contract registry."""
        for c in self.mro(clsname):
            key = f"{c}.{name}"
            if self.reg.get(key + "@getter") is not None:
                return self.apply_contract(st, self.reg.get(key + "@getter"), [recv], {})
            ci = self.class_info(c)
            if ci is not None:
                if name in ci.getters:
                    if key + "@getter" in self.reg.inline:
                        return self.call_closure(st, ci.getters[name], None, [recv], {}, module=ci.module)
                    raise Unsupported(f"property {key} has neither contract nor inline marker")
                if name in ci.methods:
                    return [("ok", st, VFunc("bound", recv, name))]
            if self.reg.get(key) is not None:
                return [("ok", st, VFunc("bound", recv, name))]
        return None

    def heap_read(self, st, field, ref):
        kind = self.reg.fields[field]
        if kind == "real":
            ka, va = self.heap_arr(st, field)
            return VReal(z3.Select(ka, ref), z3.Select(va, ref))
        arr = self.heap_arr(st, field)
        if kind.startswith("set:"):
            raise Unsupported("set-valued field read as value: use the field hook")
        return wrap(z3.Select(arr, ref), kind)

    def heap_arr(self, st, field):
        if field in st.heap:
            return st.heap[field]
        return self.heap_init(field)

    def kind_axioms(self, st):
        """extended-real kind arrays only hold -1, 0, +1"""
        cs = []
        for f, kind in self.reg.fields.items():
            if kind == "real":
                ka, _ = self.heap_arr(st, f)
                x = z3.Const(fresh_name("kx"), Ref)
                cs.append(FA([x], z3.And(ka[x] >= -1, ka[x] <= 1), patterns=[ka[x]]))
        return cs

    def heap_init(self, field, tag="H0"):
        kind = self.reg.fields[field]
        if kind == "real":
            return (z3.Const(f"{tag}_{field}_k", z3.ArraySort(Ref, z3.IntSort())),
                    z3.Const(f"{tag}_{field}_v", z3.ArraySort(Ref, z3.RealSort())))
        if kind.startswith("set:"):
            return z3.Const(f"{tag}_{field}", z3.ArraySort(Ref, z3.ArraySort(sort_of(kind[4:]), z3.BoolSort())))
        if kind == "seqref":
            return z3.Const(f"{tag}_{field}", z3.ArraySort(Ref, z3.ArraySort(z3.IntSort(), Ref)))
        return z3.Const(f"{tag}_{field}", z3.ArraySort(Ref, sort_of(kind)))

    def heap_write(self, st, field, ref, v):
        kind = self.reg.fields[field]
        if kind == "real":
            r = self.to_real(v)
            ka, va = self.heap_arr(st, field)
            return st.setheap(field, (z3.Store(ka, ref, r.k), z3.Store(va, ref, r.v)))
        arr = self.heap_arr(st, field)
        return st.setheap(field, z3.Store(arr, ref, unwrap(v, kind)))

    def setattr(self, st, v, name, val):
        h = self.hooks.get("setattr")
        if h:
            r = h(self, st, v, name, val)
            if r is not None:
                return r
        if isinstance(v, (VObj, VRef)):
            for c in self.mro(v.cls):
                key = f"{c}.{name}@setter"
                if self.reg.get(key) is not None:
                    return self.bind(self.apply_contract(st, self.reg.get(key), [v, val], {}),
                                     lambda s, _: [("ok", s, NONE)])
                ci = self.class_info(c)
                if ci is not None and name in ci.setters:
                    if key in self.reg.inline:
                        return self.call_closure(st, ci.setters[name], None, [v, val], {}, module=ci.module)
                    raise Unsupported(f"property setter {key} has neither contract nor inline marker")
                if ci is not None and name in ci.getters:
                    return [self.raise_(st, "AttributeError")]
        if isinstance(v, VObj):
            return [("ok", st.updobj(v.oid, **{"attr:" + name: val}), NONE)]
        if isinstance(v, VRef):
            if name in self.reg.fields:
                return [("ok", self.heap_write(st, name, v.t, val), NONE)]
            raise Unsupported(f"assignment to undeclared field {v.cls}.{name}")
        raise Unsupported(f"setattr {name} on {v!r}")

    # ------------------------------------------------------------------ calls
    def call(self, st, f, pos, kw, node=None):
        from . import builtins as B
        if isinstance(f, VFunc):
            if f.kind == "closure":
                con = self.nested_contract(f.a)
                if con is not None:
                    return self.apply_contract(st, con, pos, kw)      # a nested function that is itself under contract: modular
                return self.call_closure(st, f.a, f.b, pos, kw)
            if f.kind == "builtin":
                return B.BUILTINS[f.a](self, st, pos, kw)
            if f.kind == "bound":
                return self.call_method(st, f.a, f.b, pos, kw)
            if f.kind == "unbound":
                return self.call_unbound(st, f.a, f.b, pos, kw)
            if f.kind == "partial":
                kw2 = dict(f.c or {})
                kw2.update(kw)
                return self.call(st, f.a, list(f.b) + list(pos), kw2, node)
            if f.kind == "repo":
                c = self.reg.get(f.a)
                if c is not None and not (f.a in self.reg.inline):
                    return self.apply_contract(st, c, pos, kw)
                if f.a in self.reg.inline and self.mod and f.a in self.mod.functions:
                    return self.call_closure(st, self.mod.functions[f.a], None, pos, kw)
                raise Unsupported(f"call to repository function {f.a} without contract")
            if f.kind == "abstract":
                h = self.hooks.get("call_abstract")
                if h:
                    return h(self, st, f, pos, kw)
            if f.kind == "npfunc":
                from . import npalg
                return npalg.call_npfunc(self, st, f, pos, kw)
            if f.kind == "np_empty":
                # numpy.empty(n): an array of n unspecified reals, modelled as a list of reals
                n = unwrap(pos[0], "int")
                st2, l = alloc_list(st, "real", base="nparr", length=n)
                return [("ok", st2, l)]
        if isinstance(f, VClass):
            return self.construct(st, f.name, pos, kw)
        if isinstance(f, (VRef, VObj)):
            h = self.hooks.get("call_object")
            if h:
                r = h(self, st, f, pos, kw)
                if r is not None:
                    return r
            return self.call_method(st, f, "__call__", pos, kw)
        if isinstance(f, VOpaque):
            return [("ok", st, VOpaque(f.what + "()"))]
        h = self.hooks.get("call_object")
        if h:
            r = h(self, st, f, pos, kw)
            if r is not None:
                return r
        raise Unsupported(f"call of {f!r}"[:300])

    def nested_contract(self, fn):
        """The contract of a function NESTED in the function under verification (qualified name `<outer>.<name>`, same module, the
        very FunctionDef node that is being called), if it has one and has no free variables of its own (`closure=`): a call of it
        is then replaced by its contract, like any other call; otherwise None (the nested function is inlined)."""
        cur = self.cur_contract
        if cur is None or not isinstance(fn, ast.FunctionDef):
            return None
        qual = f"{cur.qual}.{fn.name}"
        for con in self.reg.contracts.values():
            if con.module == cur.module and con.qual == qual and not con.closure and con.key not in self.reg.inline:
                try:
                    if source.module(con.module).find(con.qual) is fn:
                        return con
                except KeyError:
                    pass
        return None

    def construct(self, st, clsname, pos, kw):
        from . import builtins as B
        if clsname in EXC_PARENTS:
            return [("ok", st, VExc(clsname, pos))]
        if clsname in B.CLASSES:
            return B.CLASSES[clsname](self, st, pos, kw)
        if clsname in B.TYPE_NAMES and clsname in B.BUILTINS:
            return B.BUILTINS[clsname](self, st, pos, kw)
        c = self.reg.get(f"{clsname}.__init__")
        if c is not None:
            return self.apply_contract(st, c, pos, kw, constructing=clsname)
        if clsname in getattr(self.reg, "records", ()):
            # plain record constructor (assumed): stores its keyword arguments as attributes
            if pos:
                raise Unsupported(f"record constructor {clsname} with positional arguments")
            st2, o = alloc_obj(st, clsname, {"attr:" + k: v for k, v in kw.items()})
            return [("ok", st2, o)]
        raise Unsupported(f"constructor {clsname} without contract")

    def call_method(self, st, recv, name, pos, kw):
        from . import builtins as B
        h = self.hooks.get("call_method")
        if h:
            r = h(self, st, recv, name, pos, kw)
            if r is not None:
                return r
        if isinstance(recv, VFunc) and recv.kind == "objdict" and name == "update" and len(pos) == 1 and not kw:
            # obj.__dict__.update(state) with state a record (literal keys): the attributes are set, in order
            st = B.to_record(st, pos[0])
            upd = {}
            for k, v in st.objs[pos[0].oid]["pyitems"]:
                if isinstance(v, tuple) or not isinstance(k, str):
                    raise Unsupported("__dict__.update with a conditional entry")
                upd["attr:" + k] = v
            return [("ok", st.updobj(recv.a.oid, **upd), NONE)]
        if isinstance(recv, (VObj, VRef)):
            for c in self.mro(recv.cls):
                key = f"{c}.{name}"
                if key in getattr(self.reg, "static", ()):
                    return self.apply_contract(st, self.reg.get(key), list(pos), kw)
                if key in self.reg.inline:
                    ci = self.class_info(c)
                    return self.call_closure(st, ci.methods[name], None, [recv] + list(pos), kw, module=ci.module)
                con = self.reg.get(key)
                if con is not None:
                    return self.apply_contract(st, con, [recv] + list(pos), kw)
                ci = self.class_info(c)
                if ci is not None and name in ci.methods:
                    raise Unsupported(f"method {key} has no contract")
        if isinstance(recv, VObj) and recv.kind in ("list", "dict", "set", "tlist"):
            return B.container_method(self, st, recv, name, pos, kw)
        if isinstance(recv, VObj) and recv.kind == "pylist" and name == "append" and len(pos) == 1 and not kw:
            # append to a list display of concrete length (heterogeneous / non-scalar entries): one more entry
            return [("ok", st.updobj(recv.oid, items=tuple(st.objs[recv.oid]["items"]) + (pos[0],)), NONE)]
        if isinstance(recv, VOpaque):
            return [("ok", st, VOpaque(recv.what + "." + name + "()"))]
        if isinstance(recv, VConc) and isinstance(recv.py, dict) and name == "get":
            # constant dict with (possibly symbolic) string key: case split over the keys
            key, dflt = pos[0], (pos[1] if len(pos) > 1 else NONE)
            res, rest = [], st
            for k, val in recv.py.items():
                c = self.eq(rest, key, VConc(k))
                miss = None
                for hit, s2 in self.branch(rest, c):
                    if hit:
                        res.append(("ok", s2, val))
                    else:
                        miss = s2
                if miss is None:
                    return res
                rest = miss
            res.append(("ok", rest, dflt))
            return res
        if isinstance(recv, VConc) and isinstance(recv.py, str):
            return B.str_method(self, st, recv, name, pos, kw)
        if isinstance(recv, VStr):
            return B.str_method(self, st, recv, name, pos, kw)
        raise Unsupported(f"method {name} on {recv!r}")

    def call_unbound(self, st, clsname, name, pos, kw):
        from . import builtins as B
        if clsname in ("list", "dict", "set"):
            recv = pos[0]
            if not isinstance(recv, VObj):
                raise Unsupported(f"{clsname}.{name} on {recv!r}")
            return B.container_method(self, st, recv, name, pos[1:], kw)
        # Class.method(self, ...)  (e.g. DictList.get_by_id(self, attr))
        for c in self.mro(clsname):
            key = f"{c}.{name}"
            con = self.reg.get(key)
            if con is not None and key not in self.reg.inline:
                return self.apply_contract(st, con, pos, kw)
            ci = self.class_info(c)
            if ci is not None and name in ci.methods and key in self.reg.inline:
                return self.call_closure(st, ci.methods[name], None, pos, kw, module=ci.module)
        raise Unsupported(f"unbound call {clsname}.{name}")

    def bind_params(self, fn, pos, kw, st, fid_def):
        """Python parameter binding for a FunctionDef/Lambda (positional, defaults, *args, keywords)."""
        a = fn.args
        names = [x.arg for x in a.posonlyargs + a.args]
        vals = {}
        pos = list(pos)
        if len(pos) > len(names) and a.vararg is None:
            raise Unsupported("too many positional arguments")
        for n, v in zip(names, pos):
            vals[n] = v
        if a.vararg is not None:
            vals[a.vararg.arg] = VTuple(pos[len(names):])
        extra_kw = {}
        allnames = set(names) | {x.arg for x in a.kwonlyargs}
        for k, v in kw.items():
            if k in vals:
                raise Unsupported("duplicate argument")
            if k not in allnames and a.kwarg is not None:
                extra_kw[k] = v
            else:
                vals[k] = v
        if a.kwarg is not None:
            vals[a.kwarg.arg] = VConc(dict(extra_kw, __kwargs__=True))
        outs = [("ok", st, vals)]
        defaults = list(a.defaults)
        dnames = names[len(names) - len(defaults):]
        pending = [(n, d) for n, d in zip(dnames, defaults) if n not in vals]
        pending += [(x.arg, d) for x, d in zip(a.kwonlyargs, a.kw_defaults) if x.arg not in vals and d is not None]
        for n, d in pending:
            def step(s, vs, n=n, d=d):
                return [(k, s2, dict(vs, **{n: v}) if k == "ok" else v) for k, s2, v in self.eval(d, s, fid_def)]
            outs = self.bind(outs, step)
        missing = [n for n in names if n not in vals and n not in [p[0] for p in pending]]
        if missing:
            raise Unsupported(f"missing arguments {missing}")
        return outs

    def call_closure(self, st, fn, parent_fid, pos, kw, module=None):
        if self.call_depth > 12:
            raise Unsupported("inlining depth exceeded")

        def enter(s, vals):
            fid = new_fid()
            s = s.with_frame(fid, parent_fid, vals)
            saved = self.mod
            if module is not None:
                self.mod = module
            self.call_depth += 1
            try:
                if isinstance(fn, ast.Lambda):
                    return self.eval(fn.body, s, fid)
                res = []
                for k, s2, v in self.exec_block(fn.body, s, fid):
                    if k == "return":
                        res.append(("ok", s2, v))
                    elif k == "next":
                        res.append(("ok", s2, NONE))
                    elif k == "raise":
                        res.append((k, s2, v))
                    else:
                        raise Unsupported(f"{k} outside loop")
                return res
            finally:
                self.call_depth -= 1
                self.mod = saved
        # defaults are evaluated in the defining scope (approximation: at call time, same values for constants)
        return self.bind(self.bind_params(fn, pos, kw, st, parent_fid if parent_fid else self._top_fid), enter)

    # ------------------------------------------------------------------ contracts at call sites
    def bind_contract_args(self, con, pos, kw):
        names = [n for n, _ in con.params]
        a = {}
        pos = list(pos)
        varargs = [n for n in names if n.startswith("*")]
        plain = [n for n in names if not n.startswith("*")]
        for n, v in zip(plain, pos):
            a[n] = v
        if len(pos) > len(plain):
            if varargs:
                a[varargs[0][1:]] = VTuple(pos[len(plain):])
            else:
                raise Unsupported(f"too many args for contract {con.key}")
        elif varargs:
            a[varargs[0][1:]] = VTuple(())
        for k, v in kw.items():
            a[k] = v
        return a

    def apply_contract(self, st, con, pos, kw, constructing=None):
        from .apply import apply_contract
        return apply_contract(self, st, con, pos, kw, constructing)

    # ------------------------------------------------------------------ statements
    def exec_block(self, stmts, st, fid):
        outs = [("next", st, None)]
        for stmt in stmts:
            new = []
            for k, s, v in outs:
                if k == "next":
                    new.extend(self.exec(stmt, s, fid))
                else:
                    new.append((k, s, v))
            outs = new
            if not any(k == "next" for k, _, _ in outs):
                break
        return outs

    def exec(self, node, st, fid):
        m = getattr(self, "s_" + type(node).__name__, None)
        if m is None:
            raise Unsupported(f"statement {type(node).__name__} at line {node.lineno}")
        return m(node, st, fid)

    def _stmt(self, outs, f=None):
        """expression outcomes -> statement outcomes"""
        res = []
        for k, s, v in outs:
            if k == "ok":
                if f:
                    res.extend(f(s, v))
                else:
                    res.append(("next", s, None))
            else:
                res.append((k, s, v))
        return res

    def s_Pass(self, node, st, fid):
        return [("next", st, None)]

    def s_Global(self, node, st, fid):
        # `global X`: later assignments to X in this function write the module-level variable (ghost ("global", X)), reads fall
        # through to it (e_Name); a name that is ALSO a pseudo-parameter of the contract under verification (the module global
        # as seen at entry) keeps being read and written as that local
        decl = st.ghost.get(("gdecl", fid), ())
        names = tuple(n for n in node.names if st.lookup(fid, n) is None)
        return [("next", st.setghost(("gdecl", fid), decl + names), None)]

    s_Nonlocal = s_Global

    def s_Import(self, node, st, fid):
        return [("next", st, None)]

    s_ImportFrom = s_Import

    def s_Expr(self, node, st, fid):
        if isinstance(node.value, ast.Constant):
            return [("next", st, None)]  # docstring
        if isinstance(node.value, ast.Call):
            f = node.value.func
            # logging / warnings: arguments evaluated only for their exceptions are dropped (DESIGN 2.1)
            if isinstance(f, ast.Attribute) and isinstance(f.value, ast.Name) and f.value.id in ("logger", "LOGGER", "warnings"):
                h = self.hooks.get("log_call")
                if h:
                    # a contract module may OBSERVE the call (ghost counter / trace): hook(eng, st, receiver name, method name,
                    # call node) -> new state or None; the arguments are still not evaluated
                    r = h(self, st, f.value.id, f.attr, node.value)
                    if r is not None:
                        return [("next", r, None)]
                return [("next", st, None)]
            if isinstance(f, ast.Name) and f.id in ("warn", "print"):
                return [("next", st, None)]
        return self._stmt(self.eval(node.value, st, fid))

    def s_Return(self, node, st, fid):
        if node.value is None:
            return [("return", st, NONE)]
        return self._stmt(self.eval(node.value, st, fid), lambda s, v: [("return", s, v)])

    def s_Raise(self, node, st, fid):
        if node.exc is None:
            cur = st.ghost.get("handling")
            if cur is None:
                raise Unsupported("bare raise outside handler")
            return [("raise", st, cur)]

        def mk(s, v):
            if isinstance(v, VClass):
                v = VExc(v.name)
            if not isinstance(v, VExc):
                raise Unsupported(f"raise of {v!r}")
            return [("raise", s, v)]
        return self._stmt(self.eval(node.exc, st, fid), mk)

    def s_Assert(self, node, st, fid):
        def chk(s, v):
            res = []
            for val, s2 in self.branch(s, self.truth(s, v)):
                res.append(("next", s2, None) if val else ("raise", s2, VExc("AssertionError")))
            return res
        return self._stmt(self.eval(node.test, st, fid), chk)

    def s_FunctionDef(self, node, st, fid):
        return [("next", st.setvar(fid, node.name, VFunc("closure", node, fid)), None)]

    def assign(self, target, st, fid, val):
        """-> expression-style outcomes"""
        from . import builtins as B
        if isinstance(target, ast.Name):
            owner = fid
            if target.id in st.ghost.get(("gdecl", fid), ()):
                return [("ok", st.setghost(("global", target.id), val), NONE)]
            return [("ok", st.setvar(owner, target.id, val), NONE)]
        if isinstance(target, (ast.Tuple, ast.List)):
            items = B.unpack(self, st, val, len(target.elts))
            outs = [("ok", st, NONE)]
            for t, v in zip(target.elts, items):
                outs = self.bind(outs, lambda s, _, t=t, v=v: self.assign(t, s, fid, v))
            return outs
        if isinstance(target, ast.Attribute):
            return self.bind(self.eval(target.value, st, fid), lambda s, o: self.setattr(s, o, target.attr, val))
        if isinstance(target, ast.Subscript):
            return self.bind(self.eval_many([target.value, target.slice], st, fid),
                             lambda s, vs: B.setitem(self, s, vs[0], vs[1], val))
        raise Unsupported(f"assignment target {type(target).__name__}")

    def s_Assign(self, node, st, fid):
        def after(s, v):
            outs = [("ok", s, NONE)]
            for t in node.targets:
                outs = self.bind(outs, lambda s2, _, t=t: self.assign(t, s2, fid, v))
            return outs
        return self._stmt(self.bind(self.eval(node.value, st, fid), after))

    def s_AnnAssign(self, node, st, fid):
        if node.value is None:
            return [("next", st, None)]
        return self._stmt(self.bind(self.eval(node.value, st, fid), lambda s, v: self.assign(node.target, s, fid, v)))

    def s_AugAssign(self, node, st, fid):
        tgt = node.target
        load = ast.copy_location(type(tgt)(**{**{f: getattr(tgt, f) for f in tgt._fields}, "ctx": ast.Load()}), tgt)

        def after(s, vs):
            cur, rhs = vs
            if isinstance(cur, (VObj, VRef)) and not (isinstance(cur, VObj) and cur.cls in ("list", "dict", "set")):
                dunder = {ast.Add: "__iadd__", ast.Sub: "__isub__", ast.Mult: "__imul__"}.get(type(node.op))
                if dunder:
                    return self.bind(self.call_method(s, cur, dunder, [rhs], {}),
                                     lambda s2, r: self.assign(tgt, s2, fid, r))
            return self.bind(self.binop(s, node.op, cur, rhs), lambda s2, r: self.assign(tgt, s2, fid, r))
        return self._stmt(self.bind(self.eval_many([load, node.value], st, fid), after))

    def s_Delete(self, node, st, fid):
        from . import builtins as B
        outs = [("ok", st, NONE)]
        for t in node.targets:
            if isinstance(t, ast.Subscript):
                outs = self.bind(outs, lambda s, _, t=t: self.bind(
                    self.eval_many([t.value, t.slice], s, fid), lambda s2, vs: B.delitem(self, s2, vs[0], vs[1])))
            elif isinstance(t, ast.Name):
                outs = self.bind(outs, lambda s, _, t=t: [("ok", s.delvar(fid, t.id), NONE)])
            else:
                raise Unsupported("del of attribute")
        return self._stmt(outs)

    def s_If(self, node, st, fid):
        def after(s, c):
            res = []
            for val, s2 in self.branch(s, self.truth(s, c)):
                res.extend(self.exec_block(node.body if val else node.orelse, s2, fid))
            return res
        return self._stmt(self.eval(node.test, st, fid), after)

    def s_Try(self, node, st, fid):
        res = []
        body_outs = self.exec_block(node.body, st, fid)
        after_handlers = []
        for k, s, v in body_outs:
            if k == "raise":
                handled = False
                for h in node.handlers:
                    names = self.handler_names(h, s, fid)
                    if names is None or any(exc_isa(v.cls, n) for n in names):
                        s2 = s
                        if h.name:
                            s2 = s2.setvar(fid, h.name, v)
                        prev = s2.ghost.get("handling")
                        s2 = s2.setghost("handling", v)
                        for k3, s3, v3 in self.exec_block(h.body, s2, fid):
                            after_handlers.append((k3, s3.setghost("handling", prev), v3))
                        handled = True
                        break
                if not handled:
                    after_handlers.append((k, s, v))
            elif k == "next" and node.orelse:
                after_handlers.extend(self.exec_block(node.orelse, s, fid))
            else:
                after_handlers.append((k, s, v))
        if not node.finalbody:
            return after_handlers
        for k, s, v in after_handlers:
            for k2, s2, v2 in self.exec_block(node.finalbody, s, fid):
                if k2 == "next":
                    res.append((k, s2, v))
                else:
                    res.append((k2, s2, v2))
        return res

    def handler_names(self, h, st, fid):
        if h.type is None:
            return None
        ts = h.type.elts if isinstance(h.type, ast.Tuple) else [h.type]
        names = []
        for t in ts:
            if isinstance(t, ast.Name):
                names.append(t.id)
            elif isinstance(t, ast.Attribute):
                names.append(t.attr)
            else:
                raise Unsupported("computed exception class")
        return names

    def s_With(self, node, st, fid):
        if len(node.items) != 1:
            raise Unsupported("multi-item with")
        item = node.items[0]

        def after_ctx(s, cm):
            def after_enter(s2, entered):
                outs = [("ok", s2, NONE)]
                if item.optional_vars is not None:
                    outs = self.assign(item.optional_vars, s2, fid, entered)
                res = []
                for k3, s3, v3 in outs:
                    if k3 != "ok":
                        res.append((k3, s3, v3))
                        continue
                    for k4, s4, v4 in self.exec_block(node.body, s3, fid):
                        exc_args = [NONE, NONE, NONE] if k4 != "raise" else [VClass(v4.cls), v4, VOpaque("tb")]
                        for k5, s5, v5 in self.call_method(s4, cm, "__exit__", exc_args, {}):
                            if k5 != "ok":
                                res.append((k5, s5, v5))
                            elif k4 == "raise":
                                # __exit__ returning a true value would swallow the exception
                                for val, s6 in self.branch(s5, self.truth(s5, v5)):
                                    res.append(("next", s6, None) if val else (k4, s6, v4))
                            else:
                                res.append((k4, s5, v4))
                return res
            return self._stmt(self.call_method(s, cm, "__enter__", [], {}), after_enter)
        return self._stmt(self.eval(item.context_expr, st, fid), after_ctx)

    def s_While(self, node, st, fid):
        from . import loops
        return loops.exec_while(self, node, st, fid)

    def s_For(self, node, st, fid):
        from . import loops
        return loops.exec_for(self, node, st, fid)

    def s_Break(self, node, st, fid):
        return [("break", st, None)]

    def s_Continue(self, node, st, fid):
        return [("continue", st, None)]

    _top_fid = None
