"""Discharge obligations: z3 (python API, per-process) first, /usr/bin/cvc5 on z3's `unknown`.

unsat of (hyps and not goal)  -> discharged
sat                            -> failed (counter-model)
unknown / timeout everywhere   -> undecided   (never mapped to a violation)
"""
import os
import subprocess
import tempfile
import time
import multiprocessing as mp
import z3
from .values import lit_axioms

Z3_TIMEOUT_MS = int(os.environ.get("PYVC_Z3_TIMEOUT_MS", "30000"))
CVC5_TIMEOUT_S = int(os.environ.get("PYVC_CVC5_TIMEOUT_S", "60"))
Z3_RETRY_TIMEOUT_MS = int(os.environ.get("PYVC_Z3_RETRY_TIMEOUT_MS", str(min(Z3_TIMEOUT_MS, 20000))))
RETRY_SEEDS = (7, 23, 101, 2024)
RLIMIT_PER_MS = int(os.environ.get("PYVC_RLIMIT_PER_MS", "3300"))
WALL_FACTOR = int(os.environ.get("PYVC_WALL_FACTOR", "5"))
CVC5 = "/usr/bin/cvc5"


# "gates": names of FREE Boolean constants that contract modules use to state a family of clauses as `GATE -> clause` (the ghost-trace
# clauses of the in-context contracts).  For a goal that does not mention a gate, the hypotheses `GATE -> X` (top-level conjuncts) are
# left out: proving from FEWER hypotheses is sound, and what is proved for the gate False follows for the gate True because the gate
# occurs only as the antecedent of hypotheses (H(True) implies H(False)).  Without this the trace quantifiers sit in front of the
# solver while it proves the clauses about the final state (7 obligations of 100 - 200 s each, decided on a retry seed only).
GATES = set()


def _mentions(term, names, _seen=None):
    seen = set() if _seen is None else _seen
    todo = [term]
    while todo:
        t = todo.pop()
        i = t.get_id()
        if i in seen:
            continue
        seen.add(i)
        if z3.is_quantifier(t):
            todo.append(t.body())
        elif z3.is_app(t):
            if t.num_args() == 0:
                if t.decl().name() in names:
                    return True
            else:
                todo.extend(t.children())
    return False


def gate_filter(hyps, goal):
    if not GATES or _mentions(goal, GATES):
        return hyps
    from .engine import flatten_and
    flat = []
    for h in hyps:
        flat.extend(flatten_and(h) if z3.is_and(h) else [h])
    # a gate that is ASSERTED among the hypotheses (the glue lemmas take the post-condition with the gate True) is not filtered
    asserted = {c.decl().name() for c in flat if z3.is_const(c) and c.decl().name() in GATES}
    out = []
    for c in flat:
        if z3.is_implies(c) and z3.is_const(c.arg(0)) and c.arg(0).decl().name() in GATES \
                and c.arg(0).decl().name() not in asserted:
            continue
        out.append(c)
    return out if len(out) < len(flat) else hyps


def _smt2_of(hyps, goal):
    s = z3.Solver()
    for h in hyps:
        s.add(h)
    for a in lit_axioms():
        s.add(a)
    s.add(z3.Not(goal))
    return s.to_smt2()


def to_smt2(obl):
    """-> the query text; when the gate filter left hypotheses out, the pair (filtered text, full text): the filtered query may only
    PROVE (unsat) - a model or `unknown` of a query with fewer hypotheses says nothing, the full query decides then"""
    filtered = gate_filter(obl.hyps, obl.goal)
    if filtered is obl.hyps:
        return _smt2_of(obl.hyps, obl.goal)
    return (_smt2_of(filtered, obl.goal), _smt2_of(obl.hyps, obl.goal))


def _run_z3(smt2, timeout_ms, seed=None):
    t0 = time.time()
    try:
        ctx = z3.Context()
        s = z3.Solver(ctx=ctx)
        # the budget is a RESOURCE limit (deterministic, ~3.3 M z3 resource units per second on this image, i.e. the nominal
        # timeout on an idle machine); the wall-clock cap is a backstop at five times the nominal value, so that a verdict does
        # not flip from unsat to unknown because the other cores are busy
        s.set("timeout", timeout_ms * WALL_FACTOR)
        s.set("rlimit", timeout_ms * RLIMIT_PER_MS)
        if seed is not None:
            s.set("random_seed", seed)
            s.set("smt.random_seed", seed)
        s.from_string(smt2)
        r = s.check()
        if os.environ.get("PYVC_RLIMIT_LOG"):
            try:
                rl = dict((k, v) for k, v in s.statistics()).get("rlimit count")
                with open(os.environ["PYVC_RLIMIT_LOG"], "a") as fh:
                    fh.write(f"{r} {time.time() - t0:.3f} {rl}\n")
            except Exception:  # noqa
                pass
        if r == z3.unsat:
            return "unsat", time.time() - t0, ""
        if r == z3.sat:
            return "sat", time.time() - t0, str(s.model())[:4000]
        return "unknown", time.time() - t0, s.reason_unknown()
    except Exception as e:  # noqa
        return "error", time.time() - t0, repr(e)


def _run_cvc5(smt2, timeout_s):
    t0 = time.time()
    text = "(set-logic ALL)\n" + "\n".join(l for l in smt2.splitlines() if not l.startswith("(set-info"))
    with tempfile.NamedTemporaryFile("w", suffix=".smt2", delete=False) as fh:
        fh.write(text)
        path = fh.name
    try:
        p = subprocess.run([CVC5, "--lang=smt2", f"--tlimit={timeout_s * 1000}", path], capture_output=True, text=True,
                           timeout=timeout_s + 10)
        out = (p.stdout or "").strip().splitlines()
        r = out[0] if out else "unknown"
        if r not in ("sat", "unsat"):
            r = "unknown"
        return r, time.time() - t0, (p.stderr or "")[:500]
    except Exception as e:  # noqa
        return "unknown", time.time() - t0, repr(e)
    finally:
        os.unlink(path)


# Failure-path budget.  On the unchanged tree no obligation ends `unknown`, so the full ladder (first attempt, four retry seeds, cvc5)
# only ever costs time when it SUCCEEDS.  On a changed tree many obligations of the changed function are undecidable at once, and
# paying the full ladder for each (~13 min under load) made a check run for hours.  Per worker process: the first FULL_LADDERS
# obligations that end undecided get the whole ladder, the next ones two retry seeds and no cvc5, and after FAST_AFTER undecided
# obligations a worker only makes the first attempt, with a third of the budget.  Verdicts are unaffected: undecided stays undecided.
FULL_LADDERS = int(os.environ.get("PYVC_FULL_LADDERS", "2"))
FAST_AFTER = int(os.environ.get("PYVC_FAST_AFTER", "5"))
VERY_FAST_AFTER = int(os.environ.get("PYVC_VERY_FAST_AFTER", "12"))
_UNDECIDED_HERE = [0]


def _work(item):
    name, smt2, second = item
    t_pre = 0.0
    fails = _UNDECIDED_HERE[0]
    first_budget = Z3_TIMEOUT_MS if fails < FAST_AFTER else max(3000, Z3_TIMEOUT_MS // 3)
    if fails >= VERY_FAST_AFTER:
        first_budget = min(first_budget, 3000)      # a changed function with dozens of undecidable obligations: 3 s each
    if isinstance(smt2, tuple):
        # gate-filtered query first: it may only prove; anything else falls through to the full query
        r0, t_pre, info0 = _run_z3(smt2[0], first_budget)
        if r0 == "unsat":
            return name, "unsat", "z3(gate-filtered hypotheses)", t_pre, "", None
        smt2 = smt2[1]
    r, t, info = _run_z3(smt2, first_budget)
    t += t_pre
    backend = "z3"
    agree = None
    if r in ("unknown", "error") and fails < FAST_AFTER:
        # quantifier instantiation is sensitive to incidental naming: before giving up, more attempts with other random seeds
        # (an obligation that normally takes a fraction of a second must not turn a check undecided because one run diverged)
        for seed in (RETRY_SEEDS if fails < FULL_LADDERS else RETRY_SEEDS[:2]):
            r1, t1, info1 = _run_z3(smt2, Z3_RETRY_TIMEOUT_MS, seed)
            t += t1
            if r1 in ("unsat", "sat"):
                r, info, backend = r1, info1, f"z3(seed={seed})"
                break
    if r in ("unknown", "error") and fails < FULL_LADDERS:
        r2, t2, info2 = _run_cvc5(smt2, CVC5_TIMEOUT_S)
        if r2 == "unsat":
            # cvc5 may answer unsat where z3 gives up; sat from cvc5 on quantified input is not used as a model
            r, backend, info = "unsat", "cvc5", info2
        elif r2 == "sat":
            r, backend, info = "unknown", "cvc5-sat-unconfirmed", info
        t += t2
    elif second and r == "unsat":
        r2, t2, _ = _run_cvc5(smt2, CVC5_TIMEOUT_S)
        agree = r2
        t += t2
    if r in ("unknown", "error"):
        _UNDECIDED_HERE[0] += 1
        if fails >= FULL_LADDERS:
            info = (info or "") + f" | reduced ladder (undecided obligation no. {fails + 1} of this worker)"
    return name, r, backend, t, info, agree


def discharge(obls, procs=None, second=False):
    """-> dict name -> (result, backend, seconds, info, agree)"""
    items = [(o.name, to_smt2(o), second) for o in obls]
    procs = procs or min(16, max(1, len(items)))
    out = {}
    if not items:
        return out
    if procs == 1:
        for it in items:
            n, r, b, t, info, ag = _work(it)
            out[n] = (r, b, t, info, ag)
        return out
    from .pool import robust_map
    for n, r, b, t, info, ag in robust_map(_work, items, procs,
                                           lambda it: (it[0], "unknown", "crash", 0.0, "worker process died three times", None)):
        out[n] = (r, b, t, info, ag)
    return out


def model_for(obl, timeout_ms=20000):
    """Re-solve in process to get a model object (only used on failed obligations)."""
    s = z3.Solver()
    s.set("timeout", timeout_ms)
    for h in obl.hyps:
        s.add(h)
    for a in lit_axioms():
        s.add(a)
    s.add(z3.Not(obl.goal))
    if s.check() == z3.sat:
        return s.model()
    return None
