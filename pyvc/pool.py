"""A process pool that survives the death of a worker.

`multiprocessing.Pool.imap*` waits for ever when a worker process dies (observed once: a segfault inside libz3 during a path
feasibility query left a check hanging with every process idle).  `robust_map` uses `concurrent.futures.ProcessPoolExecutor`,
which reports a dead worker as `BrokenProcessPool` on every item that was pending; those items are run again in a fresh pool,
and, if that pool breaks too, one item per single-worker pool so that the item that kills its worker is isolated.  An item whose
worker dies even in isolation is mapped to `crashed(item)` (the callers turn that into a checker error / an undecided obligation -
never into a verdict).
"""
import multiprocessing as mp
from concurrent.futures import ProcessPoolExecutor, ThreadPoolExecutor, as_completed
from concurrent.futures.process import BrokenProcessPool

CRASHES = []      # (repr of the item, round) - for the evidence


def _round(fn, items, procs):
    """-> (results, unfinished items)"""
    ctx = mp.get_context("fork")
    done, left = [], []
    ex = ProcessPoolExecutor(max_workers=procs, mp_context=ctx)
    try:
        futs = {ex.submit(fn, it): it for it in items}
        for f in as_completed(futs):
            try:
                done.append(f.result())
            except BrokenProcessPool:
                left.append(futs[f])
    finally:
        ex.shutdown(wait=True, cancel_futures=True)
    return done, left


def _alone(fn, it):
    done, left = _round(fn, [it], 1)
    return (True, done[0]) if done else (False, None)


def robust_map(fn, items, procs, crashed):
    items = list(items)
    if not items:
        return []
    out, left = _round(fn, items, procs)
    if left:
        CRASHES.append((f"{len(left)} item(s) pending when a worker died", 1))
        more, left = _round(fn, left, procs)
        out += more
    if left:
        CRASHES.append((f"{len(left)} item(s) pending when a worker died again", 2))
        with ThreadPoolExecutor(max_workers=procs) as tp:
            for it, (ok, r) in zip(left, tp.map(lambda it: _alone(fn, it), left)):
                if ok:
                    out.append(r)
                else:
                    CRASHES.append((repr(it)[:200], 3))
                    out.append(crashed(it))
    return out
