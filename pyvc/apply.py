"""Modular call rule: assert pre; per case: assume requires, havoc frame, assume ensures."""
import os
import z3
from .values import *  # noqa
from .state import *  # noqa
from .contract import Env
from .loops import havoc_locations


def make_result(eng, st, con, E, case=None):
    r = con.result
    if case is not None and getattr(case, "result", None) is not None:
        r = case.result
    if r is None:
        return st, NONE
    if callable(r):
        return r(eng, st, E)
    if r == "real":
        v, c = xr_fresh("res")
        return st.assume(c), v
    if r == "opaque":
        return st, VOpaque("result")
    if r == "self":
        return st, E.a["self"]
    if r.startswith("ref:"):
        return st, VRef(fresh("res", Ref), r[4:])
    return st, wrap(fresh("res", sort_of(r)), r)


ASSUMED_USED = {}      # key -> note of every ASSUMED contract applied at a call site in this process (reported in the evidence)


def apply_contract(eng, st, con, pos, kw, constructing=None):
    if con.assumed:
        ASSUMED_USED[con.key] = con.note
    if constructing is not None:
        # the object under construction is created by the contract's `result` builder before binding `self`
        a = eng.bind_contract_args(con, [None] + list(pos), kw)
    else:
        a = eng.bind_contract_args(con, pos, kw)
    for (n, t) in con.params:
        nm = n.lstrip("*")
        if nm not in a and ("global", nm) in st.ghost:
            a[nm] = st.ghost[("global", nm)]          # a module global the callee reads (pseudo-parameter of its contract)
        if nm not in a:
            d = getattr(t, "default", None)
            if d is None:
                raise Unsupported(f"missing argument {nm} for contract {con.key}")
            a[nm] = d
    E0 = Env(a, st, eng=eng)
    if constructing is not None:
        st, selfv = con.result(eng, st, E0)
        a["self"] = selfv
        E0 = Env(a, st, eng=eng)
    # the callee's precondition is obliged from what the CALLER knows: the callee's `axioms=` (definitions of ITS spec functions) are
    # assumed only afterwards.  (They used to be assumed first; an axiom that says more than a definition - found with a fastcc
    # contract - then made the precondition follow from the callee's own axiom and a mutant verified.)  PYVC_AXIOMS_FIRST=1 restores
    # the old order for comparison.
    ax = con.axioms(E0)
    axioms_first = bool(os.environ.get("PYVC_AXIOMS_FIRST")) or getattr(con, "axioms_before_pre", False)
    if ax and axioms_first:
        known = {c.get_id() for c in st.pc}
        st = st.assume(*[c for c in ax if c.get_id() not in known])
        E0 = Env(a, st, eng=eng)
    pre = con.pre(E0)
    if not z3.is_true(pre):
        eng.oblige(st, pre, f"call:{con.key}/pre", kind="callpre")
    if ax and not axioms_first:
        known = {c.get_id() for c in st.pc}
        st = st.assume(*[c for c in ax if c.get_id() not in known])
        E0 = Env(a, st, eng=eng)
    if not z3.is_true(pre):
        st = st.assume(pre)
    res = []
    reqs = []
    for case in (getattr(con, "call_cases", None) or con.cases):
        applies = getattr(case, "applies", None)
        if applies is not None and not applies(a, st):
            continue
        types = getattr(case, "types", None)
        if types and any(not isinstance(a.get(k), t) and not (t is VStr and isinstance(a.get(k), VConc))
                         for k, t in types.items()):
            continue
        req = case.requires(E0)
        reqs.append(req)
        s1 = st.assume(req)
        if not eng.feasible(s1):
            continue
        E = Env(a, st, eng=eng)
        locs = con.modifies(E) if case.raises is None else getattr(case, "modifies_on_raise", lambda E: [])(E)
        s2 = havoc_locations(eng, s1, locs)
        if case.raises is None:
            if constructing is not None:
                result = a["self"]
            else:
                s2, result = make_result(eng, s2, con, Env(a, st, s2, eng=eng), case)
            ens = case.ensures(Env(a, st, s2, res=result, eng=eng))
            if z3.is_false(ens) or z3.is_false(z3.simplify(ens)):
                # the post-condition cannot even be stated for the result the contract builds at a call site (typically a missing
                # `result=` builder): dropping the normal outcome silently would make the caller's proof vacuous
                raise Unsupported(f"contract {con.key} case {case.name}: post-condition is literally False at this call site "
                                  f"(no usable result builder?)")
            s2n = s2.assume(ens)
            if eng.feasible(s2n):
                res.append(("ok", s2n, result))
            mr = getattr(case, "may_raise", None)
            if mr:
                er = getattr(case, "ensures_on_raise", None) or case.ensures
                s2r = s2.assume(er(Env(a, st, s2, exc=mr, eng=eng)))
                if eng.feasible(s2r):
                    res.append(("raise", s2r, VExc(mr)))
        else:
            ens = case.ensures(Env(a, st, s2, exc=case.raises, eng=eng))
            s2 = s2.assume(ens)
            if eng.feasible(s2):
                res.append(("raise", s2, VExc(case.raises)))
    if not reqs:
        raise Unsupported(f"no case of contract {con.key} accepts these argument types: "
                          f"{ {k: type(v).__name__ for k, v in a.items()} }")
    # the cases must cover the precondition at this call site
    eng.oblige(st, z3.Or(*reqs) if reqs else z3.BoolVal(False), f"call:{con.key}/cases-cover", kind="callpre")
    return res
