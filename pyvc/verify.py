"""Generate the obligations of one contract from the real source of its function."""
import ast
import traceback
import z3
from .values import *  # noqa
from .state import *  # noqa
from .contract import *  # noqa
from .engine import flatten_and, Engine, Obl, exc_isa
from . import source


def _loop_ordinals(fn):
    out = {}

    class V(ast.NodeVisitor):
        n = 0

        def visit_For(self, node):
            out[id(node)] = V.n
            V.n += 1
            self.generic_visit(node)
        visit_While = visit_For
    V.n = 0
    V().visit(fn)
    return out


def reachable_objs(st, vals):
    seen, out, todo = set(), [], list(vals)
    while todo:
        v = todo.pop()
        if isinstance(v, VTuple):
            todo.extend(v.items)
        if isinstance(v, VObj) and v.oid not in seen:
            seen.add(v.oid)
            out.append(v)
            rec = st.objs.get(v.oid, {})
            for k, x in rec.items():
                if k.startswith("attr:") and isinstance(x, Value):
                    todo.append(x)
    return out


def unchanged_obj(s0, s1, v, v1=None, skip_attrs=(), skip_oids=()):
    """content of materialised object v in s1 (or of v1 in s1) equals content of v in s0 (structural, recursive)"""
    v1 = v1 or v
    r0, r1 = s0.objs[v.oid], s1.objs.get(v1.oid)
    if r1 is None:
        return z3.BoolVal(True)
    if r1 is r0 and not any(k.startswith("attr:") and isinstance(x, VObj) for k, x in r0.items()):
        return z3.BoolVal(True)
    # (an identical record still has to be descended into: a sub-object held in an attribute has its own record, which may have
    #  changed - e.g. the `_dict` index of a DictList that is an attribute of a materialised model; sub-objects listed in the
    #  modifies clause (skip_oids) are exempt)
    cs = []
    if v.kind == "list":
        if not (r1["len"].eq(r0["len"]) and r1["elem"].eq(r0["elem"])):
            j = z3.Const(fresh_name("fj"), z3.IntSort())
            cs.append(r1["len"] == r0["len"])
            cs.append(FA([j], z3.Implies(z3.And(0 <= j, j < r0["len"]),
                                         z3.Select(r1["elem"], j) == z3.Select(r0["elem"], j))))
    elif v.kind == "dict":
        if r0.get("pure") or r1.get("pure"):
            same = bool(r0.get("pure") and r1.get("pure")) and len(r0["pyitems"]) == len(r1["pyitems"]) and all(
                a[0] == b[0] and a[1] is b[1] for a, b in zip(r0["pyitems"], r1["pyitems"]))
            cs.append(z3.BoolVal(same))
        elif r0.get("lazy") or r1.get("lazy"):
            if not (r0.get("lazy") and r1.get("lazy")):
                k = z3.Const(fresh_name("fk"), (r1 if r0.get("lazy") else r0)["dom"].sort().domain())
                cs.append(FA([k], z3.Not(z3.Select((r1 if r0.get("lazy") else r0)["dom"], k))))
        elif not (r1["dom"].eq(r0["dom"]) and r1["val"].eq(r0["val"])):
            k = z3.Const(fresh_name("fk"), r0["dom"].sort().domain())
            cs.append(FA([k], z3.And(z3.Select(r1["dom"], k) == z3.Select(r0["dom"], k),
                                     z3.Implies(z3.Select(r0["dom"], k),
                                                z3.Select(r1["val"], k) == z3.Select(r0["val"], k)))))
    elif v.kind == "set" and not r0.get("lazy"):
        if not r1["dom"].eq(r0["dom"]):
            k = z3.Const(fresh_name("fk"), r0["dom"].sort().domain())
            cs.append(FA([k], z3.Select(r1["dom"], k) == z3.Select(r0["dom"], k)))
    for key in r0:
        if key.startswith("attr:") and (v.oid, key[5:]) not in skip_attrs:
            a0, a1 = r0[key], r1.get(key)
            if isinstance(a0, VObj):
                if a0.oid in skip_oids:
                    continue
                if not (isinstance(a1, VObj) and a1.kind == a0.kind):
                    cs.append(z3.BoolVal(False))
                elif a1.oid != a0.oid or s1.objs.get(a1.oid) is not s0.objs.get(a0.oid):
                    # a replaced-but-equal private container is unobservable: compare structurally
                    cs.append(unchanged_obj(s0, s1, a0, a1, skip_attrs, skip_oids))
            elif isinstance(a0, (VInt, VBool, VStr, VRef)):
                if not (type(a1) is type(a0)):
                    cs.append(z3.BoolVal(False))
                elif not a1.t.eq(a0.t):
                    cs.append(a1.t == a0.t)
    cs = [c for c in cs if not z3.is_true(c)]
    return z3.And(*cs) if cs else z3.BoolVal(True)


def frame_goal(eng, con, E, s0, s1, modified):
    """Everything not listed in `modified` is unchanged."""
    mod_oids = {loc[1].oid for loc in modified if loc[0] in ("list", "dict", "set", "obj", "record_put", "record_keys")}
    mod_heap = {loc[1] for loc in modified if loc[0] == "heap"}
    mod_attrs = {(loc[1].oid, loc[2]) for loc in modified if loc[0] == "attr"}
    for loc in modified:
        if loc[0] == "attr":
            cur = s0.objs[loc[1].oid].get("attr:" + loc[2])
            if isinstance(cur, VObj):
                mod_oids.add(cur.oid)
    cs = []
    for f, arr in s1.heap.items():
        if f in mod_heap or f in con.frame_exempt:
            continue
        a0 = s0.heap.get(f)
        if a0 is None:
            a0 = eng.heap_init(f)
        pairs = zip(arr, a0) if isinstance(arr, tuple) else [(arr, a0)]
        for x, y in pairs:
            if not x.eq(y):
                cs.append(x == y)
    tops = []
    for v in E.a.values():
        tops.extend(x for x in (v.items if isinstance(v, VTuple) else [v]) if isinstance(x, VObj))
    for v in tops:   # privately owned sub-objects are compared structurally through their owner
        if v.oid in mod_oids:
            continue
        cs.append(unchanged_obj(s0, s1, v, skip_attrs=mod_attrs, skip_oids=mod_oids))
    cs = [c for c in cs if not z3.is_true(c)]
    return z3.And(*cs) if cs else z3.BoolVal(True)


_TYPE_DEFAULT = {VStr: lambda: TStr(), VInt: lambda: TInt(), VBool: lambda: TBool(), VReal: lambda: TReal(),
                 VRef: lambda: TRef("Object"), VNone: lambda: TNone()}


def case_params(con, case):
    over = getattr(case, "params_override", {}) or {}
    types = getattr(case, "types", {}) or {}
    out = []
    for name, t in list(con.params) + list(getattr(con, "closure", None) or []):
        nm = name.lstrip("*")
        if nm in over:
            t = over[nm]
        elif nm in types and types[nm] in _TYPE_DEFAULT:
            t = _TYPE_DEFAULT[types[nm]]()
        out.append((name, t))
    return out


class CaseResult:
    def __init__(self):
        self.obls, self.paths, self.unsupported, self.error = [], 0, None, None


def verify_case(reg, con, case, hooks=None):
    """-> CaseResult"""
    res = CaseResult()
    mi = source.module(con.module)
    fn = mi.find(con.qual)
    eng = Engine(reg, hooks)
    eng.mod = mi
    eng.cur_contract = con
    eng.loop_ordinal = _loop_ordinals(fn)
    eng.prefix = f"{con.prop}/{con.module.replace('cobra/', '')}:{con.qual}/case={case.name}"
    st = State()
    a = {}
    for name, t in case_params(con, case):
        nm = name.lstrip("*")
        st, v = t.make(st, nm)
        a[nm] = v
    fid = new_fid()
    Engine._top_fid = fid
    eng._top_fid = fid
    clos = [n for n, _ in (getattr(con, "closure", None) or [])]
    if clos:
        # nested function: its free variables live in an enclosing frame, its parameters in its own
        outer = new_fid()
        st = st.with_frame(outer, None, {n: a[n] for n in clos})
        st = st.with_frame(fid, outer, {n: v for n, v in a.items() if n not in clos})
    else:
        st = st.with_frame(fid, None, a)
    E0 = Env(a, st, eng=eng)
    st = st.assume(*eng.kind_axioms(st))
    st = st.assume(*con.axioms(E0))
    st = st.assume(con.pre(E0), case.requires(E0))
    eng.entry_state, eng.entry_args = st, a
    try:
        if not eng.feasible(st):
            res.error = "case precondition is unsatisfiable (vacuous case)"
            return res
        outs = eng.exec_block(fn.body, st, fid)
    except Unsupported as e:
        res.unsupported = str(e)
        res.obls = eng.obls
        return res
    except RecursionError as e:
        res.unsupported = "recursion limit"
        return res
    names = {}
    for k, s, v in outs:
        res.paths += 1
        if k == "next":
            k, v = "return", NONE
        tag = "return" if k == "return" else f"raise:{v.cls}"
        names[tag] = names.get(tag, 0) + 1
        what = f"exit={tag}#{names[tag]}"
        E = Env(a, st, s, res=v if k == "return" else None, exc=v.cls if k == "raise" else None, eng=eng, role="goal")
        E.exc_value = v if k == "raise" else None      # the exception object itself (VExc: .cls, .args), for post-conditions on its message
        try:
            mr = getattr(case, "may_raise", None)
            if case.raises is None and k == "raise" and mr and exc_isa(v.cls, mr):
                er = getattr(case, "ensures_on_raise", None) or case.ensures
                goal = er(E)
                fr = frame_goal(eng, con, E, st, s, con.modifies(Env(a, st, eng=eng)))
            elif case.raises is None:
                if k != "return":
                    eng.obls.append(Obl(f"{eng.prefix}/{what}/unexpected-exception", s.pc, z3.BoolVal(False), "post",
                                        {"exit": tag}))
                    continue
                goal = case.ensures(E)
                fr = frame_goal(eng, con, E, st, s, con.modifies(Env(a, st, eng=eng)))
            else:
                if k != "raise" or not exc_isa(v.cls, case.raises):
                    eng.obls.append(Obl(f"{eng.prefix}/{what}/expected-{case.raises}", s.pc, z3.BoolVal(False), "post",
                                        {"exit": tag}))
                    continue
                goal = case.ensures(E)
                mor = getattr(case, "modifies_on_raise", None)
                fr = frame_goal(eng, con, E, st, s, mor(Env(a, st, eng=eng)) if mor else [])
        except Unsupported as e:
            res.unsupported = f"spec evaluation: {e}"
            continue
        parts = flatten_and(goal)       # one obligation per top-level conjunct: smaller queries, finer-grained reports
        for pi, g in enumerate(parts):
            nm = f"{eng.prefix}/{what}/post" + (f".{pi + 1}" if len(parts) > 1 else "")
            eng.obls.append(Obl(nm, s.pc, g, "post", {"exit": tag}))
        if not z3.is_true(fr):
            fparts = flatten_and(fr)
            for fi, g in enumerate(fparts):
                nm = f"{eng.prefix}/{what}/frame" + (f".{fi + 1}" if len(fparts) > 1 else "")
                eng.obls.append(Obl(nm, s.pc, g, "frame", {"exit": tag}))
    res.obls = eng.obls
    if res.paths == 0:
        res.error = "no feasible path"
    return res


def coverage_obligations(reg, con):
    """For each group of cases sharing parameter types: the case preconditions cover the domain predicate."""
    groups = {}
    for c in con.cases:
        sig = (tuple(sorted((k, t.__name__) for k, t in (getattr(c, "types", {}) or {}).items())),
               tuple(sorted((k, type(t).__name__ + str(len(getattr(t, "items", ())))) for k, t in
                            (getattr(c, "params_override", {}) or {}).items())))
        groups.setdefault(sig, []).append(c)
    out = []
    for gi, (sig, cases) in enumerate(groups.items()):
        eng = Engine(reg)
        st = State()
        a = {}
        for name, t in case_params(con, cases[0]):
            nm = name.lstrip("*")
            st, v = t.make(st, nm)
            a[nm] = v
        E0 = Env(a, st, eng=eng)
        st = st.assume(*con.axioms(E0))
        st = st.assume(con.pre(E0))
        dom = getattr(cases[0], "domain", None)
        if dom is not None:
            st = st.assume(dom(E0))
        reqs = [c.requires(E0) for c in cases]
        out.append(Obl(f"{con.prop}/{con.module.replace('cobra/', '')}:{con.qual}/cases-cover-domain#{gi}", st.pc,
                       z3.Or(*reqs), "cover"))
    return out
