"""Generate and discharge the obligations of a set of contracts, one (contract, case) per pool task."""
import multiprocessing as mp
import os
import time
import traceback
import z3
from . import verify, solve, source

_REG = None
_HOOKS = None
_SECOND = False


def _solve_local(obl, second):
    smt2 = solve.to_smt2(obl)
    name, r, backend, t, info, agree = solve._work((obl.name, smt2, second))
    return r, backend, t, info, agree


def _task(item):
    kind, key, case_name = item
    con = _REG.get(key)
    out = {"contract": key, "case": case_name, "records": [], "paths": 0, "unsupported": None, "error": None,
           "gen_s": 0.0, "assumed_used": {}}
    from . import apply as _apply0
    _apply0.ASSUMED_USED.clear()
    t0 = time.time()
    try:
        if kind == "cover":
            obls = verify.coverage_obligations(_REG, con)
        else:
            case = [c for c in con.cases if c.name == case_name][0]
            r = verify.verify_case(_REG, con, case, _HOOKS)
            obls = r.obls
            out["paths"], out["unsupported"], out["error"] = r.paths, r.unsupported, r.error
    except Exception as e:  # noqa
        out["error"] = "checker exception: " + "".join(traceback.format_exception_only(type(e), e)).strip() + \
            " @ " + traceback.format_exc().splitlines()[-3].strip()
        return out
    out["gen_s"] = time.time() - t0
    from . import apply as _apply
    out["assumed_used"] = dict(_apply.ASSUMED_USED)
    for o in obls:
        res, backend, t, info, agree = _solve_local(o, _SECOND)
        rec = {"name": o.name, "kind": o.kind, "result": res, "backend": backend, "seconds": round(t, 3),
               "info": info if res != "unsat" else "", "agree": agree, "witness": None}
        if res == "sat" and con.replay is not None:
            try:
                m = solve.model_for(o)
                if m is not None:
                    rec["witness"] = con.replay(m, o, case_name)
            except Exception as e:  # noqa
                rec["witness_error"] = repr(e)
        out["records"].append(rec)
    return out


def run_contracts(reg, cons, hooks=None, procs=None, second=False):
    """-> list of task results (dicts); see _task."""
    global _REG, _HOOKS, _SECOND
    _REG, _HOOKS, _SECOND = reg, hooks, second
    items = []
    for con in cons:
        if con.assumed:
            continue
        items.append(("cover", con.key, "-"))
        for case in con.cases:
            items.append(("case", con.key, case.name))
    procs = procs or min(int(os.environ.get("PYVC_PROCS", "16")), max(1, len(items)))
    if procs == 1:
        return [_task(it) for it in items]
    ctx = mp.get_context("fork")
    with ctx.Pool(procs) as pool:
        return list(pool.imap_unordered(_task, items, chunksize=1))


def function_info(con):
    mi = source.module(con.module)
    fn = mi.find(con.qual)
    a, b, sha = mi.segment(fn)
    return {"function": con.name, "contract_key": con.key, "file": "src/" + con.module, "lines": [a, b], "sha256": sha,
            "cases": [c.name for c in con.cases]}
