"""Front end: locate the real source of a function under contract in /repo's current working tree.

Nothing is copied into /verif: every run re-parses the file and selects the FunctionDef by qualified path.
Path syntax:  "DictList.insert", "resettable.wrapper" (nested def), "Reaction.lower_bound@setter",
"Reaction.functional@getter", "Model.medium@setter.set_active_bound".
What the extraction drops is stated in DESIGN.md 2.1 (docstrings, annotations, decorators-with-contracts, logging).
"""
import ast
import hashlib
import os

REPO = os.environ.get("VERIF_REPO", "/repo")
SRC = os.path.join(REPO, "src")

_cache = {}


class ClassInfo:
    def __init__(self, name, node, module):
        self.name, self.node, self.module = name, node, module
        self.bases = []
        for b in node.bases:
            if isinstance(b, ast.Name):
                self.bases.append(b.id)
            elif isinstance(b, ast.Attribute):
                self.bases.append(b.attr)
        self.methods = {}
        self.getters = {}
        self.setters = {}
        self.decorators = {}
        for item in node.body:
            if isinstance(item, ast.FunctionDef):
                decos = [_deco_name(d) for d in item.decorator_list]
                self.decorators[(item.name, "setter" if any(d.endswith(".setter") for d in decos) else
                                 "getter" if "property" in decos else "method")] = decos
                if "property" in decos:
                    self.getters[item.name] = item
                elif any(d.endswith(".setter") for d in decos):
                    self.setters[item.name] = item
                else:
                    self.methods[item.name] = item


def _deco_name(d):
    if isinstance(d, ast.Name):
        return d.id
    if isinstance(d, ast.Attribute):
        return _deco_name(d.value) + "." + d.attr
    if isinstance(d, ast.Call):
        return _deco_name(d.func)
    return "?"


def _nested_defs(body):
    """function definitions nested in the compound statements (if / for / while / with / try) of a body, in source order; the
    bodies of other function or class definitions are not entered"""
    out = []
    for stmt in body:
        if isinstance(stmt, (ast.FunctionDef, ast.ClassDef)):
            continue
        for field in ("body", "orelse", "finalbody"):
            sub = getattr(stmt, field, None)
            if isinstance(sub, list):
                out.extend(n for n in sub if isinstance(n, ast.FunctionDef))
                out.extend(_nested_defs(sub))
        for h in getattr(stmt, "handlers", []) or []:
            out.extend(n for n in h.body if isinstance(n, ast.FunctionDef))
            out.extend(_nested_defs(h.body))
    return out


class ModuleInfo:
    def __init__(self, relpath):
        self.relpath = relpath
        self.path = os.path.join(SRC, relpath)
        with open(self.path, "r", encoding="utf-8") as fh:
            self.text = fh.read()
        self.tree = ast.parse(self.text)
        self.lines = self.text.splitlines()
        self.classes = {}
        self.functions = {}
        self.imports = {}
        self.globals_assign = {}
        for item in self.tree.body:
            if isinstance(item, ast.ClassDef):
                self.classes[item.name] = ClassInfo(item.name, item, self)
            elif isinstance(item, ast.FunctionDef):
                self.functions[item.name] = item
            elif isinstance(item, (ast.Import, ast.ImportFrom)):
                modname = getattr(item, "module", None)
                level = getattr(item, "level", 0)
                if level:
                    pkg = relpath[:-3].replace("/", ".").split(".")[:-level]
                    modname = ".".join(pkg + ([modname] if modname else []))
                for a in item.names:
                    self.imports[a.asname or a.name.split(".")[0]] = (modname if isinstance(item, ast.ImportFrom) else None, a.name)
            elif isinstance(item, ast.Assign) and len(item.targets) == 1 and isinstance(item.targets[0], ast.Name):
                self.globals_assign[item.targets[0].id] = item.value
            elif isinstance(item, ast.If):
                # e.g. `if TYPE_CHECKING:` imports
                pass

    def find(self, qual):
        """Return the FunctionDef addressed by `qual` (see module docstring)."""
        parts = qual.split(".")
        scope_body = self.tree.body
        node = None
        for i, part in enumerate(parts):
            role = None
            if "@" in part:
                part, role = part.split("@")
            cands = [n for n in scope_body if isinstance(n, (ast.FunctionDef, ast.ClassDef)) and n.name == part]
            if role:
                def is_role(n):
                    decos = [_deco_name(d) for d in getattr(n, "decorator_list", [])]
                    if role == "setter":
                        return any(d.endswith(".setter") for d in decos)
                    if role == "getter":
                        return "property" in decos
                    return True
                cands = [n for n in cands if is_role(n)]
            elif len(cands) > 1:
                # plain name with property pair: prefer the non-setter
                c2 = [n for n in cands if not any(_deco_name(d).endswith(".setter")
                                                   for d in getattr(n, "decorator_list", []))]
                cands = c2 or cands
            if not cands and not role and i > 0:
                # a function defined inside a compound statement of the enclosing function (`if ...: def f(): ...`)
                cands = [n for n in _nested_defs(scope_body) if n.name == part]
            if not cands:
                raise KeyError(f"{self.relpath}: cannot find {qual!r} (at {part!r})")
            node = cands[0]
            scope_body = node.body
        if not isinstance(node, ast.FunctionDef):
            raise KeyError(f"{self.relpath}: {qual!r} is not a function")
        return node

    def segment(self, node):
        start = node.lineno
        if getattr(node, "decorator_list", None):
            start = min([start] + [d.lineno for d in node.decorator_list])
        seg = "\n".join(self.lines[start - 1: node.end_lineno])
        return start, node.end_lineno, hashlib.sha256(seg.encode()).hexdigest()


def module(relpath):
    key = os.path.join(SRC, relpath)
    st = os.stat(key)
    ent = _cache.get(key)
    if ent and ent[0] == (st.st_mtime_ns, st.st_size):
        return ent[1]
    mi = ModuleInfo(relpath)
    _cache[key] = ((st.st_mtime_ns, st.st_size), mi)
    return mi


def find_class(name, modules):
    for m in modules:
        mi = module(m)
        if name in mi.classes:
            return mi.classes[name]
    return None
