"""C13 frame analysis: a modular, per-function static check over the real AST of $VERIF_REPO/src (default /repo).

For every function of contracts/c13_frames.ANALYSES (contract "modifies nothing") and HELPERS (contract "every effect
is undone when the enclosing context exits, given the `requires` preconditions") the checker
 1. computes flow-insensitively which names hold the argument model (M), its objective (O), other parts of it (P),
    another model (X), a copy (C), objects created here (F) or plain data (V); a value is a pair (kinds of the object
    itself, kinds of the elements it may contain);
 2. enumerates every site that can touch the model: calls with a model-kind receiver or argument, attribute / item
    stores and augmented assignments on model-kind objects, references to helper functions;
 3. classifies the site with the EFFECTS table and decides it:
    pure/copy/analysis  discharged by the callee's contract;
    ctx   discharged iff lexically inside `with <M>:` of this function (or the function is a helper whose precondition
          says so), else FAILED: the undo is never registered;
    raw   discharged iff (iii) it writes back a value saved from the same attribute at function entry, or (i) an
          enclosing / immediately following `try` has a `finally` doing (iii) for the same attribute, or (ii) objective
          writes: a set_objective reset of M was registered earlier in a still open context (a dominating statement
          `M.objective = ...` or establishing helper call) -- util/solver.py set_objective re-installs the expression
          and direction captured before the write, or (iv) solver-object writes: the object is looked up under a name
          the open context owns (helper precondition); FAILED when no context / try can undo it, UNDECIDED when that
          cannot be told;
    helper reference  discharged iff every precondition token is established at the reference, FAILED if certainly not;
    unknown callee    UNDECIDED (never discharged, never a violation).
`with` runs __exit__ on every exit and every call may raise (trusted: C03, see explain()).  Deterministic, stdlib only.
CLI: python -m pyvc.frame_check [-v] [--json]
"""
import ast
import fnmatch
import json
import os
import sys

sys.path.insert(0, os.path.dirname(os.path.dirname(os.path.abspath(__file__))))
from pyvc import source  # noqa: E402
from contracts import c13_frames as T  # noqa: E402

MODEL = frozenset("MOPX")
EFFECTFUL = ("ctx", "raw", "helper", "unknown")
PLAIN = T.M_VALUE_ATTRS | T.P_VALUE_ATTRS
ORDER = ("no", "maybe", "yes")


# kind algebra: a value is (kinds of the object itself, kinds of the elements it may contain)
tv = lambda s, e="": (frozenset(s), frozenset(e))  # noqa: E731
VAL, EMPTY = tv("V"), tv("")
join = lambda *ts: (frozenset().union(*[t[0] for t in ts]), frozenset().union(*[t[1] for t in ts]))  # noqa: E731
flat = lambda t: frozenset("P" if a in "MO" else a for a in (t[0] | t[1]))  # noqa: E731  all kinds reachable (model, objective count as parts)
elem = lambda t: (flat(t) or frozenset("V"), flat(t) - {"V"})  # noqa: E731  an element of t
wrap = lambda ts: (frozenset("V"), flat(join(*ts)) - {"V"}) if ts else VAL  # noqa: E731  a new local object holding ts
norm = lambda path: path.replace(".solver.objective", ".objective")  # noqa: E731  Model.objective returns self.solver.objective
_last = lambda f: f.attr if isinstance(f, ast.Attribute) else f.id if isinstance(f, ast.Name) else None  # noqa: E731


def _arg_for(call, fdef, pname):
    """The argument expression a call passes for parameter `pname` of fdef (or None)."""
    params = [a.arg for a in fdef.args.args]
    kw = next((k.value for k in call.keywords if k.arg == pname), None)
    return kw if kw is not None else call.args[params.index(pname)] if pname in params and params.index(pname) < len(call.args) else None


# ------------------------------------------------------------------------------------------------ table indexing
AN = {(m, q): me for m, q, me in T.ANALYSES}
HP = {(h["mod"], h["fn"]): h for h in T.HELPERS}
BYNAME = {}
for _k in AN:
    BYNAME.setdefault(_k[1].split(".")[-1], []).append(("analysis", _k))
for _k in HP:
    BYNAME.setdefault(_k[1], []).append(("helper", _k))
MODEL_METHODS = {q.split(".")[1] for (m, q) in AN if q.startswith("Model.")}
_cache = {}


def resolve(mi, name, method=False):
    """Map a callee name (through import aliases) to an ANALYSES / HELPERS entry: ('analysis'|'helper', key) | None.
    method=True resolves `obj.name(...)` against the methods of ANALYSES classes (by name, class-insensitively)."""
    if not name:
        return None
    modname, orig = (None, name) if method else mi.imports.get(name, (None, name))
    orig = orig or name
    ctor = None if method else next((k for k in AN if k[1] == orig + ".__init__"), None)
    if ctor:
        return ("analysis", ctor)
    cands = [c for c in BYNAME.get(orig, []) if ("." in c[1][1]) == method]
    rel = (modname or "").replace(".", "/") + ".py"
    for c in cands:
        if (c[1][0] == mi.relpath and (method or orig in mi.functions)) or c[1][0] == rel:
            return c
    return None if not cands or (not method and orig in mi.functions) else cands[0]


def lookup(form, atom, name, nargs=None):
    """First EFFECTS row matching (form, receiver kind, name[/number of arguments]) -> (index, row) | (None, None)."""
    for i, row in enumerate(T.EFFECTS):
        if row[0] == form and (row[1] == "*" or atom in row[1]):
            for p in row[2].split("|"):
                p, _, n = p.partition("/")
                if fnmatch.fnmatchcase(name or "?", p) and (not n or nargs == int(n)):
                    return i, row
    return None, None


def verify_evidence(i):
    """Re-check the structured evidence of EFFECTS row i on the real source.  -> (ok, text)"""
    key = (source.SRC, "ev", i)
    if key not in _cache:
        out, ok = [], True
        for rel, qual, kind, arg in T.EFFECTS[i][5]:
            try:
                node = source.module(rel).find(qual)
            except (KeyError, OSError) as e:
                ok = False
                out.append(f"{rel}:{qual} not found ({e})")
                continue
            calls = {_last(c.func) for c in ast.walk(node) if isinstance(c, ast.Call)}
            names = calls | {a.attr for a in ast.walk(node) if isinstance(a, ast.Attribute)}
            good = (any(source._deco_name(d) == "resettable" for d in node.decorator_list) if kind == "resettable"
                    else ("get_context" in calls and "context" in calls) if kind == "get_context" else all(x in names for x in arg.split(",")))
            ok = ok and good
            out.append(f"{rel}:{qual}@L{node.lineno} {kind}{'(' + arg + ')' if arg else ''} {'ok' if good else 'MISSING'}")
        _cache[key] = (ok, "; ".join(out))
    return _cache[key]


def helper_establishes(h, token):
    """Structural re-verification that helper h establishes `token` (objective only; owned:* is trusted from the table)."""
    if token not in h["establishes"] or token != "objective":
        return token in h["establishes"]
    node, cond = source.module(h["mod"]).find(h["fn"]), h["establishes"][token]
    body = node.body if cond is None else [s for i in node.body if isinstance(i, ast.If) and isinstance(i.test, ast.Name)
                                           and i.test.id == cond for s in i.body]
    return any(isinstance(s, ast.Assign) and any(isinstance(t, ast.Attribute) and t.attr == "objective" and isinstance(t.value, ast.Name)
                                                 and t.value.id == h["model"] for t in s.targets) for s in body)


# ------------------------------------------------------------------------------------------------ per function
class Fn:
    def __init__(self, rel, qual, mexpr, helper=None):
        self.rel, self.qual, self.mexpr = rel, qual, mexpr
        self.requires = tuple(helper["requires"]) if helper else ()
        self.mi = source.module(rel)
        self.root = self.mi.find(qual)
        self.par, self.env, self.fassign, self.classes = {}, {}, {}, []
        for p in ast.walk(self.root):
            for field, val in ast.iter_fields(p):
                for i, c in enumerate(val) if isinstance(val, list) else [(None, val)]:
                    if isinstance(c, ast.AST):
                        self.par[c] = (p, field, i)
            if isinstance(p, ast.Assign) and len(p.targets) == 1 and isinstance(p.targets[0], ast.Name):
                self.fassign.setdefault(p.targets[0].id, []).append(p.value)
        self.nested = {n.name: n for n in ast.walk(self.root) if isinstance(n, ast.FunctionDef) and n is not self.root}
        if mexpr == "<init>":
            self.env.update(init_env(rel, qual.split(".")[0]))
        elif mexpr and (mexpr.startswith("self.") or mexpr == "_model"):
            self.env[mexpr] = tv("M")
        for _ in range(12):  # flow-insensitive fixpoint over all bindings
            before = dict(self.env)
            for n in ast.walk(self.root):
                self.bind_stmt(n)
            if self.env == before:
                break

    # ---- kinds
    def param_kind(self, a, top):
        if top and a.arg == self.mexpr:
            return tv("M")
        ann = ast.unparse(a.annotation) if a.annotation is not None else None
        if ann is None:
            return VAL if a.arg == "self" else tv("P")  # unannotated: assume it may be a part of the model
        if "Model" in ann:
            return tv("X")
        return tv("P") if any(w in ann for w in ("Reaction", "Metabolite", "Gene", "Objective", "Variable", "Constraint", "Group")) else VAL

    def key_of(self, n):
        """Environment key of a name or of `self.attr` (methods of classes built from a model)."""
        if isinstance(n, ast.Name):
            return n.id if n.id != "self" or self.mexpr == "self" else None
        if isinstance(n, ast.Attribute) and isinstance(n.value, ast.Name) and n.value.id == "self" and self.mexpr != "self":
            return "self." + n.attr
        return None

    def add_e(self, k, atoms):
        cur = self.env.get(k, VAL)
        self.env[k] = (cur[0], cur[1] | (frozenset(atoms) - {"V"}))

    def bind(self, tgt, t, valnode=None):
        k = self.key_of(tgt)
        if k is not None:
            self.env[k] = join(self.env.get(k, EMPTY), t)
        elif isinstance(tgt, (ast.Tuple, ast.List)):
            pair = isinstance(valnode, (ast.Tuple, ast.List)) and len(valnode.elts) == len(tgt.elts)
            for i, e in enumerate(tgt.elts):
                self.bind(e, self.ev(valnode.elts[i]) if pair else elem(t), valnode.elts[i] if pair else None)
        elif isinstance(tgt, ast.Starred):
            self.bind(tgt.value, t)
        elif isinstance(tgt, ast.Subscript) and self.key_of(tgt.value) is not None:
            self.add_e(self.key_of(tgt.value), flat(self.ev(tgt.slice)) | flat(t))

    def bind_stmt(self, n):
        if isinstance(n, ast.Assign):
            for tgt in n.targets:
                self.bind(tgt, self.ev(n.value), n.value)
        elif isinstance(n, (ast.AnnAssign, ast.NamedExpr)) and n.value is not None:
            self.bind(n.target, self.ev(n.value), n.value)
        elif isinstance(n, ast.AugAssign) and self.key_of(n.target) is not None:
            self.add_e(self.key_of(n.target), flat(self.ev(n.value)))  # `x += y` keeps the kind of x; y may become an element
        elif isinstance(n, (ast.For, ast.comprehension)):
            self.bind(n.target, elem(self.ev(n.iter)))
        elif isinstance(n, ast.With):
            for it in n.items:  # Model.__enter__ returns self, so `with model as m` aliases
                if it.optional_vars is not None:
                    self.bind(it.optional_vars, self.ev(it.context_expr))
        elif isinstance(n, (ast.FunctionDef, ast.Lambda)):
            for p in n.args.posonlyargs + n.args.args + n.args.kwonlyargs:
                self.bind(ast.Name(id=p.arg), self.param_kind(p, n is self.root))
        elif isinstance(n, ast.Call) and isinstance(n.func, ast.Attribute) and self.key_of(n.func.value) is not None \
                and n.func.attr in ("append", "extend", "add", "update", "insert", "setdefault"):
            self.add_e(self.key_of(n.func.value), flat(join(*self.argt(n))) if n.args or n.keywords else ())

    def attr_kind(self, t, attr):
        s = set()
        for a in t[0]:
            if a in "MP" and attr == "objective":
                s.add("O")
            elif a in "MOP":
                s.add("V" if attr in {"M": T.M_VALUE_ATTRS, "O": T.O_VALUE_ATTRS, "P": T.P_VALUE_ATTRS}[a] else "P")
            else:
                s.add("V" if attr in PLAIN else a)
        # attributes of a model part are parts or whitelisted plain data; only local objects expose their elements
        return (frozenset(s), t[1] if t[0] & set("VCF") and not (s == {"V"} and attr in PLAIN) else frozenset())

    def argt(self, call):
        return [self.ev(a.value if isinstance(a, ast.Starred) else a) for a in call.args] + [self.ev(k.value) for k in call.keywords]

    def ev(self, n):
        k = self.key_of(n)
        if k is not None and (k in self.env or isinstance(n, ast.Name) or self.mexpr != "self"):
            return self.env.get(k, VAL)
        if isinstance(n, ast.Name):  # `self` of a class built from a model: may hold whatever its attributes hold
            return (frozenset("V"), flat(join(*[v for kk, v in self.env.items() if kk.startswith("self.")])) - {"V"})
        if isinstance(n, ast.Attribute):
            return self.attr_kind(self.ev(n.value), n.attr)
        if isinstance(n, ast.Subscript):
            return elem(self.ev(n.value))
        if isinstance(n, ast.Call):
            return self.call_ret(n)
        if isinstance(n, (ast.IfExp, ast.BoolOp, ast.BinOp)):
            return join(*[self.ev(v) for v in ([n.body, n.orelse] if isinstance(n, ast.IfExp) else n.values if isinstance(n, ast.BoolOp) else [n.left, n.right])])
        if isinstance(n, (ast.List, ast.Tuple, ast.Set, ast.Dict)):
            return wrap([self.ev(e) for e in (list(n.keys) + list(n.values) if isinstance(n, ast.Dict) else n.elts) if e is not None])
        if isinstance(n, (ast.ListComp, ast.SetComp, ast.GeneratorExp, ast.DictComp)):
            return wrap([self.ev(e) for e in ([n.key, n.value] if isinstance(n, ast.DictComp) else [n.elt])])
        if isinstance(n, (ast.Starred, ast.Await, ast.NamedExpr)) or (isinstance(n, ast.UnaryOp) and not isinstance(n.op, ast.Not)):
            return self.ev(n.operand if isinstance(n, ast.UnaryOp) else n.value)
        return VAL

    def mk(self, ret, recv, argt):
        if ret in ("value", "part", "fresh", "copy"):
            return tv({"value": "V", "part": "P", "fresh": "F", "copy": "C"}[ret])
        if ret == "elem":
            return elem(recv if recv is not None else (argt[0] if argt else VAL))
        return wrap(([recv] if recv is not None else []) + argt)

    def call_ret(self, n):
        f, argt, name = n.func, self.argt(n), _last(n.func)
        if name in T.CONSTRUCTORS:
            return tv("F")
        rt = self.ev(f.value) if isinstance(f, ast.Attribute) else None
        if rt is not None and rt[0] & MODEL:
            return join(*[VAL if a == "M" and name in MODEL_METHODS else self.mk((lookup("method", a, name, len(argt))[1] or [None] * 5)[4], rt, argt)
                          for a in sorted(rt[0] & MODEL)])
        if rt is not None and rt[0] & set("CF"):  # methods of a copy / a fresh object yield parts of it (or data)
            return ((rt[0] & set("CF")) | {"V"}, (rt[1] | flat(join(*argt) if argt else VAL)) - {"V"})
        r = (resolve(self.mi, name, method=True) or (resolve(self.mi, name) if isinstance(f.value, ast.Name) and f.value.id in self.mi.imports else None)) \
            if rt is not None else resolve(self.mi, name)
        if r:
            return self.mk(T.RETURNS.get(r[1][1], "wrap" if r[1][1].endswith(".__init__") else "value"), rt, argt)
        return self.mk((lookup("call", "*", name, len(argt))[1] or [None] * 5)[4], rt, argt)

    def funcs_of(self, e, depth=0):
        """Names of the functions an expression may denote ('?' unknown)."""
        if depth > 6:
            return {"?"}
        if isinstance(e, ast.Name):
            vals = self.fassign.get(e.id, []) if e.id not in self.nested else []
            return set().union(*[self.funcs_of(v, depth + 1) for v in vals]) if vals else {e.id}
        if isinstance(e, ast.Dict) and e.values:
            return set().union(*[self.funcs_of(v, depth + 1) for v in e.values])
        if isinstance(e, ast.Subscript) or (isinstance(e, ast.Call) and _last(e.func) == "partial" and e.args):
            return self.funcs_of(e.value if isinstance(e, ast.Subscript) else e.args[0], depth + 1)
        if isinstance(e, ast.Call) and _last(e.func) in T.GETTERS:
            return {"<getter>"}
        return {"<lambda>"} if isinstance(e, ast.Lambda) else {e.attr} if isinstance(e, ast.Attribute) else {"?"}

    # ---- positions
    def refs(self, name):
        return [n for n in ast.walk(self.root) if isinstance(n, ast.Name) and n.id == name and isinstance(n.ctx, ast.Load)]

    def up(self, node):
        """(parent, field, index, nested function being left or None) from node up to the root."""
        while node is not self.root:
            p, field, i = self.par[node]
            yield p, field, i, (p if isinstance(p, ast.FunctionDef) and p is not self.root else None)
            node = p

    def in_context(self, node, seen=()):
        """Text saying why an undo registered at `node` lands in a context of this call, or None."""
        for p, field, _, nest in self.up(node):
            if isinstance(p, ast.With) and field == "body" and any("M" in self.ev(it.context_expr)[0] for it in p.items):
                return f"inside `with {ast.unparse(p.items[0].context_expr)}:` (L{p.lineno})"
            if nest and nest not in seen and self.refs(nest.name):  # a nested function counts where it is referenced
                rs = [self.in_context(r, seen + (nest,)) for r in self.refs(nest.name)]
                return f"nested `{nest.name}`, every reference {rs[0]}" if all(rs) else None
        return f"by precondition `ctx` of helper {self.qual} (checked at its references)" if "ctx" in self.requires else None

    def truthy_at(self, node, name):
        """`name` is tested by an enclosing `while name:` / `if name:` and not mentioned between the test and node."""
        for p, field, i, _ in self.up(node):
            if i is not None and field in ("body", "orelse", "finalbody") and \
                    any(isinstance(x, ast.Name) and x.id == name for s in getattr(p, field)[:i] for x in ast.walk(s)):
                return False
            if isinstance(p, (ast.While, ast.If)) and field == "body" and isinstance(p.test, ast.Name) and p.test.id == name:
                return True
        return False

    def establishes(self, s, token):
        """Does the simple statement s establish `token` on normal completion?  -> 'yes' | reason (conditional) | None"""
        if not isinstance(s, (ast.Assign, ast.Expr, ast.AnnAssign)) or not self.in_context(s):
            return None
        if token == "objective" and isinstance(s, ast.Assign) and \
                any(isinstance(t, ast.Attribute) and t.attr == "objective" and "M" in self.ev(t.value)[0] for t in s.targets):
            return "yes"
        call = s.value
        r = resolve(self.mi, _last(call.func)) if isinstance(call, ast.Call) else None
        if not r or r[0] != "helper" or not helper_establishes(HP[r[1]], token) or not any("M" in t[0] for t in self.argt(call)):
            return None
        h = HP[r[1]]
        cond = h["establishes"][token]
        arg = _arg_for(call, source.module(h["mod"]).find(h["fn"]), cond) if cond else None
        if cond is None or (isinstance(arg, ast.Name) and self.truthy_at(call, arg.id)):
            return "yes"
        return f"`{h['fn']}` (L{s.lineno}) establishes `{token}` only when `{ast.unparse(arg) if arg else cond}` is non-empty, which is not evident here"

    def covered(self, node, token, seen=()):
        """Was `token` established earlier in a still open context?  -> ('yes'|'maybe'|'no', text)"""
        maybe = None
        for p, field, i, nest in self.up(node):
            if i is not None and field in ("body", "orelse", "finalbody"):
                for s in reversed(getattr(p, field)[:i]):  # earlier statements of the same block dominate the site
                    st = self.establishes(s, token)
                    if st == "yes":
                        return "yes", f"`{ast.unparse(s).splitlines()[0][:60]}` at L{s.lineno} dominates the site inside the open context"
                    maybe = maybe or st
            if nest and nest not in seen and self.refs(nest.name):
                return min([self.covered(r, token, seen + (nest,)) for r in self.refs(nest.name)], key=lambda x: ORDER.index(x[0]))
        if token in self.requires:
            return "yes", f"precondition `{token}` of helper {self.qual} (checked at its references)"
        return ("maybe", maybe) if maybe else ("no", f"no statement establishing `{token}` dominates the site inside an open context")

    def top_index(self, node):
        for p, field, i, nest in self.up(node):
            if nest:
                return -1
            if p is self.root:
                return i if field == "body" else -1
        return -1

    def entry_save(self, vname, strict=True):
        """Path P if `vname = P` is the only binding of vname, a top-level statement executed before every effectful site."""
        binds = [n for n in ast.walk(self.root) if isinstance(n, (ast.Name, ast.arg)) and vname == getattr(n, "id", getattr(n, "arg", None))
                 and not isinstance(getattr(n, "ctx", None), ast.Load)]
        st = self.par[binds[0]][0] if len(binds) == 1 and isinstance(binds[0], ast.Name) else None
        if not (isinstance(st, ast.Assign) and self.par[st][0] is self.root and self.par[st][1] == "body" and isinstance(st.value, ast.Attribute)):
            return None
        if strict and any(c.startswith(EFFECTFUL) and not (c.startswith("raw") and self.is_restore(n)) and self.top_index(n) <= self.par[st][2]
                          for n, c in self.classes):
            return None
        return norm(ast.unparse(st.value))

    def is_restore(self, node, strict=False):
        st = self.par[node][0] if isinstance(node, ast.Attribute) else None
        return (isinstance(st, ast.Assign) and isinstance(st.value, ast.Name) and st.targets == [node]
                and self.entry_save(st.value.id, strict) == norm(ast.unparse(node)))

    def try_finally(self, stmt, path):
        cands = [p for p, field, _, _ in self.up(stmt) if isinstance(p, ast.Try) and field in ("body", "handlers", "orelse")]
        p, field, i = self.par[stmt]
        if i is not None and i + 1 < len(getattr(p, field)) and isinstance(getattr(p, field)[i + 1], ast.Try):
            cands.append(getattr(p, field)[i + 1])  # the store is atomic (A4): nothing can raise between it and the try
        for y in cands:
            for s in y.finalbody:  # only restoring writes may precede the one we need (anything else might raise first)
                if not (isinstance(s, ast.Assign) and len(s.targets) == 1 and self.is_restore(s.targets[0], strict=True)):
                    break
                if norm(ast.unparse(s.targets[0])) == path:
                    return f"(i) `finally` at L{s.lineno} restores it from `{s.value.id}`, saved from the same attribute at entry"
        return None

    def owned_prefix(self, recv):
        """Literal name prefix under which a receiver was looked up in <M>.constraints / <M>.variables."""
        vals = self.fassign.get(recv.id, []) if isinstance(recv, ast.Name) else [recv]
        v = vals[0] if len(vals) == 1 else None
        base, key = (v.func.value, v.args[0]) if isinstance(v, ast.Call) and isinstance(v.func, ast.Attribute) and v.func.attr == "get" and v.args \
            else (v.value, v.slice) if isinstance(v, ast.Subscript) else (None, None)
        if not (isinstance(base, ast.Attribute) and base.attr in ("constraints", "variables") and "M" in self.ev(base.value)[0]):
            return None
        if isinstance(key, ast.Call) and isinstance(key.func, ast.Attribute) and key.func.attr == "format":
            key = key.func.value
        key = key.left if isinstance(key, ast.BinOp) and isinstance(key.op, ast.Add) else key
        key = key.values[0] if isinstance(key, ast.JoinedStr) and key.values else key
        return (key.value.split("{")[0] or None) if isinstance(key, ast.Constant) and isinstance(key.value, str) else None

    # ---- sites
    def sites(self):
        """-> list of dict(node, callee, cls, irow, note, recv) in source order."""
        out = []

        def add(node, callee, cls, irow=None, note="", recv=None):
            out.append(dict(node=node, callee=callee, cls=cls, irow=irow, note=note, recv=recv))

        def table(node, label, form, atom, name, nargs=None, recv=None):
            i, row = lookup(form, atom, name, nargs)
            add(node, label, row[3] if row else "unknown", i, row[6] if row else "", recv)

        def named(node, name, label, relevant):
            r = resolve(self.mi, name)
            if not relevant or (r and r[0] == "helper") or name in T.CONSTRUCTORS:
                return  # helpers are judged at the reference (below)
            if name in self.nested or name in ("<getter>", "<lambda>"):
                add(node, label, "pure", note="local function: its body is scanned in place")
            elif r:
                add(node, label, "analysis", note=f"{r[1][0]}:{r[1][1]} is in ANALYSES")
            else:
                table(node, label, "call", "*", name)

        def store(tgt, stmt):
            for e in tgt.elts if isinstance(tgt, (ast.Tuple, ast.List)) else []:
                store(e, stmt)
            if not isinstance(tgt, (ast.Attribute, ast.Subscript)) or self.key_of(tgt) is not None:
                return
            rt = self.ev(tgt.value)
            form, name = ("set", tgt.attr) if isinstance(tgt, ast.Attribute) else ("setitem", _last(tgt.value) or "?")
            if isinstance(stmt, ast.Delete) and rt[0] & MODEL:
                add(tgt, "del", "unknown", note="deletion on a model object")
            elif form == "set" and name == "compartments" and "C" in rt[0]:
                add(tgt, "." + name, "unknown", note="Model.copy() shares _compartments by reference with the original")
            else:
                for a in sorted(rt[0] & MODEL):
                    table(tgt, ("." if form == "set" else "[]") + name, form, a, name, recv=tgt.value)

        if any(isinstance(n, (ast.Yield, ast.YieldFrom)) for n in ast.walk(self.root)):
            add(self.root, "yield", "unknown", note="generator: its exits are deferred, frame reasoning does not apply")
        for n in ast.walk(self.root):
            if isinstance(n, (ast.Assign, ast.AnnAssign, ast.AugAssign, ast.Delete)):
                for tgt in (n.targets if isinstance(n, (ast.Assign, ast.Delete)) else [n.target]):
                    store(tgt, n)
                if isinstance(n, ast.AugAssign) and isinstance(n.target, ast.Name):
                    tt = self.ev(n.target)
                    for a in sorted((tt[0] & MODEL) or ((tt[0] & set("FC")) if flat(self.ev(n.value)) & MODEL else set())):
                        table(n, f"{n.target.id} {type(n.op).__name__}=", "iadd", a, n.target.id)
            elif isinstance(n, ast.Call):
                f, argt, name = n.func, self.argt(n), _last(n.func)
                aat = flat(join(*argt)) & MODEL if argt else frozenset()
                rt = self.ev(f.value) if isinstance(f, ast.Attribute) else None
                if name in T.HOF and n.args and not (rt and rt[0] & MODEL):  # map(f, xs), partial(f, a): f is what gets called
                    for fn in sorted(self.funcs_of(n.args[0])):
                        named(n, fn, f"{name}({fn})", bool(argt[1:] and flat(join(*argt[1:])) & MODEL))
                elif rt is not None and rt[0] & MODEL:
                    for a in sorted(rt[0] & MODEL):
                        if a == "M" and name in MODEL_METHODS:
                            add(n, name, "analysis", note=f"Model.{name} is in ANALYSES")
                        else:
                            table(n, name, "method", a, name, len(argt), recv=f.value)
                elif rt is not None:
                    relevant = bool(aat or (rt[1] & MODEL))
                    r = resolve(self.mi, name, method=True) if relevant else None
                    if r:
                        add(n, name, "analysis", note=f"{r[1][0]}:{r[1][1]} is in ANALYSES (method resolved by name)")
                    else:
                        named(n, name, name, relevant)
                else:
                    for fn in sorted(self.funcs_of(f)):
                        named(n, fn, fn, bool(aat))
            r = None
            if isinstance(n, ast.Name) and isinstance(n.ctx, ast.Load) and n.id not in self.env:
                r = resolve(self.mi, n.id)
            elif isinstance(n, ast.Attribute) and isinstance(n.value, ast.Name) and n.value.id in self.mi.imports and n.value.id not in self.env:
                r = resolve(self.mi, n.attr)  # module-qualified, e.g. sutil.fix_objective_as_constraint
            if r and r[0] == "helper":
                add(n, _last(n), "helper", note=HP[r[1]]["why"], recv=r[1])
        out.sort(key=lambda s: (s["node"].lineno, s["node"].col_offset, s["callee"], s["cls"]))
        return out

    # ---- verdicts
    def judge(self, s):
        node, cls, irow = s["node"], s["cls"], s["irow"]
        if irow is not None and T.EFFECTS[irow][5] and not verify_evidence(irow)[0]:
            return "undecided", f"table evidence no longer holds on this source tree: {verify_evidence(irow)[1]}"
        if cls in ("pure", "copy", "analysis"):
            return "discharged", s["note"] or cls
        if cls == "unknown":
            return "undecided", "callee / write not classified in contracts/c13_frames.EFFECTS" + (": " + s["note"] if s["note"] else "")
        if cls == "helper":
            return self.judge_ref(s)
        if cls != "ctx":
            return self.judge_raw(s, cls.split(":")[1])
        why = self.in_context(node)
        if why:
            return "discharged", f"context-aware mutator {why}: undo registered, run by __exit__ on every exit (C03)"
        return "failed", ("context-aware mutator outside every `with <model>:` block of this function: get_context() is None, "
                          "no undo is registered, the change survives every exit")

    def judge_ref(self, s):
        node, h = s["node"], HP[s["recv"]]
        p, field, _ = self.par[node]
        marg = _arg_for(p, source.module(h["mod"]).find(h["fn"]), h["model"]) if isinstance(p, ast.Call) and field == "func" else None
        if marg is not None and "M" not in self.ev(marg)[0]:
            if self.ev(marg)[0] & MODEL:
                return "undecided", f"modifier applied to `{ast.unparse(marg)}`, which is reachable from the model but is not the model"
            return "discharged", f"modifier applied to `{ast.unparse(marg)}`, a copy / fresh model, not the argument model"
        texts, worst = [], "yes"
        for tok in h["requires"]:
            ctx = self.in_context(node)
            st, why = ("yes" if ctx else "no", ctx or "reference is outside every `with <model>:` block") if tok == "ctx" else self.covered(node, tok)
            texts.append(f"{tok}: {why}")
            worst = min(worst, st, key=ORDER.index)
        return {"yes": "discharged", "maybe": "undecided", "no": "failed"}[worst], f"modifier `{h['fn']}` requires {list(h['requires'])} -- " + "; ".join(texts)

    def judge_raw(self, s, resource):
        node, stmt = s["node"], s["node"]
        while not isinstance(stmt, ast.stmt):
            stmt = self.par[stmt][0]
        path = norm(ast.unparse(node)) if isinstance(node, ast.Attribute) else None
        if path and isinstance(stmt, ast.Assign) and stmt.targets == [node]:
            if self.is_restore(node, strict=True):
                return "discharged", f"(iii) writes back `{stmt.value.id}`, read from the same attribute at entry before any effect: restores the entry value"
            tf = self.try_finally(stmt, path)
            if tf:
                return "discharged", tf
        status, why = self.covered(node, "objective") if resource == "objective" else ("no", "")
        if status == "yes":
            return "discharged", f"(ii) objective write wiped by the set_objective reset registered before it: {why}"
        pre = self.owned_prefix(s["recv"]) if resource == "solver" and s["recv"] is not None else None
        for tok in [t for t in self.requires if pre and t.startswith("owned:") and fnmatch.fnmatchcase(pre, t[6:])]:
            return "discharged", f"(iv) object looked up as `{pre}...`: precondition `{tok}` of helper {self.qual}: owned by the open context, dropped at exit"
        if resource == "remove":
            return "failed", ("removal from the solver with no undo registered: an object that exists at entry (the lookup succeeded) is lost "
                              "for good, also when the enclosing context exits")
        if status == "maybe":
            return "undecided", f"objective write inside a context, cover not provable: {why}"
        ctx = self.in_context(node)
        if resource != "objective" and ctx:
            return "undecided", f"behind-the-back write to a solver object {ctx}: harmless only if that object was added inside the same context, which is not derivable here"
        loop = any(isinstance(p, (ast.For, ast.While)) for p, _, _, _ in self.up(node))
        later = sorted([c for c in ast.walk(self.root) if isinstance(c, ast.Call) and (c.lineno > node.lineno or loop) and node not in ast.walk(c)],
                       key=lambda c: (c.lineno, c.col_offset))
        tail = f"e.g. an exception from `{ast.unparse(later[0].func)}(...)` at L{later[0].lineno} exits with the write in place" if later else "it is never written back"
        return "failed", (f"behind-the-back write to {resource}: no try/finally restore and no context reset that covers it "
                          f"({'inside a context, but ' + why if ctx else 'outside every context'}); {tail}")

    def run(self):
        sites, recs = self.sites(), []
        self.classes = [(s["node"], s["cls"]) for s in sites]
        for s in sites:
            kind = s["cls"].split(":")[0]  # reported class: a modifier reference is a ctx obligation, a copy is neutral like an analysis
            res, detail = self.judge(s)
            recs.append({"name": f"C13/{self.rel}:{self.qual}/site@L{s['node'].lineno}:{s['callee']}", "function": f"{self.rel}:{self.qual}",
                         "line": s["node"].lineno, "callee": s["callee"], "class": {"helper": "ctx", "copy": "analysis"}.get(kind, kind),
                         "result": res, "detail": detail if kind not in ("helper", "copy") else f"[{kind}] {detail}", "_kind": kind})
        return recs


def init_env(rel, cls):
    """Kinds of self.* established by the __init__ of a class and of its bases (T.BASES)."""
    key = (source.SRC, "init", rel, cls)
    if key not in _cache:
        env, chain = {}, [(rel, cls)]
        while chain[-1][1] in T.BASES:
            chain.append(T.BASES[chain[-1][1]])
        for r, c in chain:
            if (r, c + ".__init__") in AN:
                for k, v in Fn(r, c + ".__init__", AN[(r, c + ".__init__")]).env.items():
                    if k.startswith("self."):
                        env[k] = join(env.get(k, EMPTY), v)
        _cache[key] = env
    return dict(_cache[key])


def check_all(verbose=False):
    """One record per (function, site): {name, function, line, callee, class, result, detail}.  The source tree is
    re-read on every call.  verbose=True prints every record, verbose="open" only the failed / undecided ones."""
    recs, users = [], {}
    for m, q, me, h in [(m, q, me, None) for m, q, me in T.ANALYSES] + [(h["mod"], h["fn"], h["model"], h) for h in T.HELPERS]:
        try:
            got = Fn(m, q, me, h).run()
        except (KeyError, OSError, SyntaxError) as e:
            got = [{"name": f"C13/{m}:{q}/missing", "function": f"{m}:{q}", "line": 0, "callee": "", "class": "unknown", "result": "undecided",
                    "detail": f"cannot locate the function in the source tree: {e}"}]
        for r in got:
            if r.pop("_kind", None) == "helper":
                users.setdefault(r["callee"], set()).add(r["function"].split(":")[1])
        recs.extend(got)
    seen = {}
    for r in recs:  # names are unique: a second site with the same line and callee gets an ordinal
        seen[r["name"]] = seen.get(r["name"], 0) + 1
        r["name"] += f"#{seen[r['name']]}" if seen[r["name"]] > 1 else ""
    for r in recs:  # a modifier whose body is not discharged invalidates everyone who relies on its contract
        fn = r["function"].split(":")[1]
        if r["result"] != "discharged" and fn in users:
            r["detail"] += f" [contract of modifier `{fn}` relied upon by: {', '.join(sorted(users[fn]))}]"
    for r in recs if verbose else []:
        if verbose is True or r["result"] != "discharged":
            print(f"{r['result']:10s} {r['class']:8s} {r['name']}\n           {r['detail']}")
    return recs


def explain():
    """Assumptions, accepted compensation patterns and the table evidence as re-verified on the current source tree."""
    ev = [f"{row[0]} {row[1]}.{row[2][:40]} -> {row[3]}: {verify_evidence(i)[1]} [{row[6]}]" for i, row in enumerate(T.EFFECTS) if row[5]]
    hs = [f"{h['fn']} requires {list(h['requires'])} establishes {h['establishes']} (objective establishment re-verified: "
          f"{helper_establishes(h, 'objective') if 'objective' in h['establishes'] else 'n/a'}): {h['why']}" for h in T.HELPERS]
    return {"source_tree": source.SRC, "assumptions": list(T.ASSUMPTIONS), "rules": __doc__.split(" 3. ")[1].split("`with` runs")[0].strip(),
            "evidence": ev, "helpers": hs}


def main(argv):
    recs = check_all(verbose=True if "-v" in argv else "open")
    if "--json" in argv:
        print(json.dumps(recs, indent=1))
    n = {k: sum(r["result"] == k for r in recs) for k in ("discharged", "failed", "undecided")}
    print(f"C13 frame check on {source.SRC}: {len(T.ANALYSES)} analyses + {len(T.HELPERS)} modifiers checked, "
          f"{len({r['function'] for r in recs})} of them with sites, {len(recs)} sites: {n}")
    return 1 if n["failed"] else 0


if __name__ == "__main__":
    sys.exit(main(sys.argv[1:]))
