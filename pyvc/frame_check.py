"""C13 frame analysis: a modular, per-function static check over the real AST of $VERIF_REPO/src (default /repo).

For every function of contracts/c13_frames.ANALYSES (contract: "modifies nothing") and HELPERS (contract: "every
effect is undone when the enclosing context exits, given the `requires` preconditions") the checker
  1. computes, flow-insensitively, which names hold the argument model (M), its objective (O), other parts of it
     (P), another model (X), a copy (C), objects created here (F) or plain data (V) -- a value is a pair
     (kinds of the object itself, kinds of the elements it may contain);
  2. enumerates every site that can touch the model (calls with a model-kind receiver or argument, attribute and
     item stores on model-kind objects, augmented assignments, references to helper functions);
  3. classifies the site with the EFFECTS table and decides it:
       pure/copy/analysis  discharged (callee contract);
       ctx     discharged iff lexically inside `with <M>:` of this function (or the function is a helper whose
               precondition says so); otherwise FAILED (the undo is never registered);
       raw     discharged iff (iii) it writes back a value saved from the same attribute at function entry, or
               (i) an enclosing / immediately following try has a `finally` doing (iii) for the same attribute, or
               (ii) objective writes: a set_objective reset of M was registered earlier in a still open context
               (dominating statement `M.objective = ...` or an establishing helper) -- the reset re-installs
               expression and direction captured before the write (util/solver.py set_objective), or
               (iv) solver-object writes: the object is looked up under a name the enclosing context owns;
               FAILED when no context/try can undo it, UNDECIDED when that cannot be told;
       helper reference    discharged iff every precondition token is established at the reference;
       unknown callee      UNDECIDED (never discharged, never a violation).
`with` runs __exit__ on every exit and every call may raise (trusted: C03, see explain()).
Deterministic, stdlib only.  CLI: python -m pyvc.frame_check [-v] [--json]
"""
import ast
import fnmatch
import json
import os
import sys

sys.path.insert(0, os.path.dirname(os.path.dirname(os.path.abspath(__file__))))
from pyvc import source  # noqa: E402
from contracts import c13_frames as T  # noqa: E402

MODEL = frozenset("MOPX")
EFFECTFUL = ("ctx", "raw", "helper", "unknown")


def tv(s, e=""):
    return (frozenset(s), frozenset(e))


VAL, EMPTY = tv("V"), tv("")


def join(*ts):
    s, e = set(), set()
    for t in ts:
        s |= t[0]
        e |= t[1]
    return (frozenset(s), frozenset(e))


def flat(t):
    """All kinds reachable from a value (the model itself and its objective count as parts)."""
    return frozenset("P" if a in "MO" else a for a in (t[0] | t[1]))


def elem(t):
    k = flat(t)
    return (k or frozenset("V"), k - {"V"})


def wrap(ts):
    return (frozenset("V"), flat(join(*ts)) - {"V"}) if ts else VAL


def norm(path):
    return path.replace(".solver.objective", ".objective")  # Model.objective getter returns self.solver.objective


# ------------------------------------------------------------------------------------------------ table indexing
AN = {(m, q): me for m, q, me in T.ANALYSES}
HP = {(h["mod"], h["fn"]): h for h in T.HELPERS}
BYNAME = {}
for _k in AN:
    BYNAME.setdefault(_k[1].split(".")[-1], []).append(("analysis", _k))
for _k in HP:
    BYNAME.setdefault(_k[1], []).append(("helper", _k))
MODEL_METHODS = {q.split(".")[1] for (m, q) in AN if q.startswith("Model.")}
_ev_cache = {}


def resolve(mi, name, method=False):
    """Map a callee name (through import aliases) to an ANALYSES / HELPERS entry: ('analysis'|'helper', key) | None.
    method=True resolves `obj.name(...)` against the methods of ANALYSES classes (by name, class-insensitively)."""
    if not name:
        return None
    modname, orig = (None, name) if method else mi.imports.get(name, (None, name))
    orig = orig or name
    if not method:
        ctor = next((k for k in AN if k[1] == orig + ".__init__"), None)
        if ctor:
            return ("analysis", ctor)
    cands = [c for c in BYNAME.get(orig, []) if ("." in c[1][1]) == method]
    if not cands:
        return None
    local = method or orig in mi.functions
    rel = (modname or "").replace(".", "/") + ".py"
    for c in cands:
        if (c[1][0] == mi.relpath and local) or c[1][0] == rel:
            return c
    return None if (not method and orig in mi.functions) else cands[0]


def lookup(form, atom, name, nargs=None):
    for i, row in enumerate(T.EFFECTS):
        if row[0] != form or (row[1] != "*" and atom not in row[1]):
            continue
        for p in row[2].split("|"):
            p, _, n = p.partition("/")
            if fnmatch.fnmatchcase(name, p) and (not n or nargs == int(n)):
                return i, row
    return None, None


def _last(f):
    return f.attr if isinstance(f, ast.Attribute) else f.id if isinstance(f, ast.Name) else None


def verify_evidence(i):
    """Re-check the structured evidence of EFFECTS row i on the real source.  -> (ok, text)"""
    key = (source.SRC, i)
    if key in _ev_cache:
        return _ev_cache[key]
    out, ok = [], True
    for rel, qual, kind, arg in T.EFFECTS[i][5]:
        try:
            node = source.module(rel).find(qual)
        except (KeyError, OSError) as e:
            ok, _ = False, out.append(f"{rel}:{qual} not found ({e})")
            continue
        calls = {_last(c.func) for c in ast.walk(node) if isinstance(c, ast.Call)}
        names = calls | {a.attr for a in ast.walk(node) if isinstance(a, ast.Attribute)}
        if kind == "resettable":
            good = any(source._deco_name(d) == "resettable" for d in node.decorator_list)
        elif kind == "get_context":
            good = "get_context" in calls and "context" in calls
        else:
            good = all(x in names for x in arg.split(","))
        ok = ok and good
        out.append(f"{rel}:{qual}@L{node.lineno} {kind}{'(' + arg + ')' if arg else ''} {'ok' if good else 'MISSING'}")
    _ev_cache[key] = (ok, "; ".join(out))
    return _ev_cache[key]


def helper_establishes(h, token):
    """Structural re-verification that helper h establishes `token` (objective only; owned:* is trusted)."""
    if token not in h["establishes"]:
        return False
    if token != "objective":
        return True
    node, cond = source.module(h["mod"]).find(h["fn"]), h["establishes"][token]
    body = node.body
    if cond is not None:
        body = [s for i in node.body if isinstance(i, ast.If) and isinstance(i.test, ast.Name) and i.test.id == cond for s in i.body]
    return any(isinstance(s, ast.Assign) and any(isinstance(t, ast.Attribute) and t.attr == "objective" and isinstance(t.value, ast.Name)
                                                 and t.value.id == h["model"] for t in s.targets) for s in body)


# ------------------------------------------------------------------------------------------------ per function
class Fn:
    def __init__(self, rel, qual, mexpr, helper=None):
        self.rel, self.qual, self.mexpr, self.helper = rel, qual, mexpr, helper
        self.requires = tuple(helper["requires"]) if helper else ()
        self.mi = source.module(rel)
        self.root = self.mi.find(qual)
        self.par = {}
        for p in ast.walk(self.root):
            for field, val in ast.iter_fields(p):
                if isinstance(val, list):
                    for i, c in enumerate(val):
                        if isinstance(c, ast.AST):
                            self.par[c] = (p, field, i)
                elif isinstance(val, ast.AST):
                    self.par[val] = (p, field, None)
        self.nested = {n.name: n for n in ast.walk(self.root) if isinstance(n, ast.FunctionDef) and n is not self.root}
        self.env, self.fassign = {}, {}
        if mexpr == "<init>":
            self.env.update(init_env(rel, qual.split(".")[0]))
        elif mexpr and (mexpr.startswith("self.") or mexpr == "_model"):
            self.env[mexpr] = tv("M")
        for n in ast.walk(self.root):
            if isinstance(n, ast.Assign) and len(n.targets) == 1 and isinstance(n.targets[0], ast.Name):
                self.fassign.setdefault(n.targets[0].id, []).append(n.value)
        for _ in range(12):
            before = dict(self.env)
            for n in ast.walk(self.root):
                self.bind_stmt(n)
            if self.env == before:
                break

    # ---- kinds
    def param_kind(self, a, top):
        if top and a.arg == self.mexpr:
            return tv("M")
        ann = ast.unparse(a.annotation) if a.annotation is not None else None
        if ann is None:
            return tv("P") if a.arg != "self" else VAL
        if "Model" in ann:
            return tv("X")
        return tv("P") if any(w in ann for w in ("Reaction", "Metabolite", "Gene", "Objective", "Variable", "Constraint", "Group")) else VAL

    def key_of(self, n):
        if isinstance(n, ast.Name):
            return n.id if n.id != "self" or self.mexpr == "self" else None
        if isinstance(n, ast.Attribute) and isinstance(n.value, ast.Name) and n.value.id == "self" and self.mexpr != "self":
            return "self." + n.attr
        return None

    def envjoin(self, k, t):
        self.env[k] = join(self.env.get(k, EMPTY), t)

    def add_e(self, k, atoms):
        cur = self.env.get(k, VAL)
        self.env[k] = (cur[0], cur[1] | (frozenset(atoms) - {"V"}))

    def bind(self, tgt, t, valnode=None):
        k = self.key_of(tgt)
        if k is not None:
            self.envjoin(k, t)
        elif isinstance(tgt, (ast.Tuple, ast.List)):
            pair = isinstance(valnode, (ast.Tuple, ast.List)) and len(valnode.elts) == len(tgt.elts)
            for i, e in enumerate(tgt.elts):
                self.bind(e, self.ev(valnode.elts[i]) if pair else elem(t), valnode.elts[i] if pair else None)
        elif isinstance(tgt, ast.Starred):
            self.bind(tgt.value, t)
        elif isinstance(tgt, ast.Subscript) and self.key_of(tgt.value) is not None:
            self.add_e(self.key_of(tgt.value), flat(self.ev(tgt.slice)) | flat(t))

    def bind_stmt(self, n):
        if isinstance(n, ast.Assign):
            t = self.ev(n.value)
            for tgt in n.targets:
                self.bind(tgt, t, n.value)
        elif isinstance(n, (ast.AnnAssign, ast.NamedExpr)) and n.value is not None:
            self.bind(n.target, self.ev(n.value), n.value)
        elif isinstance(n, ast.AugAssign):  # `x += y` keeps the identity/kind of x; y may end up among its elements
            if self.key_of(n.target) is not None:
                self.add_e(self.key_of(n.target), flat(self.ev(n.value)))
        elif isinstance(n, (ast.For, ast.comprehension)):
            self.bind(n.target, elem(self.ev(n.iter)))
        elif isinstance(n, ast.With):
            for it in n.items:
                if it.optional_vars is not None:
                    self.bind(it.optional_vars, self.ev(it.context_expr))
        elif isinstance(n, (ast.FunctionDef, ast.Lambda)):
            a = n.args
            for p in a.posonlyargs + a.args + a.kwonlyargs:
                self.envjoin(p.arg, self.param_kind(p, n is self.root))
        elif isinstance(n, ast.Call) and isinstance(n.func, ast.Attribute) and n.func.attr in ("append", "extend", "add", "update", "insert", "setdefault"):
            k = self.key_of(n.func.value)
            if k is not None:
                self.add_e(k, flat(join(*self.argt(n))) if n.args or n.keywords else ())

    def attr_kind(self, t, attr):
        s = set()
        for a in t[0]:
            if a == "M":
                s.add("O" if attr == "objective" else "V" if attr in T.M_VALUE_ATTRS else "P")
            elif a == "O":
                s.add("V" if attr in T.O_VALUE_ATTRS else "P")
            elif a == "P":
                s.add("O" if attr == "objective" else "V" if attr in T.P_VALUE_ATTRS else "P")
            elif a == "X":
                s.add("V" if attr in T.M_VALUE_ATTRS | T.P_VALUE_ATTRS else "X")
            else:
                s.add("V" if attr in T.M_VALUE_ATTRS | T.P_VALUE_ATTRS else a)
        # attributes of a model part are parts or whitelisted plain data; only local objects expose their elements
        plain = s == {"V"} and attr in T.P_VALUE_ATTRS | T.M_VALUE_ATTRS
        return (frozenset(s), t[1] if t[0] & set("VCF") and not plain else frozenset())

    def argt(self, call):
        return [self.ev(a.value if isinstance(a, ast.Starred) else a) for a in call.args] + [self.ev(k.value) for k in call.keywords]

    def ev(self, n):
        k = self.key_of(n)
        if k is not None:
            if k in self.env:
                return self.env[k]
            if isinstance(n, ast.Name):
                return tv("M") if (n.id == "self" and self.mexpr == "self") else VAL
            return VAL if k.startswith("self.") and self.mexpr != "self" else self.attr_kind(self.ev(n.value), n.attr)
        if isinstance(n, ast.Name):  # `self` of a class built from a model: may hold whatever its attributes hold
            return (frozenset("V"), flat(join(*[v for kk, v in self.env.items() if kk.startswith("self.")])) - {"V"})
        if isinstance(n, ast.Attribute):
            return self.attr_kind(self.ev(n.value), n.attr)
        if isinstance(n, ast.Subscript):
            return elem(self.ev(n.value))
        if isinstance(n, ast.Call):
            return self.call_ret(n)
        if isinstance(n, ast.IfExp):
            return join(self.ev(n.body), self.ev(n.orelse))
        if isinstance(n, ast.BoolOp):
            return join(*[self.ev(v) for v in n.values])
        if isinstance(n, ast.BinOp):
            return join(self.ev(n.left), self.ev(n.right))
        if isinstance(n, (ast.List, ast.Tuple, ast.Set)):
            return wrap([self.ev(e) for e in n.elts])
        if isinstance(n, ast.Dict):
            return wrap([self.ev(e) for e in list(n.keys) + list(n.values) if e is not None])
        if isinstance(n, (ast.ListComp, ast.SetComp, ast.GeneratorExp)):
            return wrap([self.ev(n.elt)])
        if isinstance(n, ast.DictComp):
            return wrap([self.ev(n.key), self.ev(n.value)])
        if isinstance(n, (ast.Starred, ast.Await, ast.NamedExpr)):
            return self.ev(n.value)
        if isinstance(n, ast.UnaryOp) and not isinstance(n.op, ast.Not):
            return self.ev(n.operand)
        return VAL

    def mk(self, ret, recv, argt):
        if ret == "value":
            return VAL
        if ret == "elem":
            return elem(recv if recv is not None else (argt[0] if argt else VAL))
        if ret in ("part", "fresh", "copy"):
            return tv({"part": "P", "fresh": "F", "copy": "C"}[ret])
        return wrap(([recv] if recv is not None else []) + argt)

    def call_ret(self, n):
        f, argt = n.func, self.argt(n)
        name = _last(f)
        if name in T.CONSTRUCTORS:
            return tv("F")
        if isinstance(f, ast.Attribute):
            rt = self.ev(f.value)
            atoms = rt[0] & MODEL
            if atoms:
                outs = []
                for a in sorted(atoms):
                    row = lookup("method", a, name, len(argt))[1]
                    outs.append(VAL if a == "M" and name in MODEL_METHODS else self.mk(row[4] if row else None, rt, argt))
                return join(*outs)
            if rt[0] & set("CF"):  # methods of a copy / a fresh object yield parts of it (or data)
                return ((rt[0] & set("CF")) | {"V"}, (rt[1] | flat(join(*argt) if argt else VAL)) - {"V"})
            r = resolve(self.mi, name, method=True) or (resolve(self.mi, name) if isinstance(f.value, ast.Name) and f.value.id in self.mi.imports else None)
            if r:
                return self.mk(T.RETURNS.get(r[1][1], "value"), rt, argt)
            row = lookup("call", "*", name, len(argt))[1]
            return self.mk(row[4] if row else None, rt, argt)
        r = resolve(self.mi, name)
        if r:
            return self.mk(T.RETURNS.get(r[1][1], "wrap" if r[1][1].endswith(".__init__") else "value"), None, argt)
        row = lookup("call", "*", name, len(argt))[1] if name else None
        return self.mk(row[4] if row else None, None, argt)

    def funcs_of(self, e, depth=0):
        """Names of the functions an expression may denote ('?' unknown)."""
        if depth > 6:
            return {"?"}
        if isinstance(e, ast.Name):
            if e.id in self.fassign and e.id not in self.nested:
                return set().union(*[self.funcs_of(v, depth + 1) for v in self.fassign[e.id]])
            return {e.id}
        if isinstance(e, ast.Dict):
            return set().union(*[self.funcs_of(v, depth + 1) for v in e.values]) if e.values else {"?"}
        if isinstance(e, ast.Subscript):
            return self.funcs_of(e.value, depth + 1)
        if isinstance(e, ast.Call) and _last(e.func) == "partial" and e.args:
            return self.funcs_of(e.args[0], depth + 1)
        if isinstance(e, ast.Call) and _last(e.func) in T.GETTERS:
            return {"<getter>"}
        if isinstance(e, ast.Lambda):
            return {"<lambda>"}
        return {e.attr} if isinstance(e, ast.Attribute) else {"?"}

    # ---- positions
    def refs(self, name):
        return [n for n in ast.walk(self.root) if isinstance(n, ast.Name) and n.id == name and isinstance(n.ctx, ast.Load)]

    def in_context(self, node, seen=()):
        cur = node
        while cur is not self.root:
            p, field, _ = self.par[cur]
            if isinstance(p, ast.With) and field == "body" and any("M" in self.ev(it.context_expr)[0] for it in p.items):
                return f"inside `with {ast.unparse(p.items[0].context_expr)}:` (L{p.lineno})"
            if isinstance(p, ast.FunctionDef) and p is not self.root and p not in seen and self.refs(p.name):
                rs = [self.in_context(r, seen + (p,)) for r in self.refs(p.name)]
                return f"nested `{p.name}`: every reference {rs[0]}" if all(rs) else None
            cur = p
        return f"precondition `ctx` of helper {self.qual} (checked at its references)" if "ctx" in self.requires else None

    def truthy_at(self, node, name):
        cur = node
        while cur is not self.root:
            p, field, i = self.par[cur]
            if i is not None and field in ("body", "orelse", "finalbody"):
                if any(isinstance(x, ast.Name) and x.id == name and isinstance(x.ctx, ast.Store) for s in getattr(p, field)[:i] for x in ast.walk(s)):
                    return False
            if isinstance(p, (ast.While, ast.If)) and field == "body" and isinstance(p.test, ast.Name) and p.test.id == name:
                return True
            cur = p
        return False

    def establishes(self, s, token):
        """Does the simple statement s establish `token` on normal completion?  -> 'yes' | reason(str) | None"""
        if not isinstance(s, (ast.Assign, ast.Expr, ast.AnnAssign)):
            return None
        if token == "objective" and isinstance(s, ast.Assign) and self.in_context(s):
            if any(isinstance(t, ast.Attribute) and t.attr == "objective" and "M" in self.ev(t.value)[0] for t in s.targets):
                return "yes"
        call = s.value
        if not isinstance(call, ast.Call) or not _last(call.func):
            return None
        r = resolve(self.mi, _last(call.func))
        if not r or r[0] != "helper" or not helper_establishes(HP[r[1]], token) or not self.in_context(s):
            return None
        h = HP[r[1]]
        if not any("M" in t[0] for t in self.argt(call)):
            return None
        cond = h["establishes"][token]
        if cond is None:
            return "yes"
        params = [a.arg for a in source.module(h["mod"]).find(h["fn"]).args.args]
        arg = next((k.value for k in call.keywords if k.arg == cond), None)
        if arg is None and cond in params and params.index(cond) < len(call.args):
            arg = call.args[params.index(cond)]
        if isinstance(arg, ast.Name) and self.truthy_at(call, arg.id):
            return "yes"
        return f"`{h['fn']}` (L{s.lineno}) establishes `{token}` only when `{ast.unparse(arg) if arg else cond}` is non-empty, which is not evident here"

    def covered(self, node, token, seen=()):
        """Was `token` established earlier in a still open context?  -> ('yes'|'maybe'|'no', text)"""
        cur, maybe = node, None
        while cur is not self.root:
            p, field, i = self.par[cur]
            if i is not None and field in ("body", "orelse", "finalbody"):
                for s in reversed(getattr(p, field)[:i]):
                    st = self.establishes(s, token)
                    if st == "yes":
                        return "yes", f"`{ast.unparse(s).splitlines()[0][:60]}` at L{s.lineno} dominates the site inside the open context"
                    maybe = maybe or st
            if isinstance(p, ast.FunctionDef) and p is not self.root and p not in seen and self.refs(p.name):
                rs = [self.covered(r, token, seen + (p,)) for r in self.refs(p.name)]
                return min(rs, key=lambda x: ("no", "maybe", "yes").index(x[0]))
            cur = p
        if token in self.requires:
            return "yes", f"precondition `{token}` of helper {self.qual} (checked at its references)"
        return ("maybe", maybe) if maybe else ("no", f"no statement establishing `{token}` dominates the site inside an open context")

    def top_index(self, node):
        cur = node
        while self.par[cur][0] is not self.root:
            cur = self.par[cur][0]
            if isinstance(cur, (ast.FunctionDef, ast.Lambda)):
                return -1
        return self.par[cur][2] if self.par[cur][1] == "body" else -1

    def entry_save(self, vname):
        """Path P if `vname = P` is the only binding of vname, at top level, before every effectful site."""
        binds = [n for n in ast.walk(self.root) if isinstance(n, ast.Name) and n.id == vname and isinstance(n.ctx, ast.Store)]
        if len(binds) != 1 or vname in [a.arg for a in self.root.args.args]:
            return None
        st, field, i = self.par[binds[0]]
        if not (isinstance(st, ast.Assign) and self.par[st][0] is self.root and self.par[st][1] == "body" and isinstance(st.value, ast.Attribute)):
            return None
        idx = self.par[st][2]
        if any(c.startswith(EFFECTFUL) and not (c.startswith("raw") and self.is_restore(n)) and self.top_index(n) <= idx for n, c in self.classes):
            return None
        return norm(ast.unparse(st.value))

    def is_restore(self, node):
        st = self.par.get(node, (None,))[0] if isinstance(node, ast.Attribute) else None
        return (isinstance(st, ast.Assign) and isinstance(st.value, ast.Name) and st.targets == [node]
                and self._save_path(st.value.id) == norm(ast.unparse(node)))

    def _save_path(self, vname):  # syntactic part of entry_save (no recursion into site classes)
        binds = [n for n in ast.walk(self.root) if isinstance(n, ast.Name) and n.id == vname and isinstance(n.ctx, ast.Store)]
        st = self.par[binds[0]][0] if len(binds) == 1 else None
        return norm(ast.unparse(st.value)) if isinstance(st, ast.Assign) and isinstance(st.value, ast.Attribute) else None

    def try_finally(self, stmt, path):
        cands, cur = [], stmt
        while cur is not self.root:
            q, fld, _ = self.par[cur]
            if isinstance(q, ast.Try) and fld in ("body", "handlers", "orelse"):
                cands.append(q)
            cur = q
        p, field, i = self.par[stmt]
        if i is not None and i + 1 < len(getattr(p, field)) and isinstance(getattr(p, field)[i + 1], ast.Try):
            cands.append(getattr(p, field)[i + 1])  # the store is atomic (A4): nothing can raise between it and the try
        for y in cands:
            for s in y.finalbody:
                if not (isinstance(s, ast.Assign) and len(s.targets) == 1 and isinstance(s.targets[0], ast.Attribute)
                        and isinstance(s.value, ast.Name) and self.entry_save(s.value.id) == norm(ast.unparse(s.targets[0]))):
                    break
                if norm(ast.unparse(s.targets[0])) == path:
                    return f"(i) `finally` at L{s.lineno} restores it from `{s.value.id}`, saved from the same attribute at entry"
        return None

    def owned_prefix(self, recv):
        """Literal name prefix under which a receiver was looked up in <M>.constraints / <M>.variables."""
        vals = self.fassign.get(recv.id, []) if isinstance(recv, ast.Name) else [recv]
        if len(vals) != 1:
            return None
        v = vals[0]
        base, key = (v.func.value, v.args[0]) if isinstance(v, ast.Call) and isinstance(v.func, ast.Attribute) and v.func.attr == "get" and v.args \
            else (v.value, v.slice) if isinstance(v, ast.Subscript) else (None, None)
        if not (isinstance(base, ast.Attribute) and base.attr in ("constraints", "variables") and "M" in self.ev(base.value)[0]):
            return None
        if isinstance(key, ast.Call) and isinstance(key.func, ast.Attribute) and key.func.attr == "format":
            key = key.func.value
        if isinstance(key, ast.BinOp) and isinstance(key.op, ast.Add):
            key = key.left
        if isinstance(key, ast.JoinedStr) and key.values:
            key = key.values[0]
        return key.value.split("{")[0] if isinstance(key, ast.Constant) and isinstance(key.value, str) and key.value.split("{")[0] else None

    # ---- sites
    def sites(self):
        """-> list of dict(node, callee, cls, row, note, recv) in source order."""
        out = []

        def add(node, callee, cls, irow=None, note="", recv=None):
            out.append(dict(node=node, callee=callee, cls=cls, irow=irow, note=note, recv=recv))

        def named(node, name, label, relevant):
            if name in self.nested or name in ("<getter>", "<lambda>"):
                return add(node, label, "pure", note="local function: its body is scanned in place") if relevant else None
            r = resolve(self.mi, name)
            if r and r[0] == "helper":
                return None  # judged at the reference (site_ref)
            if not relevant:
                return None
            if r:
                return add(node, label, "analysis", note=f"{r[1][0]}:{r[1][1]} is in ANALYSES")
            if name in T.CONSTRUCTORS:
                return None
            i, row = lookup("call", "*", name, None) if name != "?" else (None, None)
            add(node, label, row[3] if row else "unknown", i, row[6] if row else "")

        def store(tgt, stmt):
            if isinstance(tgt, (ast.Tuple, ast.List)):
                for e in tgt.elts:
                    store(e, stmt)
            if not isinstance(tgt, (ast.Attribute, ast.Subscript)) or self.key_of(tgt) is not None:
                return
            rt = self.ev(tgt.value)
            if isinstance(stmt, ast.Delete) and rt[0] & MODEL:
                return add(tgt, "del", "unknown", note="deletion on a model object")
            form, name = ("set", tgt.attr) if isinstance(tgt, ast.Attribute) else ("setitem", _last(tgt.value) or "?")
            if form == "set" and name == "compartments" and "C" in rt[0]:
                return add(tgt, "." + name, "unknown", note="Model.copy() shares _compartments by reference (model.py L393-395)")
            for a in sorted(rt[0] & MODEL):
                i, row = lookup(form, a, name)
                add(tgt, ("." if form == "set" else "[]") + name, row[3] if row else "unknown", i, row[6] if row else "", recv=tgt.value)

        for n in ast.walk(self.root):
            if isinstance(n, (ast.Assign, ast.AnnAssign, ast.AugAssign, ast.Delete)):
                for tgt in (n.targets if isinstance(n, (ast.Assign, ast.Delete)) else [n.target]):
                    store(tgt, n)
                if isinstance(n, ast.AugAssign) and isinstance(n.target, ast.Name):
                    tt, vt = self.ev(n.target), self.ev(n.value)
                    atoms = (tt[0] & MODEL) or ((tt[0] & set("FC")) if flat(vt) & MODEL else set())
                    for a in sorted(atoms):
                        i, row = lookup("iadd", a, n.target.id)
                        add(n, f"{n.target.id} {type(n.op).__name__}=", row[3] if row else "unknown", i, row[6] if row else "")
            elif isinstance(n, ast.Call):
                f, argt = n.func, self.argt(n)
                name = _last(f)
                aat = flat(join(*argt)) & MODEL if argt else frozenset()
                rt = self.ev(f.value) if isinstance(f, ast.Attribute) else None
                if name in T.HOF and n.args and not (rt and rt[0] & MODEL):
                    rest = flat(join(*argt[1:])) & MODEL if argt[1:] else frozenset()
                    for fn in sorted(self.funcs_of(n.args[0])):
                        named(n, fn, f"{name}({fn})", bool(rest))
                elif rt is not None and rt[0] & MODEL:
                    for a in sorted(rt[0] & MODEL):
                        if a == "M" and name in MODEL_METHODS:
                            add(n, name, "analysis", note=f"Model.{name} is in ANALYSES")
                            continue
                        i, row = lookup("method", a, name, len(argt))
                        add(n, name, row[3] if row else "unknown", i, row[6] if row else "", recv=f.value)
                elif rt is not None:
                    relevant = bool(aat or (rt[1] & MODEL))
                    r = resolve(self.mi, name, method=True) if relevant else None
                    if r and r[0] == "analysis":
                        add(n, name, "analysis", note=f"{r[1][0]}:{r[1][1]} is in ANALYSES (method resolved by name)")
                    else:
                        named(n, name, name, relevant)
                else:
                    for fn in sorted(self.funcs_of(f)):
                        named(n, fn, fn, bool(aat))
            r = None
            if isinstance(n, ast.Name) and isinstance(n.ctx, ast.Load) and n.id not in self.env:
                r = resolve(self.mi, n.id)
            elif isinstance(n, ast.Attribute) and isinstance(n.value, ast.Name) and n.value.id in self.mi.imports and n.value.id not in self.env:
                r = resolve(self.mi, n.attr)  # module-qualified, e.g. sutil.fix_objective_as_constraint
            if r and r[0] == "helper":
                add(n, _last(n), "helper", note=HP[r[1]]["why"], recv=r[1])
        out.sort(key=lambda s: (s["node"].lineno, s["node"].col_offset, s["callee"], s["cls"]))
        return out

    def later_call(self, node):
        loop = any(isinstance(a, (ast.For, ast.While)) for a in self.ancestors(node))
        cs = [c for c in ast.walk(self.root) if isinstance(c, ast.Call) and (c.lineno > node.lineno or loop) and c is not node
              and not any(node is x for x in ast.walk(c))]
        return min(cs, key=lambda c: (c.lineno, c.col_offset)) if cs else None

    def ancestors(self, node):
        while node is not self.root:
            node = self.par[node][0]
            yield node

    def stmt_of(self, node):
        while not isinstance(node, ast.stmt):
            node = self.par[node][0]
        return node

    def judge(self, s):
        node, cls, irow = s["node"], s["cls"], s["irow"]
        if irow is not None and T.EFFECTS[irow][5]:
            ok, text = verify_evidence(irow)
            if not ok:
                return "undecided", f"table evidence no longer holds on this source tree: {text}"
        if cls in ("pure", "copy", "analysis"):
            return "discharged", s["note"] or cls
        if cls == "unknown":
            return "undecided", "callee / write not classified in contracts/c13_frames.EFFECTS" + (": " + s["note"] if s["note"] else "")
        if cls == "ctx":
            why = self.in_context(node)
            if why:
                return "discharged", f"context-aware mutator {why}; undo registered, run by __exit__ on every exit (C03)"
            return "failed", ("context-aware mutator outside every `with <model>:` block of this function: get_context() is None, "
                              "no undo is registered, the change survives every exit")
        if cls == "helper":
            return self.judge_ref(s)
        return self.judge_raw(s, cls.split(":")[1])

    def judge_ref(self, s):
        node, h = s["node"], HP[s["recv"]]
        p, field, _ = self.par[node]
        if isinstance(p, ast.Call) and field == "func":
            params = [a.arg for a in source.module(h["mod"]).find(h["fn"]).args.args]
            marg = next((k.value for k in p.keywords if k.arg == h["model"]), None)
            if marg is None and h["model"] in params and params.index(h["model"]) < len(p.args):
                marg = p.args[params.index(h["model"])]
            if marg is not None and "M" not in self.ev(marg)[0]:
                if self.ev(marg)[0] & MODEL:
                    return "undecided", f"helper applied to `{ast.unparse(marg)}`, which is part of the model but not the model"
                return "discharged", f"helper applied to `{ast.unparse(marg)}`, a copy / fresh model, not the argument model"
        texts, worst = [], "yes"
        for tok in h["requires"]:
            st, why = ("yes" if self.in_context(node) else "no", self.in_context(node) or "reference is outside every `with <model>:` block") \
                if tok == "ctx" else self.covered(node, tok)
            texts.append(f"{tok}: {why}")
            worst = min(worst, st, key=("no", "maybe", "yes").index)
        res = {"yes": "discharged", "maybe": "undecided", "no": "failed"}[worst]
        return res, f"modifier `{h['fn']}` requires {list(h['requires'])} -- " + "; ".join(texts)

    def judge_raw(self, s, resource):
        node = s["node"]
        stmt = self.stmt_of(node)
        path = norm(ast.unparse(node)) if isinstance(node, ast.Attribute) else None
        if path and isinstance(stmt, ast.Assign) and stmt.targets == [node]:
            if isinstance(stmt.value, ast.Name) and self.entry_save(stmt.value.id) == path:
                return "discharged", f"(iii) writes back `{stmt.value.id}`, read from the same attribute at entry before any effect: restores the entry value"
            tf = self.try_finally(stmt, path)
            if tf:
                return "discharged", tf
        status = "no"
        if resource == "objective":
            status, why = self.covered(node, "objective")
            if status == "yes":
                return "discharged", f"(ii) objective write wiped by the set_objective reset registered before it: {why}"
        if resource == "solver" and s["recv"] is not None:
            pre = self.owned_prefix(s["recv"])
            for tok in ([t for t in self.requires if t.startswith("owned:")] if pre else []):
                if fnmatch.fnmatchcase(pre, tok[6:]) or fnmatch.fnmatchcase(pre + "x", tok[6:]):
                    return "discharged", f"(iv) object looked up as `{pre}...`: precondition `{tok}` of helper {self.qual}: owned by the open context, dropped at exit"
        nxt, ctx = self.later_call(node), self.in_context(node)
        tail = f"e.g. an exception from `{ast.unparse(nxt.func)}(...)` at L{nxt.lineno} exits with the write in place" if nxt else "it is never written back"
        if resource == "remove":
            return "failed", ("removal from the solver with no undo registered: an object that exists at entry (the lookup succeeded) is lost "
                              "for good, also when the enclosing context exits")
        if status == "maybe":
            return "undecided", f"objective write inside a context, cover not provable: {why}"
        if resource == "objective" or not ctx:
            return "failed", (f"behind-the-back write to {resource}: no try/finally restore, no context reset that covers it "
                              f"({'inside a context, but ' + why if ctx and resource == 'objective' else 'outside every context'}); {tail}")
        return "undecided", f"behind-the-back write to a solver object {ctx}: harmless only if that object was added inside the same context, which is not derivable here"

    def run(self):
        sites = self.sites()
        self.classes = [(s["node"], s["cls"]) for s in sites]
        recs = []
        for s in sites:
            res, detail = self.judge(s)
            recs.append({"name": f"C13/{self.rel}:{self.qual}/site@L{s['node'].lineno}:{s['callee']}", "function": f"{self.rel}:{self.qual}",
                         "line": s["node"].lineno, "callee": s["callee"], "class": s["cls"].split(":")[0], "result": res, "detail": detail})
        return recs


_init_cache = {}


def init_env(rel, cls):
    """Kinds of self.* established by the __init__ of a class and of its bases (T.BASES)."""
    key = (source.SRC, rel, cls)
    if key not in _init_cache:
        env, chain = {}, [(rel, cls)]
        while chain[-1][1] in T.BASES:
            chain.append(T.BASES[chain[-1][1]])
        for r, c in chain:
            if (r, c + ".__init__") in AN:
                f = Fn(r, c + ".__init__", AN[(r, c + ".__init__")])
                for k, v in f.env.items():
                    if k.startswith("self."):
                        env[k] = join(env.get(k, EMPTY), v)
        _init_cache[key] = env
    return dict(_init_cache[key])


def check_all(verbose=False):
    """One record per (function, site); see module docstring.  Re-reads the source tree on every call."""
    recs, users = [], {}
    entries = [(m, q, me, None) for m, q, me in T.ANALYSES] + [(h["mod"], h["fn"], h["model"], h) for h in T.HELPERS]
    for m, q, me, h in entries:
        try:
            got = Fn(m, q, me, h).run()
        except (KeyError, OSError, SyntaxError) as e:
            got = [{"name": f"C13/{m}:{q}/missing", "function": f"{m}:{q}", "line": 0, "callee": "", "class": "unknown", "result": "undecided",
                    "detail": f"cannot locate the function in the source tree: {e}"}]
        for r in got:
            if r["class"] == "helper":
                users.setdefault(r["callee"], set()).add(r["function"].split(":")[1])
        recs.extend(got)
    for r in recs:  # a failing modifier body invalidates everyone who relies on its contract
        fn = r["function"].split(":")[1]
        if r["result"] != "discharged" and fn in users:
            r["detail"] += f" [contract of modifier `{fn}` relied upon by: {', '.join(sorted(users[fn]))}]"
    if verbose:
        for r in recs:
            if verbose is True or r["result"] != "discharged":
                print(f"{r['result']:10s} {r['class']:8s} {r['name']}\n           {r['detail']}")
    return recs


def explain():
    """Assumptions and the table evidence as re-verified on the current source tree."""
    ev = [f"{row[0]} {row[1]}.{row[2][:40]} -> {row[3]}: {verify_evidence(i)[1]} [{row[6]}]" for i, row in enumerate(T.EFFECTS) if row[5]]
    hs = [f"{h['fn']} requires {list(h['requires'])} establishes {h['establishes']} "
          f"(objective establishment verified: {helper_establishes(h, 'objective') if 'objective' in h['establishes'] else 'n/a'}): {h['why']}" for h in T.HELPERS]
    return {"assumptions": list(T.ASSUMPTIONS), "raw_patterns": __doc__.split("raw     ")[1].split("helper reference")[0].strip(),
            "evidence": ev, "helpers": hs, "source_tree": source.SRC}


def main(argv):
    recs = check_all(verbose=("-v" in argv) or "failed-only")
    if "--json" in argv:
        print(json.dumps(recs, indent=1))
    n = {k: sum(r["result"] == k for r in recs) for k in ("discharged", "failed", "undecided")}
    print(f"C13 frame check on {source.SRC}: {len({r['function'] for r in recs})} functions with sites "
          f"({len(T.ANALYSES)} analyses + {len(T.HELPERS)} helpers checked), {len(recs)} sites: {n}")
    return 1 if n["failed"] else 0


if __name__ == "__main__":
    sys.exit(main(sys.argv[1:]))
