"""Loops: unrolling of concrete-length sequences, proved map-update summaries, hand invariants."""
import ast
import z3
from .values import *  # noqa
from .state import *  # noqa
from .contract import Env
from . import builtins as B
from . import values as V


class LoopCtx:
    def __init__(self, i, n, st, seq=None, fid=None, entry=None):
        self.i, self.n, self.st, self.seq, self.fid, self.entry = i, n, st, seq, fid, entry

    def var(self, name):
        return self.st.lookup(self.fid, name)


def assigned_names(nodes):
    names = []
    for node in nodes:
        for n in ast.walk(node):
            if isinstance(n, ast.Name) and isinstance(n.ctx, ast.Store) and n.id not in names:
                names.append(n.id)
    return names


def fresh_like(st, v, base):
    if isinstance(v, VInt):
        return st, VInt(fresh(base, z3.IntSort()))
    if isinstance(v, VBool):
        return st, VBool(fresh(base, z3.BoolSort()))
    if isinstance(v, VStr):
        return st, VStr(fresh(base, Id))
    if isinstance(v, VRef):
        return st, VRef(fresh(base, Ref), v.cls)
    if isinstance(v, VReal):
        r, c = xr_fresh(base)
        return st.assume(c), r
    from . import npalg
    if isinstance(v, npalg.VNp):
        # an opaque array / expression held in a local variable that the loop body assigns: unknown in the arbitrary iteration
        return st, npalg.VNp(fresh("np:" + base, npalg.NP))
    return st, v


def havoc_locations(eng, st, locs):
    for loc in locs:
        kind = loc[0]
        if kind == "list":
            rec = st.objs[loc[1].oid]
            if len(loc) > 2:   # ("list", obj, ekind): the list takes this element kind from now on
                rec = dict(rec, ekind=loc[2], elem=z3.K(z3.IntSort(), B._default(loc[2])))
                st = st.setobj(loc[1].oid, rec)
            n = fresh("hv_len", z3.IntSort())
            st = st.updobj(loc[1].oid, len=n, elem=fresh("hv_elem", rec["elem"].sort())).assume(n >= 0)
        elif kind == "tlist":
            rec = st.objs[loc[1].oid]
            n = fresh("hv_len", z3.IntSort())
            st = st.updobj(loc[1].oid, len=n, cols=[fresh("hv_col", c.sort()) for c in rec["cols"]]).assume(n >= 0)
        elif kind == "dict":
            rec = st.objs[loc[1].oid]
            if rec.get("lazy"):
                kk, vk = loc[2:4] if len(loc) >= 4 else getattr(eng.reg, "default_dict_kinds", (None, None))
                if kk is None:
                    raise Unsupported("havoc of an untyped empty dict")
                st = st.setobj(loc[1].oid, {"dom": z3.K(sort_of(kk), z3.BoolVal(False)),
                                            "val": z3.K(sort_of(kk), B._default(vk)), "kkind": kk, "vkind": vk})
                rec = st.objs[loc[1].oid]
            upd = {"dom": fresh("hv_dom", rec["dom"].sort()), "val": fresh("hv_val", rec["val"].sort())}
            if "card" in rec:
                upd["card"] = fresh("hv_card", z3.IntSort())
            st = st.updobj(loc[1].oid, **upd)
            if "card" in rec:
                st = st.assume(upd["card"] >= 0)
        elif kind == "setlazy":
            kk = loc[2]
            st = st.setobj(loc[1].oid, {"dom": fresh("hv_set", z3.ArraySort(sort_of(kk), z3.BoolSort())), "kkind": kk})
        elif kind == "set":
            rec = st.objs[loc[1].oid]
            st = st.updobj(loc[1].oid, dom=fresh("hv_set", rec["dom"].sort()))
        elif kind == "heap":
            f = loc[1]
            cur = eng.heap_arr(st, f)
            if isinstance(cur, tuple):
                st = st.setheap(f, tuple(fresh("hv_" + f, a.sort()) for a in cur))
                ka = st.heap[f][0]
                x = z3.Const(fresh_name("kx"), Ref)
                st = st.assume(FA([x], z3.And(ka[x] >= -1, ka[x] <= 1), patterns=[ka[x]]))
            else:
                st = st.setheap(f, fresh("hv_" + f, cur.sort()))
        elif kind == "attr":
            o, name, mk = loc[1], loc[2], loc[3]
            st, v = mk(st)
            st = st.updobj(o.oid, **{"attr:" + name: v})
        elif kind == "record_keys":
            # a record dict (literal keys): the listed keys may have been added, replaced or left out - their entries become
            # unknown (reading one is unsupported), every other entry is untouched
            st = B.to_record(st, loc[1])
            rec = st.objs[loc[1].oid]
            items = tuple((k, v) for k, v in rec["pyitems"] if k not in loc[2])
            items += tuple((k, VOpaque("maybe-entry")) for k in loc[2])
            st = st.updobj(loc[1].oid, pyitems=items)
        elif kind == "record_put":
            # ("record_put", dict, key, cond, mk): afterwards the record has `key` exactly when cond holds, with the value built by
            # mk(st) -> (st, value); cond None = the entry is removed / stays absent
            st = B.to_record(st, loc[1])
            rec = st.objs[loc[1].oid]
            items = tuple((k, v) for k, v in rec["pyitems"] if k != loc[2])
            if loc[3] is not None:
                st, val = loc[4](st)
                c = loc[3]
                if c is True or (z3.is_expr(c) and z3.is_true(c)):
                    items += ((loc[2], val),)
                elif not (c is False or (z3.is_expr(c) and z3.is_false(c))):
                    items += ((loc[2], ("maybe", c, val)),)
            st = st.updobj(loc[1].oid, pyitems=items)
        elif kind == "ghost":
            st = st.setghost(loc[1], loc[2](st))
        else:
            raise Unsupported(f"havoc of {loc!r}")
    return st


def havoc_vars(st, fid, names):
    for nm in names:
        owner = st.owner_frame(fid, nm)
        if owner is None:
            continue
        cur = st.lookup(fid, nm)
        st, v = fresh_like(st, cur, "hv_" + nm)
        st = st.setvar(owner, nm, v)
    return st


def loop_ordinal(eng, node):
    return eng.loop_ordinal.get(id(node))


def bind_target(eng, target, st, fid, val):
    outs = eng.assign(target, st, fid, val)
    if len(outs) != 1 or outs[0][0] != "ok":
        raise Unsupported("loop target assignment forks")
    return outs[0][1]


def exec_for(eng, node, st, fid):
    def after_iter(s, itv):
        if isinstance(itv, VFunc) and itv.kind == "dictview" and s.objs[itv.a.oid].get("pure"):
            # a RECORD (dictionary with literal keys, any values): its entries are known one by one - the loop is unrolled
            return unroll_record(eng, node, s, fid, itv)
        if isinstance(itv, VFunc) and itv.kind == "dictview" and _has_spec(eng, node) \
                and not s.objs[itv.a.oid].get("lazy") and not s.objs[itv.a.oid].get("pure"):
            # a dict-view loop WITH a hand invariant (its body does more than rewriting D[k], e.g. it changes ghost state):
            # iterate the ghost enumeration of the dictionary under the invariant
            from . import comprehension as C
            outs = C.iterable_to_seq(eng, s, itv)
            return eng._stmt(outs, lambda s2, sq: run_seq(eng, node, s2, fid, sq))
        if isinstance(itv, VFunc) and itv.kind == "dictview":
            r = summarise_dict_loop(eng, node, s, fid, itv)
            if r is not None:
                return r
            raise Unsupported(f"dict-view loop at line {node.lineno} is not a map-update loop and has no invariant")
        seq = B.to_seq(eng, s, itv)
        if seq is None:
            from . import comprehension as C
            outs = C.iterable_to_seq(eng, s, itv)
            return eng._stmt(outs, lambda s2, sq: run_seq(eng, node, s2, fid, sq))
        return run_seq(eng, node, s, fid, seq)
    return eng._stmt(eng.eval(node.iter, st, fid), after_iter)


def _has_spec(eng, node):
    ordn = loop_ordinal(eng, node)
    return eng.cur_contract is not None and ordn is not None and eng.cur_contract.loops.get(ordn) is not None


def run_seq(eng, node, st, fid, seq):
    if seq.known_len is not None and seq.known_len <= 8 and not getattr(seq, "effect", None):
        return unroll(eng, node, st, fid, seq)
    ordn = loop_ordinal(eng, node)
    spec = eng.cur_contract.loops.get(ordn) if eng.cur_contract is not None and ordn is not None else None
    if spec is None:
        raise Unsupported(f"loop #{ordn} at line {node.lineno} over a symbolic sequence has no invariant")
    return invariant_for(eng, node, st, fid, seq, spec, ordn)


def unroll(eng, node, st, fid, seq):
    outs = [("next", st, None)]
    for k in range(seq.known_len):
        new = []
        for kind, s, v in outs:
            if kind != "next":
                new.append((kind, s, v))
                continue
            s = bind_target(eng, node.target, s, fid, seq.get(s, z3.IntVal(k)))
            for k2, s2, v2 in eng.exec_block(node.body, s, fid):
                if k2 in ("next", "continue"):
                    new.append(("next", s2, None))
                elif k2 == "break":
                    new.append(("broken", s2, None))
                else:
                    new.append((k2, s2, v2))
        outs = new
    res = []
    for kind, s, v in outs:
        if kind == "next":
            res.extend(eng.exec_block(node.orelse, s, fid) if node.orelse else [("next", s, None)])
        elif kind == "broken":
            res.append(("next", s, None))
        else:
            res.append((kind, s, v))
    return res


def unroll_record(eng, node, st, fid, view):
    """`for k, v in d.items()` / `for k in d.keys()` / `for v in d.values()` over a record dictionary (literal keys, heterogeneous values,
    see builtins.to_record): one iteration per entry, in insertion order; a conditional entry ("maybe", cond, value) forks on its
    presence condition.  The body must not add or remove entries of the record (Python raises RuntimeError then): unsupported."""
    d, which = view.a, view.b
    items = tuple(st.objs[d.oid]["pyitems"])
    keys0 = tuple(k for k, _ in items)
    outs = [("next", st, None)]
    for key, w in items:
        new = []
        for kind, s, v in outs:
            if kind != "next":
                new.append((kind, s, v))
                continue
            cur = s.objs[d.oid]
            if not cur.get("pure") or tuple(k for k, _ in cur["pyitems"]) != keys0:
                raise Unsupported("record dictionary changed size during iteration")
            w_now = dict(cur["pyitems"])[key]
            if isinstance(w_now, VOpaque) and w_now.what == "maybe-entry":
                raise Unsupported("iteration over a record entry whose presence is unknown")
            alts = eng.branch(s, w_now[1]) if isinstance(w_now, tuple) else [(True, s)]
            for present, s2 in alts:
                if not present:
                    new.append(("next", s2, None))
                    continue
                val = w_now[2] if isinstance(w_now, tuple) else w_now
                item = {"items": VTuple((VConc(key), val)), "keys": VConc(key), "values": val}[which]
                s3 = bind_target(eng, node.target, s2, fid, item)
                for k2, s4, v4 in eng.exec_block(node.body, s3, fid):
                    if k2 in ("next", "continue"):
                        new.append(("next", s4, None))
                    elif k2 == "break":
                        new.append(("broken", s4, None))
                    else:
                        new.append((k2, s4, v4))
        outs = new
    res = []
    for kind, s, v in outs:
        if kind == "next":
            res.extend(eng.exec_block(node.orelse, s, fid) if node.orelse else [("next", s, None)])
        elif kind == "broken":
            res.append(("next", s, None))
        else:
            res.append((kind, s, v))
    return res


def spec_env(eng, st):
    return Env(eng.entry_args, eng.entry_state, st, eng=eng)


def _note_unlisted_writes(eng, ordn, s_head, s_end, locs):
    """KNOWN GAP of the loop rule (reported, not yet an obligation): the state after a loop under a hand invariant is the entry state
    with the loop's `modifies` havocked plus the invariant; a heap field the BODY writes but the loop's `modifies` does not list is not
    carried past the loop head, and nothing obliges the body to stay within `modifies`.  Every such (contract, loop, field) seen while
    executing the arbitrary iteration is listed in the evidence (as an assumption `unchecked-loop-frame:...`), so that a reader sees
    exactly where a post-condition was proved about a state that ignores such a write."""
    listed = {loc[1] for loc in locs if loc[0] == "heap"}
    fields = []
    for f, arr in s_end.heap.items():
        if f in listed:
            continue
        a0 = s_head.heap.get(f)
        if a0 is None:
            a0 = eng.heap_init(f)
        pairs = zip(arr, a0) if isinstance(arr, tuple) else [(arr, a0)]
        if any(not x.eq(y) for x, y in pairs):
            fields.append(f)
    if fields:
        from . import apply as _apply
        key = f"unchecked-loop-frame:{getattr(eng.cur_contract, 'key', '?')}/loop#{ordn}"
        old = _apply.ASSUMED_USED.get(key, "")
        names = sorted(set(fields) | set(old.split(": ")[-1].split(", ") if old else []))
        _apply.ASSUMED_USED[key] = ("the loop body writes heap field(s) not listed in the loop's `modifies` (not carried past the loop "
                                    "head; known gap of the loop rule, see pyvc/loops.py): " + ", ".join(n for n in names if n))


def invariant_for(eng, node, st, fid, seq, spec, ordn):
    res = []
    n = seq.n
    E0 = spec_env(eng, st)
    eng.oblige_split(st, spec.inv(E0, LoopCtx(z3.IntVal(0), n, st, seq, fid, st)), f"loop#{ordn}/inv-init", kind="loop")
    names = assigned_names([node.target] + node.body)
    locs = spec.modifies(E0, LoopCtx(z3.IntVal(0), n, st, seq, fid, st)) if spec.modifies else []
    # arbitrary iteration
    sh = havoc_vars(havoc_locations(eng, st, locs), fid, names)
    i = fresh("it", z3.IntSort())
    sh = sh.assume(0 <= i, i < n, n >= 0)
    sh = sh.assume(spec.inv(spec_env(eng, sh), LoopCtx(i, n, sh, seq, fid, st)))
    can_iterate = True
    if not eng.feasible(sh):
        # vacuity guard: under the invariant no iteration can happen although the sequence is symbolic - a contradictory invariant
        # would make every later obligation trivially true.  Not so when the sequence is provably EMPTY in the state the loop is
        # entered in (whatever the invariant says): then the loop runs zero times and only `inv-init` and the exit are needed.
        if eng.feasible(st.assume(0 <= i, i < n, n >= 0)):
            raise Unsupported(f"loop #{ordn} at line {node.lineno}: no iteration is possible under the invariant (vacuous invariant?)")
        can_iterate = False
    if can_iterate:
        # the element: a pure read of the sequence, or (map(f, seq): lazy) the outcomes of calling f on it right now
        elems = seq.effect(eng, sh, i) if getattr(seq, "effect", None) else [("ok", sh, seq.get(sh, i))]
        n_ok = 0
        for ke, s_e, v_e in elems:
            n_ok += ke == "ok"
        if getattr(seq, "effect", None) and n_ok == 0:
            raise Unsupported(f"loop #{ordn} at line {node.lineno}: the call producing the elements has no normal outcome")
        for ke, s_e, v_e in elems:
            if ke != "ok":
                res.append((ke, s_e, v_e))
                continue
            sb = bind_target(eng, node.target, s_e, fid, v_e)
            for k2, s2, v2 in eng.exec_block(node.body, sb, fid):
                if k2 in ("next", "continue"):
                    eng.oblige_split(s2, spec.inv(spec_env(eng, s2), LoopCtx(i + 1, n, s2, seq, fid, st)),
                                     f"loop#{ordn}/inv-preserve", kind="loop")
                    _note_unlisted_writes(eng, ordn, sh, s2, locs)
                elif k2 == "break":
                    res.append(("next", s2, None))
                else:
                    res.append((k2, s2, v2))
    # exhausted
    se = havoc_vars(havoc_locations(eng, st, locs), fid, names)
    se = se.assume(n >= 0, spec.inv(spec_env(eng, se), LoopCtx(n, n, se, seq, fid, st)))
    if eng.feasible(se):
        res.extend(eng.exec_block(node.orelse, se, fid) if node.orelse else [("next", se, None)])
    return res


def exec_while(eng, node, st, fid):
    ordn = loop_ordinal(eng, node)
    spec = eng.cur_contract.loops.get(ordn) if eng.cur_contract is not None and ordn is not None else None
    if spec is None:
        raise Unsupported(f"while loop #{ordn} at line {node.lineno} has no invariant")
    res = []
    eng.oblige_split(st, spec.inv(spec_env(eng, st), LoopCtx(None, None, st, None, fid, st)), f"loop#{ordn}/inv-init", kind="loop")
    names = assigned_names(node.body)
    locs = spec.modifies(spec_env(eng, st), LoopCtx(None, None, st, None, fid, st)) if spec.modifies else []

    def havocked():
        sh = havoc_vars(havoc_locations(eng, st, locs), fid, names)
        return sh.assume(spec.inv(spec_env(eng, sh), LoopCtx(None, None, sh, None, fid, st)))
    sh = havocked()
    for kc, sc, vc in eng.eval(node.test, sh, fid):
        if kc != "ok":
            res.append((kc, sc, vc))
            continue
        for val, s2 in eng.branch(sc, eng.truth(sc, vc)):
            if val:
                variant0 = spec.assigns(spec_env(eng, s2)) if callable(spec.assigns) else None
                for k3, s3, v3 in eng.exec_block(node.body, s2, fid):
                    if k3 in ("next", "continue"):
                        eng.oblige(s3, spec.inv(spec_env(eng, s3), LoopCtx(None, None, s3, None, fid, st)),
                                   f"loop#{ordn}/inv-preserve", kind="loop")
                        if variant0 is not None:
                            v1 = spec.assigns(spec_env(eng, s3))
                            eng.oblige(s3, z3.And(v1 < variant0, variant0 >= 0), f"loop#{ordn}/variant", kind="loop")
                    elif k3 == "break":
                        res.append(("next", s3, None))
                    else:
                        res.append((k3, s3, v3))
            else:
                res.extend(eng.exec_block(node.orelse, s2, fid) if node.orelse else [("next", s2, None)])
    return res


# ---------------------------------------------------------------- proved map-update summary
def _consts_after(term, mark):
    """names of fresh constants (name!N with N >= mark) occurring in term"""
    seen, out, todo = set(), [], [term]
    while todo:
        t = todo.pop()
        if t.get_id() in seen:
            continue
        seen.add(t.get_id())
        if z3.is_const(t) and t.decl().kind() == z3.Z3_OP_UNINTERPRETED:
            nm = t.decl().name()
            if "!" in nm:
                try:
                    if int(nm.rsplit("!", 1)[1]) >= mark:
                        out.append(nm)
                except ValueError:
                    pass
        todo.extend(t.children())
        if z3.is_quantifier(t):
            todo.append(t.body())
    return out


def summarise_dict_loop(eng, node, st, fid, view):
    """`for k, v in D.items(): body` where body only rewrites D[k] (and local temporaries).

    Side conditions are emitted as obligations (`summary-side`): key set unchanged, only D[k] written.
    Result: val'[k] = f(k, val[k]) for every key, characterised by one pattern-guarded quantified axiom per path.
    """
    d, which = view.a, view.b
    rec = st.objs[d.oid]
    if rec.get("lazy"):
        return [("next", st, None)]
    ordn = loop_ordinal(eng, node)
    ksort = sort_of(rec["kkind"])
    import itertools
    k = z3.Const(fresh_name("key"), ksort)
    mark = next(V._counter)
    kv, vv = wrap(k, rec["kkind"]), wrap(z3.Select(rec["val"], k), rec["vkind"])
    item = {"items": VTuple((kv, vv)), "keys": kv, "values": vv}[which]
    sb = st.assume(z3.Select(rec["dom"], k))
    sb = bind_target(eng, node.target, sb, fid, item)
    base_pc = len(sb.pc)
    saved_obls = len(eng.obls)
    outs = eng.exec_block(node.body, sb, fid)
    if node.orelse:
        return None
    cases = []
    for kind, s2, v2 in outs:
        if kind not in ("next", "continue"):
            del eng.obls[saved_obls:]
            return None
        for f, arr in s2.heap.items():
            a0 = st.heap.get(f)
            if a0 is None or not _same(arr, a0):
                del eng.obls[saved_obls:]
                return None
        for oid, r2 in s2.objs.items():
            if oid == d.oid or oid not in st.objs:
                continue
            r0 = st.objs[oid]
            if r2 is not r0 and any(not _same(r2.get(key), r0.get(key)) for key in set(r2) | set(r0)):
                del eng.obls[saved_obls:]
                return None
        if any(isinstance(gk, str) and not _same(gv, st.ghost.get(gk)) for gk, gv in s2.ghost.items()):
            del eng.obls[saved_obls:]
            return None          # the body changes named ghost state (a trace, a modelled external matrix): not a pure map update
        r2 = s2.objs[d.oid]
        if not _same(r2["dom"], rec["dom"]):
            kd = z3.Const(fresh_name("keyd"), ksort)
            eng.oblige(s2, FA([kd], z3.Select(r2["dom"], kd) == z3.Select(rec["dom"], kd)),
                       f"loop#{ordn}/summary-side-keys", kind="loop")
        extra = list(s2.pc[base_pc:])
        newval = z3.simplify(z3.Select(r2["val"], k))
        for t in extra + [newval]:
            if _consts_after(t, mark):
                del eng.obls[saved_obls:]
                return None
        k2 = z3.Const(fresh_name("key2"), ksort)
        eng.oblige(s2, FA([k2], z3.Implies(k2 != k, z3.Select(r2["val"], k2) == z3.Select(rec["val"], k2))),
                   f"loop#{ordn}/summary-side", kind="loop")
        cases.append((extra, newval))
    valn = fresh("map_val", rec["val"].sort())
    body = [z3.Implies(z3.And(*extra) if extra else z3.BoolVal(True), z3.Select(valn, k) == nv) for extra, nv in cases]
    ax1 = FA([k], z3.Implies(z3.Select(rec["dom"], k), z3.And(*body) if body else z3.BoolVal(True)),
                    patterns=[z3.Select(valn, k)])
    ax2 = FA([k], z3.Implies(z3.Not(z3.Select(rec["dom"], k)), z3.Select(valn, k) == z3.Select(rec["val"], k)),
                    patterns=[z3.Select(valn, k)])
    s_out = st.assume(ax1, ax2).updobj(d.oid, val=valn)
    s_out = havoc_vars(s_out, fid, assigned_names([node.target] + node.body))
    return [("next", s_out, None)]


def _same(a, b):
    if a is b:
        return True
    if a is None or b is None:
        return False
    if isinstance(a, tuple) and isinstance(b, tuple):
        return len(a) == len(b) and all(_same(x, y) for x, y in zip(a, b))
    if isinstance(a, z3.ExprRef) and isinstance(b, z3.ExprRef):
        return a.eq(b)
    if isinstance(a, Value) and isinstance(b, Value):
        if type(a) is not type(b):
            return False
        if isinstance(a, VObj):
            return a.oid == b.oid
        if hasattr(a, "t"):
            return a.t.eq(b.t)
        if isinstance(a, VReal):
            return a.k.eq(b.k) and a.v.eq(b.v)
        return a is b
    return a == b
