"""Comprehensions and generator expressions, characterised by quantified axioms over the source sequence.

Only single-`for` comprehensions whose element/condition expressions are pure and single-path are summarised;
anything else is Unsupported (=> undecided), except sequences of small concrete length, which are unrolled.
"""
import ast
import z3
from .values import *  # noqa
from .state import *  # noqa
from . import builtins as B
from . import values as V
from .loops import _consts_after, bind_target

I = z3.IntSort()


class VGen(Value):
    """Lazy generator: source sequence, optional filter, element function (all in terms of an index constant)."""

    def __init__(self, seq, idx, cond, elt, st_pc_extra=()):
        self.seq, self.idx, self.cond, self.elt = seq, idx, cond, elt

    def cond_at(self, i):
        if self.cond is None:
            return z3.BoolVal(True)
        return z3.substitute(self.cond, (self.idx, i))

    def elt_at(self, i):
        return subst_value(self.elt, self.idx, i)

    def __repr__(self):
        return f"VGen({self.seq})"


class VGenFlat(Value):
    """Generator with two `for` clauses whose inner iterable is a tuple of fixed arity k (`f(b) for r in rs for b in r.pair`):
    one VGen per component over the same outer sequence - the flattening is never indexed (no div / mod), consumers
    (min / max) characterise it component by component, as _dictcomp_flat does for chain(*pairs)."""

    def __init__(self, parts):
        self.parts = list(parts)

    def __repr__(self):
        return f"VGenFlat({self.parts[0].seq}, arity={len(self.parts)})"


def subst_value(v, a, b):
    if isinstance(v, VInt):
        return VInt(z3.substitute(v.t, (a, b)))
    if isinstance(v, VBool):
        return VBool(z3.substitute(v.t, (a, b)))
    if isinstance(v, VStr):
        return VStr(z3.substitute(v.t, (a, b)))
    if isinstance(v, VRef):
        return VRef(z3.substitute(v.t, (a, b)), v.cls)
    if isinstance(v, VReal):
        return VReal(z3.substitute(v.k, (a, b)), z3.substitute(v.v, (a, b)))
    if isinstance(v, VTuple):
        return VTuple([subst_value(x, a, b) for x in v.items])
    if isinstance(v, (VNone, VConc, VOpaque, VObj)):
        return v
    if type(v).__name__ == "VNp":
        return type(v)(z3.substitute(v.t, (a, b)))
    raise Unsupported(f"substitution in {v!r}")


def _source_seq(eng, st, fid, gen):
    """evaluate the iterable of a comprehension generator -> outcomes with VSeq"""
    def after(s, itv):
        seq = B.to_seq(eng, s, itv)
        if seq is not None:
            return [("ok", s, seq)]
        return iterable_to_seq(eng, s, itv)
    return eng.bind(eng.eval(gen.iter, st, fid), after)


def _element(eng, node_elts, gen, st, fid, seq, inner=None):
    """Evaluate filter and element expressions at a fresh symbolic index.
    -> (idx const, cond term or None, [values]) ; raises Unsupported if impure / forking.
    inner = (second generator, component number c, box): the element is evaluated with the target of the second `for` clause bound
    to component c of its iterable, which must be a tuple of fixed arity (reported in box["arity"])."""
    i = z3.Const(fresh_name("ci"), I)
    mark = next(V._counter)
    cf = new_fid()
    s = st.with_frame(cf, fid, {})
    s = s.assume(0 <= i, i < seq.n)
    s = bind_target(eng, gen.target, s, cf, seq.get(s, i))
    base_pc = len(s.pc)
    cond = None
    for c in gen.ifs:
        outs = eng.eval(c, s, cf)
        if len(outs) != 1 or outs[0][0] != "ok":
            raise Unsupported("comprehension filter forks or raises")
        _, s, cv = outs[0]
        t = eng.truth(s, cv)
        t = z3.BoolVal(t) if isinstance(t, bool) else t
        cond = t if cond is None else z3.And(cond, t)
    if inner is not None:
        gen2, comp, box = inner
        if cond is not None:
            s = s.assume(cond)
        outs = eng.eval(gen2.iter, s, cf)
        if len(outs) != 1 or outs[0][0] != "ok":
            raise Unsupported("inner iterable of a comprehension forks or raises")
        _, s, itv = outs[0]
        sq2 = B.to_seq(eng, s, itv) if isinstance(itv, VTuple) else None
        if sq2 is None and not isinstance(itv, VTuple) and eng.hooks.get("iter"):
            # an external collection that a contract module's `iter` hook knows to have a FIXED number of elements
            r2 = eng.hooks["iter"](eng, s, itv)
            if r2 is not None and len(r2) == 1 and r2[0][0] == "ok" and r2[0][2].known_len:
                s, sq2 = r2[0][1], r2[0][2]
        if sq2 is None or not sq2.known_len:
            raise Unsupported("second `for` clause of a comprehension over something else than a non-empty fixed-arity tuple")
        box["arity"] = sq2.known_len
        s = bind_target(eng, gen2.target, s, cf, sq2.get(s, z3.IntVal(comp)))
        for c in gen2.ifs:
            outs = eng.eval(c, s, cf)
            if len(outs) != 1 or outs[0][0] != "ok":
                raise Unsupported("comprehension filter forks or raises")
            _, s, cv = outs[0]
            t = eng.truth(s, cv)
            t = z3.BoolVal(t) if isinstance(t, bool) else t
            cond = t if cond is None else z3.And(cond, t)
    if cond is not None:
        s_e = s.assume(cond)
    else:
        s_e = s
    vals = []
    for e in node_elts:
        outs = eng.eval(e, s_e, cf)
        outs = [o for o in outs]
        if len(outs) == 1 and outs[0][0] == "raise" and cond is None and inner is None and len(node_elts) == 1 and not vals:
            # the element expression raises for EVERY element (e.g. `e.id` over a list of strings): see listcomp; only when
            # nothing was changed before the exception (the state reported with it is the one the comprehension started in)
            s_r = outs[0][1]
            if all(_same_heap(s_r, st, f) for f in s_r.heap) and not any(oid in st.objs and s_r.objs[oid] is not st.objs[oid] for oid in s_r.objs):
                raise ElementAlwaysRaises(outs[0][2])
        if len(outs) != 1 or outs[0][0] != "ok":
            raise Unsupported("comprehension element forks or raises")
        _, s_e, v = outs[0]
        vals.append(v)
    # purity: no heap / object change
    if any(not _same_heap(s_e, st, f) for f in s_e.heap) or any(
            (oid in st.objs and s_e.objs[oid] is not st.objs[oid]) for oid in s_e.objs):
        raise Unsupported("comprehension element has side effects")
    extra = [c for c in s_e.pc[base_pc:] if cond is None or not c.eq(cond)]
    for t in ([cond] if cond is not None else []) + [x for v in vals for x in _terms(v)]:
        if _consts_after(t, mark):
            raise Unsupported("comprehension element introduces index-dependent fresh constants")
    return i, cond, vals, extra


class ElementAlwaysRaises(Unsupported):
    """the single element expression of an unfiltered comprehension has exactly one outcome at an arbitrary index, and that outcome
    is an exception (a subclass of Unsupported: consumers that do not handle it stay undecided, as before)"""

    def __init__(self, exc):
        Unsupported.__init__(self, "comprehension element forks or raises")
        self.exc = exc


def _same_heap(s1, s0, f):
    a, b = s1.heap.get(f), s0.heap.get(f)
    if a is b:
        return True
    if a is None or b is None:
        return False
    if isinstance(a, tuple):
        return all(x.eq(y) for x, y in zip(a, b))
    return a.eq(b)


def _terms(v):
    if isinstance(v, (VInt, VBool, VStr, VRef)):
        return [v.t]
    if isinstance(v, VReal):
        return [v.k, v.v]
    if isinstance(v, VTuple):
        return [t for x in v.items for t in _terms(x)]
    if type(v).__name__ == "VNp":
        return [v.t]
    return []


def _single_gen(node):
    if len(node.generators) != 1 or node.generators[0].is_async:
        raise Unsupported("multi-generator comprehension")
    return node.generators[0]


def _with_extras(s, seq, i, cond, extra):
    """facts established for an arbitrary index (callee postconditions, assumed-after-obliged preconditions)
    hold for every index in range"""
    if not extra:
        return s
    rng = z3.And(0 <= i, i < seq.n) if cond is None else z3.And(0 <= i, i < seq.n, cond)
    return s.assume(FA([i], z3.Implies(rng, z3.And(*extra))))


def _genexp_flat(eng, node, st, fid):
    """(elt for x in xs for y in <tuple expression of x>): see VGenFlat"""
    g0, g1 = node.generators

    def mk(s, seq):
        parts, box, c = [], {}, 0
        while c < box.get("arity", 1):
            i, cond, vals, extra = _element(eng, [node.elt], g0, s, fid, seq, inner=(g1, c, box))
            s = _with_extras(s, seq, i, cond, extra)
            parts.append(VGen(seq, i, cond, vals[0]))
            c += 1
        return [("ok", s, VGenFlat(parts))]
    return eng.bind(_source_seq(eng, st, fid, g0), mk)


def minmax_gen(eng, st, g, is_min):
    """min / max of a generator (VGen without filter, or VGenFlat): ValueError when the source sequence is empty, else a fresh
    value m characterised by  every element >= / <= m  and  some element == m  (extended reals, or integers)."""
    parts = g.parts if isinstance(g, VGenFlat) else [g]
    if any(p.cond is not None for p in parts):
        raise Unsupported("min/max of a filtered generator")
    seq, n = parts[0].seq, parts[0].seq.n
    probe = [p.elt for p in parts]
    ints = all(isinstance(v, (VInt, VBool)) for v in probe)
    if not ints and not all(isinstance(v, (VReal, VInt, VBool)) for v in probe):
        raise Unsupported("min/max of a generator of non-numeric elements")
    res = []
    for nonempty, s in eng.branch(st, n > 0):
        if not nonempty:
            res.append(eng.raise_(s, "ValueError"))
            continue
        i, w = z3.Const(fresh_name("mi"), I), fresh("mw", I)
        if ints:
            m, dom = VInt(fresh("minmax", I)), z3.BoolVal(True)
            val = lambda p, ix: unwrap(p.elt_at(ix), "int")  # noqa
            le = (lambda a, b: b <= a) if is_min else (lambda a, b: a <= b)
            bound = lambda p, ix: le(val(p, ix), m.t)  # noqa
            hit = lambda p, ix: val(p, ix) == m.t  # noqa
        else:
            m, dom = xr_fresh("minmax")
            val = lambda p, ix: eng.to_real(p.elt_at(ix))  # noqa
            bound = (lambda p, ix: xr_le(m, val(p, ix))) if is_min else (lambda p, ix: xr_le(val(p, ix), m))
            hit = lambda p, ix: xr_eq(val(p, ix), m)  # noqa
        pats = [t for t in _terms(seq.get(s, i))][:1]
        ax1 = FA([i], z3.Implies(z3.And(0 <= i, i < n), z3.And(*[bound(p, i) for p in parts])), patterns=pats)
        ax2 = z3.And(0 <= w, w < n, z3.Or(*[hit(p, w) for p in parts]))
        res.append(("ok", s.assume(dom, ax1, ax2), m))
    return res


def genexp(eng, node, st, fid):
    if len(node.generators) == 2 and not any(g.is_async for g in node.generators):
        return _genexp_flat(eng, node, st, fid)
    gen = _single_gen(node)

    def mk(s, seq):
        try:
            i, cond, vals, extra = _element(eng, [node.elt], gen, s, fid, seq)
        except Unsupported:
            # a contract may raise the arity limit for ITS function (`con.genexp_unroll = 8`: the constant tables of
            # cobra.medium.annotations have up to 8 entries); every other contract keeps the limit 6
            if seq.known_len is not None and seq.known_len <= getattr(eng.cur_contract, "genexp_unroll", 6) and seq.tag == "tuple":
                # (f(b) for b in <tuple of fixed arity>), e.g. max(abs(b) for b in r.bounds): a tuple cannot be indexed
                # symbolically; the elements are evaluated one by one, in order, and handed on as a tuple (the consumers
                # min / max / sum / tuple() / a for loop read all of them at once anyway)
                return _unrolled_list(eng, node, gen, s, fid, seq, as_tuple=True)
            raise
        s = _with_extras(s, seq, i, cond, extra)
        return [("ok", s, VGen(seq, i, cond, vals[0]))]
    return eng.bind(_source_seq(eng, st, fid, gen), mk)


def _listcomp_flat1(eng, node, st, fid):
    """[elt for x in xs for y in <one-element iterable of x>]: the inner iterable has exactly ONE element (a 1-tuple, or an external
    collection the `iter` hook gives the fixed length 1), so the flattening has one element per outer element, in the outer order;
    other arities stay unsupported"""
    g0, g1 = node.generators

    def mk(s, seq):
        box = {}
        i, cond, vals, extra = _element(eng, [node.elt], g0, s, fid, seq, inner=(g1, 0, box))
        if box.get("arity") != 1:
            raise Unsupported("two-generator list comprehension whose inner iterable does not have exactly one element")
        s = _with_extras(s, seq, i, cond, extra)
        return gen_to_list(eng, s, VGen(seq, i, cond, vals[0]))
    return eng.bind(_source_seq(eng, st, fid, g0), mk)


def listcomp(eng, node, st, fid):
    if len(node.generators) == 2 and not any(g.is_async for g in node.generators):
        return _listcomp_flat1(eng, node, st, fid)
    gen = _single_gen(node)

    def mk(s, seq):
        if seq.known_len is not None and seq.known_len <= 6:
            return _unrolled_list(eng, node, gen, s, fid, seq)
        try:
            i, cond, vals, extra = _element(eng, [node.elt], gen, s, fid, seq)
        except ElementAlwaysRaises as ear:
            # [f(e) for e in xs] where f(e) raises the same exception for every e: the comprehension raises it when xs is not empty
            # (at its first element, before anything is built) and is the empty list otherwise
            res = []
            for nonempty, s2 in eng.branch(s, seq.n > 0):
                if nonempty:
                    res.append(("raise", s2, ear.exc))
                else:
                    s3, l = alloc_list(s2, "int", length=z3.IntVal(0))
                    res.append(("ok", s3.updobj(l.oid, untyped=True), l))
            return res
        s = _with_extras(s, seq, i, cond, extra)
        return gen_to_list(eng, s, VGen(seq, i, cond, vals[0]))
    return eng.bind(_source_seq(eng, st, fid, gen), mk)


def _unrolled_list(eng, node, gen, st, fid, seq, as_tuple=False):
    cf = new_fid()
    outs = [("ok", st.with_frame(cf, fid, {}), [])]
    for k in range(seq.known_len):
        def step(s, acc, k=k):
            s = bind_target(eng, gen.target, s, cf, seq.get(s, z3.IntVal(k)))
            conds = [("ok", s, True)]
            for c in gen.ifs:
                def chk(s2, keep, c=c):
                    if not keep:
                        return [("ok", s2, False)]
                    r = []
                    for k3, s3, v3 in eng.eval(c, s2, cf):
                        if k3 != "ok":
                            r.append((k3, s3, v3))
                        else:
                            for val, s4 in eng.branch(s3, eng.truth(s3, v3)):
                                r.append(("ok", s4, val))
                    return r
                conds = eng.bind(conds, chk)

            def elt(s2, keep):
                if not keep:
                    return [("ok", s2, acc)]
                return eng.bind(eng.eval(node.elt, s2, cf), lambda s3, v: [("ok", s3, acc + [v])])
            return eng.bind(conds, elt)
        outs = eng.bind(outs, step)
    return eng.bind(outs, lambda s, vs: [("ok", s, VTuple(vs))] if as_tuple else [B.list_from_values(eng, s, vs)])


def gen_to_seq(eng, st, g):
    """VGen -> VSeq (filtered subsequence characterised with ghost index maps)."""
    seq = g.seq
    if g.cond is None:
        return st, VSeq(seq.n, lambda s, i: g.elt_at(i), known_len=seq.known_len, tag="map", src=seq.src)
    m = fresh("flt_len", I)
    src = fresh("flt_src", z3.ArraySort(I, I))
    dst = fresh("flt_dst", z3.ArraySort(I, I))
    j, i = z3.Const(fresh_name("j"), I), z3.Const(fresh_name("i"), I)
    n = seq.n
    c0, c1 = m >= 0, m <= n
    a1 = FA([j], z3.Implies(z3.And(0 <= j, j < m),
                            z3.And(0 <= src[j], src[j] < n, g.cond_at(src[j]), dst[src[j]] == j)), patterns=[src[j]])
    mono = FA([j], z3.Implies(z3.And(0 <= j, j + 1 < m), src[j] < src[j + 1]), patterns=[src[j + 1]])
    a3 = FA([i], z3.Implies(z3.And(0 <= i, i < n, g.cond_at(i)), z3.And(0 <= dst[i], dst[i] < m, src[dst[i]] == i)),
            patterns=[dst[i]])
    h = eng.hooks.get("filter_monotone")
    if h:
        # a contract module may state the SAME fact (the kept positions are increasing) in another form, e.g. over two variables
        # (no `j + 1` trigger: that one re-fires on the terms it creates), or leave it out (assuming less is sound)
        r = h(eng, st, src, m)
        if r is not None:
            mono = r
    ax = [c0, c1, a1, mono, a3]
    st = st.assume(*ax)
    out = VSeq(m, lambda s, jj: g.elt_at(z3.Select(src, jj)), known_len=None, tag="filter", src=seq.src)
    out.flt = (src, dst, g)        # ghost maps, for the coverage fact of lists built from a filtered set iteration
    st = st.setghost(("filter", m.decl().name()), (src, dst, n))
    return st, out


def gen_to_list(eng, st, g):
    st, sq = gen_to_seq(eng, st, g)
    v0 = sq.get(st, z3.Const(fresh_name("i"), I))
    kind = B.value_kind(v0)
    if kind is None and isinstance(v0, VTuple):
        st2, rec = B.tlist_from_seq(eng, st, sq)
        oid = new_oid()
        return [("ok", st2.setobj(oid, rec), VObj(oid, "tlist", "list"))]
    if kind is None:
        raise Unsupported("list of non-scalar elements")
    st, l = alloc_list(st, kind, length=z3.IntVal(0))
    return eng.bind(B.list_extend(eng, st, l, sq), lambda s, _: [("ok", s, l)])


def iterable_to_seq(eng, st, v):
    if isinstance(v, VGen):
        st, sq = gen_to_seq(eng, st, v)
        return [("ok", st, sq)]
    if isinstance(v, VFunc) and v.kind == "dictview":
        d, which = v.a, v.b
        rec = st.objs[d.oid]
        st, order, pos, n = _order_of(st, d, rec)
        kk, vk = rec["kkind"], rec.get("vkind")

        def get(s, i):
            r = s.objs[d.oid]
            k = z3.Select(order, i)
            if which == "keys":
                return wrap(k, kk)
            if which == "values":
                return wrap(z3.Select(r["val"], k), vk)
            return VTuple((wrap(k, kk), wrap(z3.Select(r["val"], k), vk)))
        return [("ok", st, VSeq(n, get, tag="dictview"))]
    if isinstance(v, VObj) and v.kind in ("set", "dict"):
        rec = st.objs[v.oid]
        if rec.get("lazy"):
            return [("ok", st, VSeq(z3.IntVal(0), lambda s, i: NONE, known_len=0, tag="empty"))]
        st, order, pos, n = _order_of(st, v, rec)
        return [("ok", st, VSeq(n, lambda s, i: wrap(z3.Select(order, i), rec["kkind"]), tag="setiter",
                                src=("order", order, pos, rec["dom"])))]
    h = eng.hooks.get("iter")
    if h:
        r = h(eng, st, v)
        if r is not None:
            return r
    raise Unsupported(f"iteration over {v!r}")


def _order_of(st, d, rec):
    """Ghost enumeration of an unordered collection: order : [0,n) -> K bijective onto dom."""
    key = ("order", d.oid, rec["dom"].get_id())
    if key in st.ghost:
        return (st,) + st.ghost[key]
    ksort = rec["dom"].sort().domain()
    n = rec.get("card")
    n = n if n is not None else fresh("card", I)
    order = fresh("order", z3.ArraySort(I, ksort))
    pos = fresh("pos", z3.ArraySort(ksort, I))
    i, k = z3.Const(fresh_name("i"), I), z3.Const(fresh_name("k"), ksort)
    ax = [n >= 0,
          FA([i], z3.Implies(z3.And(0 <= i, i < n), z3.And(z3.Select(rec["dom"], order[i]), pos[order[i]] == i)),
                    patterns=[order[i]]),
          FA([k], z3.Implies(z3.Select(rec["dom"], k), z3.And(0 <= pos[k], pos[k] < n, order[pos[k]] == k)),
                    patterns=[pos[k]])]

    st = st.assume(*ax).setghost(key, (order, pos, n))
    return st, order, pos, n


def any_all(eng, st, it, is_any):
    if isinstance(it, VGen):
        g = it
        b = fresh("any" if is_any else "all", z3.BoolSort())
        w = fresh("w", I)
        i = z3.Const(fresh_name("i"), I)
        n = g.seq.n

        def p(ix):
            t = eng.truth(st, g.elt_at(ix))
            return z3.BoolVal(t) if isinstance(t, bool) else t
        rng = lambda ix: z3.And(0 <= ix, ix < n, g.cond_at(ix))  # noqa
        if is_any:
            ax1 = FA([i], z3.Implies(z3.And(rng(i), p(i)), b))
            ax2 = z3.Implies(b, z3.And(rng(w), p(w)))
        else:
            ax1 = FA([i], z3.Implies(z3.And(b, rng(i)), p(i)))
            ax2 = z3.Implies(z3.Not(b), z3.And(rng(w), z3.Not(p(w))))
        return [("ok", st.assume(ax1, ax2), VBool(b))]
    seq = B.to_seq(eng, st, it)
    if seq is not None and seq.known_len is not None:
        ts = []
        for k in range(seq.known_len):
            t = eng.truth(st, seq.get(st, z3.IntVal(k)))
            ts.append(z3.BoolVal(t) if isinstance(t, bool) else t)
        r = (z3.Or(*ts) if is_any else z3.And(*ts)) if ts else z3.BoolVal(not is_any)
        return [("ok", st, VBool(r))]
    raise Unsupported("any/all over a symbolic non-generator")


def _setcomp_flat1(eng, node, st, fid):
    """{elt for x in xs for y in <1-tuple expression of x>}: the inner iterable is a tuple of arity ONE, so the flattening has exactly
    one element per outer element (VGenFlat with a single part); other arities stay unsupported"""
    g0, g1 = node.generators

    def mk(s, seq):
        box = {}
        i, cond, vals, extra = _element(eng, [node.elt], g0, s, fid, seq, inner=(g1, 0, box))
        if box.get("arity") != 1:
            raise Unsupported("two-generator set comprehension whose inner iterable is not a 1-tuple")
        s = _with_extras(s, seq, i, cond, extra)
        return set_of_gen(eng, s, VGen(seq, i, cond, vals[0]))
    return eng.bind(_source_seq(eng, st, fid, g0), mk)


def setcomp(eng, node, st, fid):
    if len(node.generators) == 2 and not any(g.is_async for g in node.generators):
        return _setcomp_flat1(eng, node, st, fid)
    gen = _single_gen(node)

    def mk(s, seq):
        i, cond, vals, extra = _element(eng, [node.elt], gen, s, fid, seq)
        s = _with_extras(s, seq, i, cond, extra)
        return set_of_gen(eng, s, VGen(seq, i, cond, vals[0]))
    return eng.bind(_source_seq(eng, st, fid, gen), mk)


def set_of_gen(eng, st, g):
    v0 = g.elt_at(g.idx)
    kkind = B.value_kind(v0)
    if kkind is None:
        raise Unsupported("set of non-scalar")
    ksort = sort_of(kkind)
    dom = fresh("setc", z3.ArraySort(ksort, z3.BoolSort()))
    wit = fresh("setc_wit", z3.ArraySort(ksort, I))
    i, k = z3.Const(fresh_name("i"), I), z3.Const(fresh_name("k"), ksort)
    n = g.seq.n
    rng = lambda ix: z3.And(0 <= ix, ix < n, g.cond_at(ix))  # noqa
    ax1 = FA([i], z3.Implies(rng(i), z3.Select(dom, unwrap(g.elt_at(i), kkind))))
    ax2 = FA([k], z3.Implies(z3.Select(dom, k), z3.And(rng(wit[k]), unwrap(g.elt_at(wit[k]), kkind) == k)),
                    patterns=[z3.Select(dom, k)])
    axs = [ax1, ax2]
    src = g.seq.src
    if g.seq.tag == "setiter" and isinstance(src, tuple) and len(src) >= 4 and src[0] == "order":
        # {x for x in <set> if cond(x)}: every element of the source set that satisfies the condition is in the result
        # (the same fact as ax1, triggered by membership in the SOURCE set instead of by an enumeration index)
        _, order, pos, sdom = src[:4]
        probe = z3.Const(fresh_name("cj"), I)
        try:
            same = z3.simplify(unwrap(g.elt_at(probe), kkind)).eq(z3.simplify(z3.Select(order, probe)))
        except Exception:  # noqa
            same = False
        if same:
            x = z3.Const(fresh_name("cx"), ksort)
            axs.append(FA([x], z3.Implies(z3.And(z3.Select(sdom, x), g.cond_at(pos[x])), z3.Select(dom, x)), patterns=[z3.Select(sdom, x)]))
    st, s = alloc_set(st.assume(*axs), kkind, dom=dom)
    return [("ok", st, s)]


def set_of_iterable(eng, st, it):
    if isinstance(it, VGen):
        return set_of_gen(eng, st, it)
    if isinstance(it, VObj) and it.kind == "set":
        rec = st.objs[it.oid]
        st2, out = alloc_set(st, rec["kkind"], dom=rec["dom"])
        return [("ok", st2, out)]
    seq = B.to_seq(eng, st, it)
    if seq is None:
        raise Unsupported("set() of this iterable")
    i = z3.Const(fresh_name("si"), I)
    return set_of_gen(eng, st, VGen(seq, i, None, seq.get(st, i)))


def _dictcomp_flat(eng, node, gen, s, fid, seq):
    """dict comprehension over a flattened sequence of tuples (itertools.chain(*pairs)): one characterisation per component,
    avoiding div/mod indexing.  dom[key] <=> some component of some tuple produces key; val[key] = the value produced by one of
    the producing elements (last-wins is not modelled: sound as a hypothesis, exact when equal keys produce equal values)."""
    inner_n, k, comp = seq.flat
    parts = []
    for c in range(k):
        sc = VSeq(inner_n, (lambda c: lambda st2, j: comp(st2, j, c))(c), tag="chain-comp")
        i, cond, vals, extra = _element(eng, [node.key, node.value], gen, s, fid, sc)
        s = _with_extras(s, sc, i, cond, extra)
        parts.append((i, cond, vals))
    kkind, vkind = B.value_kind(parts[0][2][0]), B.value_kind(parts[0][2][1])
    if kkind is None or vkind is None:
        raise Unsupported("dict comprehension with non-scalar entries")
    ks = sort_of(kkind)
    dom = fresh("dc_dom", z3.ArraySort(ks, z3.BoolSort()))
    val = fresh("dc_val", z3.ArraySort(ks, sort_of(vkind)))
    j, key = z3.Const(fresh_name("j"), I), z3.Const(fresh_name("k"), ks)
    axs, alts = [], []
    for c, (i, cond, vals) in enumerate(parts):
        kv, vv = vals
        cnd = (lambda cond, i: lambda ix: z3.substitute(cond, (i, ix)) if cond is not None else z3.BoolVal(True))(cond, i)
        kf = (lambda kv, i: lambda ix: unwrap(subst_value(kv, i, ix), kkind))(kv, i)
        vf = (lambda vv, i: lambda ix: unwrap(subst_value(vv, i, ix), vkind))(vv, i)
        axs.append(FA([j], z3.Implies(z3.And(0 <= j, j < inner_n, cnd(j)), z3.Select(dom, kf(j))), patterns=[kf(j)]))
        sel = fresh(f"dc_sel{c}", z3.ArraySort(ks, I))
        alts.append(z3.And(0 <= sel[key], sel[key] < inner_n, cnd(sel[key]), kf(sel[key]) == key, z3.Select(val, key) == vf(sel[key])))
    axs.append(FA([key], z3.Implies(z3.Select(dom, key), z3.Or(*alts)), patterns=[z3.Select(dom, key)]))
    s2, d = alloc_dict(s.assume(*axs), kkind, vkind, dom=dom, val=val)
    return [("ok", s2, d)]


def dict_from_gen(eng, st, g):
    """dict(<generator of (key, value) pairs>): last-wins map, the same characterisation as a dict comprehension"""
    i = g.idx
    e = g.elt
    if not (isinstance(e, VTuple) and len(e.items) == 2):
        raise Unsupported("dict() of a generator whose elements are not pairs")
    kv, vv = e.items
    kkind, vkind = B.value_kind(kv), B.value_kind(vv)
    if kkind is None or vkind is None:
        raise Unsupported("dict() of a generator with non-scalar entries")
    ks = sort_of(kkind)
    dom = fresh("dg_dom", z3.ArraySort(ks, z3.BoolSort()))
    val = fresh("dg_val", z3.ArraySort(ks, sort_of(vkind)))
    sel = fresh("dg_sel", z3.ArraySort(ks, I))
    n = g.seq.n
    kf = lambda ix: unwrap(subst_value(kv, i, ix), kkind)  # noqa
    vf = lambda ix: unwrap(subst_value(vv, i, ix), vkind)  # noqa
    j, k = z3.Const(fresh_name("j"), I), z3.Const(fresh_name("k"), ks)
    ax1 = FA([j], z3.Implies(z3.And(0 <= j, j < n, g.cond_at(j)), z3.And(z3.Select(dom, kf(j)), sel[kf(j)] >= j)),
             patterns=[kf(j)])
    ax2 = FA([k], z3.Implies(z3.Select(dom, k), z3.And(0 <= sel[k], sel[k] < n, g.cond_at(sel[k]), kf(sel[k]) == k,
                                                        z3.Select(val, k) == vf(sel[k]))),
             patterns=[z3.Select(dom, k)])
    s2, d = alloc_dict(st.assume(ax1, ax2), kkind, vkind, dom=dom, val=val)
    return [("ok", s2, d)]


def dictcomp(eng, node, st, fid):
    gen = _single_gen(node)

    def mk(s, seq):
        if getattr(seq, "flat", None) is not None:
            return _dictcomp_flat(eng, node, gen, s, fid, seq)
        i, cond, vals, extra = _element(eng, [node.key, node.value], gen, s, fid, seq)
        s = _with_extras(s, seq, i, cond, extra)
        kv, vv = vals
        kkind, vkind = B.value_kind(kv), B.value_kind(vv)
        if kkind is None or vkind is None:
            raise Unsupported("dict comprehension with non-scalar entries")
        ks = sort_of(kkind)
        dom = fresh("dc_dom", z3.ArraySort(ks, z3.BoolSort()))
        val = fresh("dc_val", z3.ArraySort(ks, sort_of(vkind)))
        sel = fresh("dc_sel", z3.ArraySort(ks, I))
        n = seq.n
        cnd = lambda ix: z3.substitute(cond, (i, ix)) if cond is not None else z3.BoolVal(True)  # noqa
        kf = lambda ix: unwrap(subst_value(kv, i, ix), kkind)  # noqa
        vf = lambda ix: unwrap(subst_value(vv, i, ix), vkind)  # noqa
        j, k = z3.Const(fresh_name("j"), I), z3.Const(fresh_name("k"), ks)
        # last-wins semantics: sel[key] is the largest index producing key
        ax1 = FA([j], z3.Implies(z3.And(0 <= j, j < n, cnd(j)), z3.And(z3.Select(dom, kf(j)), sel[kf(j)] >= j)),
                        patterns=[kf(j)])
        ax2 = FA([k], z3.Implies(z3.Select(dom, k),
                                        z3.And(0 <= sel[k], sel[k] < n, cnd(sel[k]), kf(sel[k]) == k,
                                               z3.Select(val, k) == vf(sel[k]))),
                        patterns=[z3.Select(dom, k)])
        s2, d = alloc_dict(s.assume(ax1, ax2), kkind, vkind, dom=dom, val=val)
        return [("ok", s2, d)]
    return eng.bind(_source_seq(eng, st, fid, gen), mk)
