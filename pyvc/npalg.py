"""Opaque numpy/pandas algebra: every array operation becomes an application of an uninterpreted function named after
the operation, so that control flow and data flow of numerical code can be verified ("the value returned is the one that
passed this guard") without giving the operations a meaning.  np.random.* yields fresh values.

Assumptions (listed in evidence): the operations are pure and deterministic functions of their arguments, arrays created in
a function are not aliased, attribute writes on opaque objects only affect later reads of that attribute.
"""
import ast
import z3
from .values import *  # noqa

NP = z3.DeclareSort("NP")
_funcs = {}


class VNp(Value):
    __slots__ = ("t",)

    def __init__(self, t):
        self.t = t

    def __repr__(self):
        return f"VNp({self.t})"


def _f(name, arity, rng=None):
    key = (name, arity, str(rng))
    if key not in _funcs:
        safe = "".join(c if c.isalnum() or c in "._" else "_" for c in name)
        _funcs[key] = z3.Function(f"np:{safe}/{arity}", *([NP] * arity + [rng or NP]))
    return _funcs[key]


of_int = z3.Function("np:of_int", z3.IntSort(), NP)
of_real = z3.Function("np:of_real", z3.RealSort(), NP)
of_kind = z3.Function("np:of_inf", z3.IntSort(), NP)
of_bool = z3.Function("np:of_bool", z3.BoolSort(), NP)
of_id = z3.Function("np:of_id", Id, NP)
of_ref = z3.Function("np:of_ref", Ref, NP)      # a heap object (an optlang Variable of a reaction) used inside an opaque expression
truthy = z3.Function("np:truthy", NP, z3.BoolSort())
np_len = z3.Function("np:len", NP, z3.IntSort())


def lift(v):
    if isinstance(v, VNp):
        return v.t
    if isinstance(v, VBool):
        return of_bool(v.t)
    if isinstance(v, VInt):
        return of_int(v.t)
    if isinstance(v, VReal):
        return z3.If(v.k == 0, of_real(v.v), of_kind(v.k))
    if isinstance(v, VNone):
        return z3.Const("np:None", NP)
    if isinstance(v, VStr):
        return of_id(v.t)
    if isinstance(v, VRef):
        return of_ref(v.t)
    if isinstance(v, VConc) and isinstance(v.py, str):
        return of_id(id_lit(v.py))
    if isinstance(v, VConc) and isinstance(v.py, tuple) and v.py[0] == "module":
        return z3.Const("np:module:" + v.py[1], NP)
    if isinstance(v, VTuple):
        return app("tuple", *v.items).t
    if isinstance(v, VSlice):
        return app("slice", v.lo, v.hi, v.step).t
    if isinstance(v, VOpaque):
        return z3.Const(fresh_name("np:opaque"), NP)
    if isinstance(v, VClass):
        return z3.Const("np:class:" + v.name, NP)           # dtype=float and the like
    raise Unsupported(f"cannot pass {v!r} to an opaque array operation")


def app(name, *args):
    ts = [lift(a) for a in args]
    return VNp(_f(name, len(ts))(*ts))


def term(name, *terms):
    """build the same term from raw NP terms (for specifications)"""
    return _f(name, len(terms))(*terms)


OPS = {ast.Add: "add", ast.Sub: "sub", ast.Mult: "mul", ast.Div: "div", ast.BitAnd: "and", ast.BitOr: "or", ast.MatMult: "matmul",
       ast.FloorDiv: "floordiv", ast.Mod: "mod", ast.Pow: "pow"}
CMP = {ast.Lt: "lt", ast.LtE: "le", ast.Gt: "gt", ast.GtE: "ge", ast.Eq: "eq", ast.NotEq: "ne"}


def _has_np(*vs):
    return any(isinstance(v, VNp) for v in vs)


def h_binop(eng, st, op, a, b):
    if _has_np(a, b) and type(op) in OPS:
        return [("ok", st, app(OPS[type(op)], a, b))]
    return None


def h_compare(eng, st, op, a, b):
    if _has_np(a, b) and type(op) in CMP:
        return [("ok", st, app(CMP[type(op)], a, b))]
    if _has_np(a, b) and isinstance(op, (ast.Is, ast.IsNot)):
        if isinstance(a, VNone) or isinstance(b, VNone):
            return [("ok", st, VBool(isinstance(op, ast.IsNot)))]   # an array/object is not None
    return None


def h_unary(eng, st, op, v):
    if isinstance(v, VNp):
        if isinstance(op, ast.USub):
            return [("ok", st, app("neg", v))]
        if isinstance(op, ast.Invert):
            return [("ok", st, app("invert", v))]
        if isinstance(op, ast.Not):
            return [("ok", st, VBool(z3.Not(truthy(v.t))))]
    return None


def h_truth(eng, st, v):
    if isinstance(v, VNp):
        return truthy(v.t)
    return None


def h_len(eng, st, v):
    if isinstance(v, VNp):
        return [("ok", st, VInt(np_len(v.t)))]
    return None


def h_getattr(eng, st, v, name):
    if isinstance(v, VNp):
        dirty = st.ghost.get("np_dirty", ())
        if (v.t.get_id(), name) in dirty:
            return [("ok", st, VNp(z3.Const(fresh_name("np:written." + name), NP)))]
        return [("ok", st, app("attr." + name, v))]
    if isinstance(v, VConc) and isinstance(v.py, tuple) and v.py[0] == "module" and v.py[1].split(".")[0] in ("numpy", "pandas"):
        return [("ok", st, VFunc("npfunc", v.py[1] + "." + name))]
    if isinstance(v, VFunc) and v.kind == "npfunc":
        return [("ok", st, VFunc("npfunc", v.a + "." + name))]
    return None


def h_setattr(eng, st, v, name, val):
    if isinstance(v, VNp):
        dirty = st.ghost.get("np_dirty", ())
        return [("ok", st.setghost("np_dirty", dirty + ((v.t.get_id(), name),)), NONE)]
    return None


NP_LISTS = {}


def _prep(eng, st, v):
    """python lists handed to numpy become opaque list terms"""
    if isinstance(v, VObj) and v.kind in ("list", "pylist"):
        from . import builtins as B
        seq = B.to_seq(eng, st, v)
        if seq is not None and seq.known_len is not None and seq.known_len <= 8:
            return app("list", *[_prep(eng, st, seq.get(st, z3.IntVal(i))) for i in range(seq.known_len)])
        return VNp(z3.Const(fresh_name("np:pylist"), NP))
    if isinstance(v, VObj) and v.kind == "tlist":
        # a list of tuples (parallel columns) handed to an opaque operation: an opaque constant; which list it stands for is kept in
        # the module-level table NP_LISTS (name of the constant -> (object, state)) for specifications that need the columns
        c = z3.Const(fresh_name("np:tlist"), NP)
        NP_LISTS[c.decl().name()] = (v, st)
        return VNp(c)
    if isinstance(v, VObj) and v.kind == "dict":
        rec = st.objs[v.oid]
        tracked = (not rec.get("pure") and not rec.get("lazy") and rec.get("pyitems") is not None and "pysig" in rec
                   and rec["dom"].eq(rec["pysig"][0]) and rec["val"].eq(rec["pysig"][1]))
        if (rec.get("pure") or tracked) and len(rec["pyitems"]) <= 8 and not any(isinstance(x, tuple) for _, x in rec["pyitems"]):
            flat = []
            for k, x in rec["pyitems"]:
                flat += [VConc(k) if isinstance(k, str) else VInt(k), _prep(eng, st, x)]
            return app("dict", *flat)
        return VNp(z3.Const(fresh_name("np:pydict"), NP))
    return v


def _kwapp(name, pos, kw, eng=None, st=None):
    if eng is not None:
        pos = [_prep(eng, st, p) for p in pos]
        kw = {k: _prep(eng, st, v) for k, v in kw.items()}
    if kw:
        name = name + "(" + ",".join(sorted(kw)) + ")"
    return app(name, *(list(pos) + [kw[k] for k in sorted(kw)]))


def h_call_object(eng, st, f, pos, kw):
    if isinstance(f, VNp):
        return [("ok", st, _kwapp("call", [f] + list(pos), kw, eng, st))]
    return None


def h_call_method(eng, st, recv, name, pos, kw):
    if isinstance(recv, VNp):
        return [("ok", st, _kwapp("call", [app("attr." + name, recv)] + list(pos), kw, eng, st))]
    return None


def h_getitem(eng, st, obj, idx):
    if isinstance(obj, VNp) or (isinstance(idx, VNp) and not isinstance(obj, VObj)):
        return [("ok", st, app("getitem", obj, _prep(eng, st, idx)))]
    return None


def call_npfunc(eng, st, f, pos, kw):
    if ".random." in f.a or f.a.startswith("numpy.random"):
        return [("ok", st, VNp(z3.Const(fresh_name("np:random"), NP)))]
    return [("ok", st, _kwapp(f.a, pos, kw, eng, st))]


def h_list_display(eng, st, vs):
    if any(isinstance(v, VNp) for v in vs):
        return [("ok", st, app("list", *vs))]
    return None


HOOKS = {"list_display": h_list_display, "binop": h_binop, "compare": h_compare, "unary": h_unary, "truth": h_truth, "len": h_len, "getattr": h_getattr,
         "setattr": h_setattr, "call_object": h_call_object, "call_method": h_call_method, "getitem": h_getitem}


class TNp(PTypeBase := object):
    def make(self, st, name):
        return st, VNp(z3.Const(name, NP))
