"""Contract objects, parameter types and the registry.

A contract is a list of *cases*; each case is `requires -> (returns | raises E) with ensures`.
`pre` is the data-structure invariant / domain predicate required at entry (asserted at call sites).
`modifies(E)` lists the locations a call may change (everything else is framed: proved unchanged on the body,
kept unchanged at call sites).  Spec callables receive an `Env` and return z3 Booleans.
"""
import z3
from .values import *  # noqa
from .state import State, alloc_list, alloc_dict, alloc_set, alloc_obj, new_fid


class Env:
    """What a spec expression can see."""

    def __init__(self, a, s0, s1=None, res=None, exc=None, eng=None, role="assume"):
        self.a, self.s0, self.s1, self.res, self.exc, self.eng = a, s0, s1, res, exc, eng
        self.role = role   # 'goal': the expression is being proved on the function body; 'assume': used at a call site
        self.exc_value = None   # when proving a raising exit: the exception object (VExc with its constructor arguments)

    def __getitem__(self, k):
        return self.a[k]


class Case:
    def __init__(self, name, requires=None, ensures=None, raises=None, known=None):
        self.name = name
        self.requires = requires or (lambda E: z3.BoolVal(True))
        self.ensures = ensures or (lambda E: z3.BoolVal(True))
        self.raises = raises  # None => normal return; else exception class name
        self.known = known


class LoopSpec:
    """Hand invariant for the n-th loop of a function (ordinal in source order).

    inv(E, L) -> Bool, with L.i (iterations done, Int term), L.n (sequence length), L.st (current state),
    L.seq (VSeq).  modifies(E) -> locations the loop body may change (havocked before the arbitrary iteration).
    """

    def __init__(self, inv, modifies=None, assigns=()):
        self.inv, self.modifies, self.assigns = inv, modifies, assigns


class Contract:
    def __init__(self, module, qual, prop, params, cases, pre=None, modifies=None, result=None, loops=None,
                 assumed=False, inline=False, key=None, replay=None, note="", frame_exempt=(), varargs=None,
                 kwdefaults=None, props=None, axioms=None, closure=None):
        self.module, self.qual, self.prop = module, qual, prop
        self.params = params          # list of (name, Type)
        self.cases = cases
        self.pre = pre or (lambda E: z3.BoolVal(True))
        self.modifies = modifies or (lambda E: [])
        self.result = result          # None | kind string | callable(eng, st, E) -> (st, Value)
        self.loops = loops or {}
        self.assumed = assumed        # True: trusted contract, body not verified (listed in trusted_base)
        self.inline = inline
        self.key = key or qual
        self.replay = replay
        self.note = note
        self.frame_exempt = frame_exempt
        self.props = props or [prop]
        self.axioms = axioms or (lambda E: [])   # definitional axioms of the spec functions used (assumed, never obliged)
        # free variables of a NESTED function under contract: list of (name, Type), created like parameters when the function is
        # verified, installed as variables of an enclosing scope and visible to the spec as E["name"] (frame: proved unchanged
        # unless listed in `modifies`); they are not arguments at call sites
        self.closure = closure or []

    @property
    def name(self):
        return f"{self.module}::{self.qual}"


class Registry:
    def __init__(self):
        self.contracts = {}
        self.order = []
        self.fields = {}        # heap field name -> kind
        self.classes = {}       # class name -> list of base names (for classes not found in source)
        self.modules = []       # repo-relative module paths whose classes are known
        self.inline = set()     # keys of functions that are inlined (transparent) rather than contracted

    def add(self, c):
        self.contracts[c.key] = c
        self.order.append(c)
        return c

    def get(self, key):
        return self.contracts.get(key)


# ---------------------------------------------------------------- parameter types
class PType:
    def make(self, st, name):
        raise NotImplementedError


class TInt(PType):
    def make(self, st, name):
        return st, VInt(z3.Int(name))


class TBool(PType):
    def make(self, st, name):
        return st, VBool(z3.Bool(name))


class TReal(PType):
    def make(self, st, name):
        k, v = z3.Int(name + "_k"), z3.Real(name + "_v")
        return st.assume(k >= -1, k <= 1), VReal(k, v)


class TStr(PType):
    def make(self, st, name):
        return st, VStr(z3.Const(name, Id))


class TRef(PType):
    def __init__(self, cls, nullable=False):
        self.cls, self.nullable = cls, nullable

    def make(self, st, name):
        t = z3.Const(name, Ref)
        if not self.nullable:
            st = st.assume(t != NULL)
        return st, VRef(t, self.cls)


class TNone(PType):
    def make(self, st, name):
        return st, NONE


class TConc(PType):
    def __init__(self, py):
        self.py = py

    def make(self, st, name):
        if isinstance(self.py, bool):
            return st, VBool(self.py)
        if isinstance(self.py, int):
            return st, VInt(self.py)
        if self.py is None:
            return st, NONE
        return st, VConc(self.py)


class TList(PType):
    def __init__(self, ekind, cls="list"):
        self.ekind, self.cls = ekind, cls

    def make(self, st, name):
        return alloc_list(st, self.ekind, base=name, cls=self.cls)


class TDictList(PType):
    """A cobra DictList of heap objects: list part + `_dict` index (Id -> Int)."""

    def __init__(self, elem_cls="Object"):
        self.elem_cls = elem_cls

    def make(self, st, name):
        st, d = alloc_dict(st, "id", "int", base=name + "_dict")
        st, l = alloc_list(st, "ref:" + self.elem_cls, base=name, cls="DictList", attrs={"attr:_dict": d})
        return st, l


class TDict(PType):
    def __init__(self, kkind, vkind):
        self.kkind, self.vkind = kkind, vkind

    def make(self, st, name):
        return alloc_dict(st, self.kkind, self.vkind, base=name)


class TSet(PType):
    def __init__(self, kkind):
        self.kkind = kkind

    def make(self, st, name):
        return alloc_set(st, self.kkind, base=name)


class TTuple(PType):
    def __init__(self, items):
        self.items = items

    def make(self, st, name):
        vals = []
        for i, t in enumerate(self.items):
            st, v = t.make(st, f"{name}_{i}")
            vals.append(v)
        return st, VTuple(vals)


class TObj(PType):
    """Materialised object with given attribute types."""

    def __init__(self, cls, attrs):
        self.cls, self.attrs = cls, attrs

    def make(self, st, name):
        a = {}
        for k, t in self.attrs.items():
            st, v = t.make(st, f"{name}_{k}")
            a["attr:" + k] = v
        return alloc_obj(st, self.cls, a)


class TCustom(PType):
    def __init__(self, fn):
        self.fn = fn

    def make(self, st, name):
        return self.fn(st, name)


def chain_hooks(*dicts):
    """merge hook tables: for a hook name defined several times the functions are tried in order until one answers"""
    names = {}
    for d in dicts:
        for k, f in (d or {}).items():
            names.setdefault(k, [])
            if f not in names[k]:
                names[k].append(f)

    def mk(fs):
        if len(fs) == 1:
            return fs[0]

        def h(*a, **kw):
            for f in fs:
                r = f(*a, **kw)
                if r is not None:
                    return r
            return None
        return h
    return {k: mk(fs) for k, fs in names.items()}
