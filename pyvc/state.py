"""Persistent symbolic state: path condition, frames, heap arrays, materialised objects."""
import itertools
import z3
from .values import *  # noqa

_oid = itertools.count(1)
_fid = itertools.count(1)


def new_oid():
    return next(_oid)


def new_fid():
    return next(_fid)


class State:
    __slots__ = ("pc", "frames", "heap", "objs", "ghost")

    def __init__(self, pc=(), frames=None, heap=None, objs=None, ghost=None):
        self.pc = pc
        self.frames = frames or {}
        self.heap = heap or {}
        self.objs = objs or {}
        self.ghost = ghost or {}

    # ---- functional updates
    def assume(self, *conds):
        cs = tuple(c for c in conds if not z3.is_true(c))
        if not cs:
            return self
        return State(self.pc + cs, self.frames, self.heap, self.objs, self.ghost)

    def with_frame(self, fid, parent, vars_):
        fr = dict(self.frames)
        fr[fid] = (parent, dict(vars_))
        return State(self.pc, fr, self.heap, self.objs, self.ghost)

    def setvar(self, fid, name, val):
        fr = dict(self.frames)
        parent, vars_ = fr[fid]
        vars_ = dict(vars_)
        vars_[name] = val
        fr[fid] = (parent, vars_)
        return State(self.pc, fr, self.heap, self.objs, self.ghost)

    def delvar(self, fid, name):
        fr = dict(self.frames)
        parent, vars_ = fr[fid]
        vars_ = dict(vars_)
        vars_.pop(name, None)
        fr[fid] = (parent, vars_)
        return State(self.pc, fr, self.heap, self.objs, self.ghost)

    def lookup(self, fid, name):
        f = fid
        while f is not None:
            parent, vars_ = self.frames[f]
            if name in vars_:
                return vars_[name]
            f = parent
        return None

    def owner_frame(self, fid, name):
        f = fid
        while f is not None:
            parent, vars_ = self.frames[f]
            if name in vars_:
                return f
            f = parent
        return None

    def setobj(self, oid, rec):
        o = dict(self.objs)
        o[oid] = rec
        return State(self.pc, self.frames, self.heap, o, self.ghost)

    def updobj(self, oid, **kw):
        rec = dict(self.objs[oid])
        rec.update(kw)
        return self.setobj(oid, rec)

    def setheap(self, field, arr):
        h = dict(self.heap)
        h[field] = arr
        return State(self.pc, self.frames, h, self.objs, self.ghost)

    def setghost(self, key, val):
        g = dict(self.ghost)
        g[key] = val
        return State(self.pc, self.frames, self.heap, self.objs, g)

    def rec(self, v):
        return self.objs[v.oid]


# ---------------------------------------------------------------- allocation of materialised containers
def alloc_list(st, ekind, base="L", length=None, elem=None, cls="list", attrs=None, nonneg=True):
    oid = new_oid()
    n = length if length is not None else fresh(base + "_len", z3.IntSort())
    e = elem if elem is not None else fresh(base + "_elem", z3.ArraySort(z3.IntSort(), sort_of(ekind)))
    rec = {"len": n, "elem": e, "ekind": ekind}
    if attrs:
        rec.update(attrs)
    st = st.setobj(oid, rec)
    if length is None and nonneg:
        st = st.assume(n >= 0)
    return st, VObj(oid, "list", cls)


def alloc_dict(st, kkind, vkind, base="D", dom=None, val=None, cls="dict"):
    oid = new_oid()
    d = dom if dom is not None else fresh(base + "_dom", z3.ArraySort(sort_of(kkind), z3.BoolSort()))
    v = val if val is not None else fresh(base + "_val", z3.ArraySort(sort_of(kkind), sort_of(vkind)))
    st = st.setobj(oid, {"dom": d, "val": v, "kkind": kkind, "vkind": vkind})
    return st, VObj(oid, "dict", cls)


def alloc_set(st, kkind, base="S", dom=None, cls="set"):
    oid = new_oid()
    d = dom if dom is not None else fresh(base + "_dom", z3.ArraySort(sort_of(kkind), z3.BoolSort()))
    st = st.setobj(oid, {"dom": d, "kkind": kkind})
    return st, VObj(oid, "set", cls)


def alloc_obj(st, cls, attrs=None):
    oid = new_oid()
    st = st.setobj(oid, dict(attrs or {}))
    return st, VObj(oid, "obj", cls)


def empty_array(ksort, vsort_val):
    return z3.K(ksort, vsort_val)
