"""CPython built-in semantics as axioms (the trusted base A3; cross-checked against CPython by selfcheck).

list  = (len : Int, elem : Int -> T);  dict = (dom : K -> Bool, val : K -> V);  set = K -> Bool.
Operations that rearrange a list introduce a fresh array constrained by pattern-guarded quantified axioms.
"""
import ast
import z3
from .values import *  # noqa
from .state import *  # noqa

I = z3.IntSort()


def _j(base="j"):
    return z3.Const(fresh_name(base), I)


def norm_index(i, n):
    return z3.If(i < 0, i + n, i)


def clamp_insert(i, n):
    return z3.If(i < 0, z3.If(i + n < 0, 0, i + n), z3.If(i > n, n, i))


def value_kind(v):
    if isinstance(v, VBool):
        return "bool"
    if isinstance(v, VInt):
        return "int"
    if isinstance(v, VStr):
        return "id"
    if isinstance(v, VConc) and isinstance(v.py, str):
        return "id"
    if isinstance(v, VRef):
        return "ref:" + v.cls
    if isinstance(v, VReal):
        return "real"
    if type(v).__name__ == "VNp":
        return "np"
    return None


# ---------------------------------------------------------------- construction
def list_from_values(eng, st, vs, ekind=None):
    if ekind is None:
        kinds = {value_kind(v) for v in vs}
        kinds = {k if not (k or "").startswith("ref:") else "ref" for k in kinds}
        if len(kinds) > 1 or None in kinds:
            # heterogeneous / non-scalar literal: keep it as a concrete tuple-backed list
            st, o = alloc_obj(st, "pylist", {"items": tuple(vs)})
            return ("ok", st, VObj(o.oid, "pylist", "list"))
        ekind = value_kind(vs[0]) if vs else "int"
    arr = z3.K(I, _default(ekind)) if True else None
    for i, v in enumerate(vs):
        arr = z3.Store(arr, i, unwrap(v, ekind))
    st, l = alloc_list(st, ekind, length=z3.IntVal(len(vs)), elem=arr)
    return ("ok", st, l)


def _default(kind):
    s = sort_of(kind)
    if kind == "int":
        return z3.IntVal(0)
    if kind == "bool":
        return z3.BoolVal(False)
    if kind == "id":
        return z3.Const("id_default", Id)
    if kind.startswith("ref"):
        return NULL
    if kind == "real":
        return z3.RealVal(0)
    if kind == "np":
        return z3.Const("np:default", s)
    raise Unsupported(kind)


def set_from_values(eng, st, vs, kkind=None):
    if kkind is None:
        kkind = value_kind(vs[0]) if vs else "id"
    dom = z3.K(sort_of(kkind), z3.BoolVal(False))
    for v in vs:
        dom = z3.Store(dom, unwrap(v, kkind), z3.BoolVal(True))
    st, s = alloc_set(st, kkind, dom=dom)
    return ("ok", st, s)


def _fits(v, kind):
    try:
        unwrap(v, kind)
        return True
    except Unsupported:
        return False


def dict_from_pairs(eng, st, pairs, kkind=None, vkind=None):
    if not pairs and kkind is None:
        # untyped empty dict: typed lazily at the first store
        st, d = alloc_obj(st, "dict", {"lazy": True})
        return ("ok", st, VObj(d.oid, "dict", "dict"))
    kkind = kkind or value_kind(pairs[0][0])
    vkind = vkind or value_kind(pairs[0][1])
    if (kkind is None or vkind is None) and all(isinstance(k, VConc) for k, _ in pairs):
        st, d = alloc_obj(st, "dict", {"pure": True, "pyitems": tuple((k.py, v) for k, v in pairs)})     # a record (literal keys)
        return ("ok", st, VObj(d.oid, "dict", "dict"))
    if kkind is None or vkind is None:
        raise Unsupported("dict display with non-scalar entries")
    if all(isinstance(k, VConc) for k, _ in pairs) and not all(_fits(v, vkind) for _, v in pairs):
        # literal keys, values of different kinds (e.g. a table of keyword arguments): a record, as above
        st, d = alloc_obj(st, "dict", {"pure": True, "pyitems": tuple((k.py, v) for k, v in pairs)})
        return ("ok", st, VObj(d.oid, "dict", "dict"))
    dom = z3.K(sort_of(kkind), z3.BoolVal(False))
    val = z3.K(sort_of(kkind), _default(vkind))
    for k, v in pairs:
        dom = z3.Store(dom, unwrap(k, kkind), z3.BoolVal(True))
        val = z3.Store(val, unwrap(k, kkind), unwrap(v, vkind))
    st, d = alloc_dict(st, kkind, vkind, dom=dom, val=val)
    if all(isinstance(k, VConc) for k, _ in pairs):
        # a display with literal keys is also tracked as a record (see dict_setitem): opaque operations can then see its content
        items = ()
        for k, v in pairs:
            items = _py_store(items, k.py, v)
        st = st.updobj(d.oid, pyitems=items, pysig=(dom, val))
    return ("ok", st, d)


def _materialise_lazy_dict(st, d, k, v):
    rec = st.objs[d.oid]
    if rec.get("lazy"):
        kkind, vkind = value_kind(k), value_kind(v)
        if kkind is None or vkind is None:
            if isinstance(k, VConc):
                return st.setobj(d.oid, {"pure": True, "pyitems": ()})     # record with literal keys, any values
            raise Unsupported("lazy dict with non-scalar entry")
        dom0, val0 = z3.K(sort_of(kkind), z3.BoolVal(False)), z3.K(sort_of(kkind), _default(vkind))
        st = st.setobj(d.oid, {"dom": dom0, "val": val0, "kkind": kkind, "vkind": vkind,
                               "pyitems": (), "pysig": (dom0, val0)})   # literal-key stores are also tracked: see dict_setitem
    return st


def to_record(st, d):
    """view a dict as a record (literal keys, any values): possible when it is one already, is still empty, or has only ever been
    stored into with literal keys"""
    rec = st.objs[d.oid]
    if rec.get("pure"):
        return st
    if rec.get("lazy"):
        return st.setobj(d.oid, {"pure": True, "pyitems": ()})
    tracked = rec.get("pyitems")
    if tracked is not None and rec["dom"].eq(rec["pysig"][0]) and rec["val"].eq(rec["pysig"][1]):
        return st.setobj(d.oid, {"pure": True, "pyitems": tracked})
    raise Unsupported("dict cannot be viewed as a record (symbolic keys)")


def _py_store(items, key, val):
    out, hit = [], False
    for k, v in items:
        if k == key:
            out.append((k, val))
            hit = True
        else:
            out.append((k, v))
    if not hit:
        out.append((key, val))
    return tuple(out)


def _py_lookup(items, key):
    for k, v in items:
        if k == key:
            return v
    return None


# ---------------------------------------------------------------- sequences
def to_seq(eng, st, v):
    """Iterable value -> VSeq (or None if v is an unordered collection handled elsewhere)."""
    if isinstance(v, VSeq):
        return v
    if isinstance(v, VTuple):
        items = v.items
        return VSeq(z3.IntVal(len(items)), lambda s, i, items=items: items[_conc_index(i)], known_len=len(items), tag="tuple")
    if isinstance(v, VObj) and v.kind == "pylist":
        items = st.objs[v.oid]["items"]
        return VSeq(z3.IntVal(len(items)), lambda s, i, items=items: items[_conc_index(i)], known_len=len(items), tag="pylist")
    if isinstance(v, VObj) and v.kind == "obj" and st.objs[v.oid].get("tuple_fields"):
        # a namedtuple-like record (e.g. the Components of add_absolute_expression): iterates over its fields in declaration order
        items = tuple(st.objs[v.oid]["attr:" + f] for f in st.objs[v.oid]["tuple_fields"])
        return VSeq(z3.IntVal(len(items)), lambda s, i, items=items: items[_conc_index(i)], known_len=len(items), tag="tuple")
    if isinstance(v, VObj) and v.kind == "tlist":
        def tget(s, i, v=v):
            r = s.objs[v.oid]
            return VTuple([wrap(z3.Select(c, i), k) for c, k in zip(r["cols"], r["kinds"])])
        return VSeq(st.objs[v.oid]["len"], tget, tag="tlist", src=v)
    if isinstance(v, VObj) and v.kind == "list" and st.objs[v.oid].get("items") is not None:
        # a list display that received non-scalar elements (tuples, containers) by append: concrete items, see list_append
        return VSeq(z3.IntVal(len(st.objs[v.oid]["items"])), lambda s, i, v=v: s.objs[v.oid]["items"][_conc_index(i)],
                    known_len=len(st.objs[v.oid]["items"]), tag="pylist")
    if isinstance(v, VObj) and v.kind == "list":
        rec = st.objs[v.oid]
        n = rec["len"]
        kl = n.as_long() if z3.is_int_value(z3.simplify(n)) else None
        if kl is not None:
            n = z3.simplify(n)

        def get(s, i, v=v):
            r = s.objs[v.oid]
            return wrap(z3.Select(r["elem"], i), r["ekind"])
        return VSeq(n, get, known_len=kl, tag="list", src=v)
    return None


def _conc_index(i):
    if isinstance(i, int):
        return i
    i = z3.simplify(i)
    if z3.is_int_value(i):
        return i.as_long()
    raise Unsupported("symbolic index into a concrete tuple")


# ---------------------------------------------------------------- subscripts
def getitem(eng, st, obj, idx):
    h = eng.hooks.get("getitem")
    if h:
        r = h(eng, st, obj, idx)
        if r is not None:
            return r
    if isinstance(obj, VTuple):
        if isinstance(idx, VInt):
            return [("ok", st, obj.items[_conc_index(idx.t)])]
        if isinstance(idx, VSlice):
            def c(x):
                return None if isinstance(x, VNone) else _conc_index(x.t)
            return [("ok", st, VTuple(list(obj.items)[slice(c(idx.lo), c(idx.hi), c(idx.step))]))]
        raise Unsupported("tuple slicing")
    if isinstance(obj, VObj) and obj.kind == "pylist" and isinstance(idx, VInt):
        return [("ok", st, st.objs[obj.oid]["items"][_conc_index(idx.t)])]
    if isinstance(obj, VObj) and obj.kind == "pylist" and isinstance(idx, VSlice):
        # lists[1:] of a list display of concrete length (heterogeneous / non-scalar entries): a new list display
        def c(x):
            return None if isinstance(x, VNone) else _conc_index(x.t)
        return [list_from_values(eng, st, list(st.objs[obj.oid]["items"])[slice(c(idx.lo), c(idx.hi), c(idx.step))])]
    if isinstance(obj, VObj) and obj.cls not in ("list", "dict", "set"):
        return eng.call_method(st, obj, "__getitem__", [idx], {})
    if isinstance(obj, VRef):
        return eng.call_method(st, obj, "__getitem__", [idx], {})
    if isinstance(obj, VObj) and obj.kind == "list":
        return list_getitem(eng, st, obj, idx)
    if isinstance(obj, VObj) and obj.kind == "dict":
        return dict_getitem(eng, st, obj, idx)
    if isinstance(obj, VConc) and isinstance(obj.py, str) and isinstance(idx, VSlice):
        def c(x):
            return None if isinstance(x, VNone) else _conc_index(x.t)
        return [("ok", st, VConc(obj.py[slice(c(idx.lo), c(idx.hi), c(idx.step))]))]
    if isinstance(obj, VConc) and isinstance(obj.py, dict) and isinstance(idx, VConc):
        # constant dictionary, literal key
        return [("ok", st, obj.py[idx.py])] if idx.py in obj.py else [eng.raise_(st, "KeyError")]
    raise Unsupported(f"subscript of {obj!r}")


def setitem(eng, st, obj, idx, val):
    h = eng.hooks.get("setitem")
    if h:
        r = h(eng, st, obj, idx, val)
        if r is not None:
            return r
    if isinstance(obj, (VObj, VRef)) and obj.cls not in ("list", "dict", "set"):
        return eng.call_method(st, obj, "__setitem__", [idx, val], {})
    if isinstance(obj, VObj) and obj.kind == "list":
        return list_setitem(eng, st, obj, idx, val)
    if isinstance(obj, VObj) and obj.kind == "dict":
        return dict_setitem(eng, st, obj, idx, val)
    if isinstance(obj, VObj) and obj.kind == "pylist" and isinstance(idx, VInt):
        # lists[0] = x on a list display of concrete length: the entry is replaced (concrete index; IndexError when out of range)
        items = list(st.objs[obj.oid]["items"])
        k = _conc_index(idx.t)
        if not -len(items) <= k < len(items):
            return [eng.raise_(st, "IndexError")]
        items[k] = val
        return [("ok", st.updobj(obj.oid, items=tuple(items)), NONE)]
    raise Unsupported(f"item assignment on {obj!r}")


def delitem(eng, st, obj, idx):
    if isinstance(obj, (VObj, VRef)) and obj.cls not in ("list", "dict", "set"):
        return eng.call_method(st, obj, "__delitem__", [idx], {})
    if isinstance(obj, VObj) and obj.kind == "list":
        return list_delitem(eng, st, obj, idx)
    if isinstance(obj, VObj) and obj.kind == "dict":
        return eng.bind(dict_pop(eng, st, obj, idx, None), lambda s, v: [("ok", s, NONE)])
    raise Unsupported(f"del item on {obj!r}")


def contains(eng, st, cont, item):
    h = eng.hooks.get("contains")
    if h:
        r = h(eng, st, cont, item)
        if r is not None:
            return r
    if isinstance(cont, VObj) and cont.cls not in ("list", "dict", "set") or isinstance(cont, VRef):
        return eng.bind(eng.call_method(st, cont, "__contains__", [item], {}),
                        lambda s, v: [("ok", s, VBool(eng.truth(s, v)))])
    if isinstance(cont, VObj) and cont.kind in ("dict", "set"):
        rec = st.objs[cont.oid]
        if rec.get("lazy"):
            return [("ok", st, VBool(False))]
        if rec.get("pure"):
            if not isinstance(item, VConc):
                raise Unsupported("record dict with a symbolic key")
            v = _py_lookup(rec["pyitems"], item.py)
            if isinstance(v, VOpaque) and v.what == "maybe-entry":
                raise Unsupported("membership of a record entry whose presence is unknown")
            if isinstance(v, tuple):
                return [("ok", st, VBool(v[1]))]
            return [("ok", st, VBool(v is not None))]
        try:
            k = unwrap(item, rec["kkind"])
        except Unsupported:
            return [("ok", st, VBool(False))] if value_kind(item) not in (None, rec["kkind"]) else _raise_unsupported(item)
        return [("ok", st, VBool(z3.Select(rec["dom"], k)))]
    if isinstance(cont, VObj) and cont.kind == "list":
        rec = st.objs[cont.oid]
        x = unwrap(item, rec["ekind"])
        j = _j()
        b = fresh("member", z3.BoolSort())
        w = fresh("witness", I)
        n, e = rec["len"], rec["elem"]
        ax1 = FA([j], z3.Implies(z3.And(0 <= j, j < n, z3.Select(e, j) == x), b), patterns=[z3.Select(e, j)])
        ax2 = z3.Implies(b, z3.And(0 <= w, w < n, z3.Select(e, w) == x))
        return [("ok", st.assume(ax1, ax2), VBool(b))]
    if isinstance(cont, VTuple):
        cs = [eng.eq(st, item, x) for x in cont.items]
        if any(c is True for c in cs):
            return [("ok", st, VBool(True))]
        cs = [c for c in cs if c is not False]
        return [("ok", st, VBool(z3.Or(*cs) if cs else False))]
    raise Unsupported(f"`in` on {cont!r}")


def _raise_unsupported(x):
    raise Unsupported(f"membership of {x!r}")


def unpack(eng, st, val, n):
    if isinstance(val, VTuple):
        if len(val.items) != n:
            raise Unsupported("unpack length mismatch")
        return list(val.items)
    seq = to_seq(eng, st, val)
    if seq is not None and seq.known_len == n:
        return [seq.get(st, z3.IntVal(i)) for i in range(n)]
    raise Unsupported(f"unpack of {val!r}")


# ---------------------------------------------------------------- list operations
def list_getitem(eng, st, l, idx):
    rec = st.objs[l.oid]
    n, e = rec["len"], rec["elem"]
    if isinstance(idx, VSlice):
        return list_slice(eng, st, l, idx)
    if not isinstance(idx, (VInt, VBool)):
        raise Unsupported(f"list index {idx!r}")
    i = unwrap(idx, "int")
    res = []
    for ok, s in eng.branch(st, z3.And(-n <= i, i < n)):
        if ok:
            res.append(("ok", s, wrap(z3.Select(e, norm_index(i, n)), rec["ekind"])))
        else:
            res.append(eng.raise_(s, "IndexError"))
    return res


def slice_bounds(eng, st, sl, n):
    """Python's slice.indices for step None/1 -> (lo, hi) with 0<=lo, hi<=n (hi may be < lo)."""
    if not isinstance(sl.step, VNone):
        if not (isinstance(sl.step, VInt) and z3.is_int_value(z3.simplify(sl.step.t)) and z3.simplify(sl.step.t).as_long() == 1):
            raise Unsupported("extended slice")

    def cl(v, dflt):
        if isinstance(v, VNone):
            return dflt
        if not isinstance(v, VInt):
            raise Unsupported("slice bound")
        x = v.t
        return z3.If(x < 0, z3.If(x + n < 0, 0, x + n), z3.If(x > n, n, x))
    return cl(sl.lo, z3.IntVal(0)), cl(sl.hi, n)


def list_slice(eng, st, l, sl, cls="list"):
    rec = st.objs[l.oid]
    n, e = rec["len"], rec["elem"]
    lo, hi = slice_bounds(eng, st, sl, n)
    m = z3.If(hi > lo, hi - lo, 0)
    e2 = fresh("slice_elem", e.sort())
    j = _j()
    ax = FA([j], z3.Implies(z3.And(0 <= j, j < m), z3.Select(e2, j) == z3.Select(e, lo + j)),
                   patterns=[z3.Select(e2, j)])
    st, out = alloc_list(st.assume(ax), rec["ekind"], length=m, elem=e2)
    return [("ok", st, out)]


def list_setitem(eng, st, l, idx, val):
    rec = st.objs[l.oid]
    n, e = rec["len"], rec["elem"]
    if isinstance(idx, VSlice):
        raise Unsupported("list slice assignment")
    i = unwrap(idx, "int")
    res = []
    for ok, s in eng.branch(st, z3.And(-n <= i, i < n)):
        if ok:
            res.append(("ok", s.updobj(l.oid, elem=z3.Store(e, norm_index(i, n), unwrap(val, rec["ekind"]))), NONE))
        else:
            res.append(eng.raise_(s, "IndexError"))
    return res


def _shift_down(st, l, p):
    """remove position p (0<=p<len) -> new state"""
    rec = st.objs[l.oid]
    n, e = rec["len"], rec["elem"]
    e2 = fresh("del_elem", e.sort())
    j = _j()
    ax1 = FA([j], z3.Implies(z3.And(0 <= j, j < p), z3.Select(e2, j) == z3.Select(e, j)), patterns=[z3.Select(e2, j)])
    ax2 = FA([j], z3.Implies(z3.And(p <= j, j < n - 1), z3.Select(e2, j) == z3.Select(e, j + 1)), patterns=[z3.Select(e2, j)])
    return st.assume(ax1, ax2).updobj(l.oid, len=n - 1, elem=e2)


def list_delitem(eng, st, l, idx):
    rec = st.objs[l.oid]
    n, e = rec["len"], rec["elem"]
    if isinstance(idx, VSlice):
        lo, hi = slice_bounds(eng, st, idx, n)
        cnt = z3.If(hi > lo, hi - lo, 0)
        e2 = fresh("dels_elem", e.sort())
        j = _j()
        ax1 = FA([j], z3.Implies(z3.And(0 <= j, j < lo), z3.Select(e2, j) == z3.Select(e, j)), patterns=[z3.Select(e2, j)])
        ax2 = FA([j], z3.Implies(z3.And(lo <= j, j < n - cnt), z3.Select(e2, j) == z3.Select(e, j + cnt)), patterns=[z3.Select(e2, j)])
        return [("ok", st.assume(ax1, ax2).updobj(l.oid, len=n - cnt, elem=e2), NONE)]
    i = unwrap(idx, "int")
    res = []
    for ok, s in eng.branch(st, z3.And(-n <= i, i < n)):
        if ok:
            res.append(("ok", _shift_down(s, l, norm_index(i, n)), NONE))
        else:
            res.append(eng.raise_(s, "IndexError"))
    return res


def list_pop(eng, st, l, pos):
    rec = st.objs[l.oid]
    n, e = rec["len"], rec["elem"]
    if len(pos) == 0:
        i = z3.IntVal(-1)
    else:
        i = unwrap(pos[0], "int")
    res = []
    for ok, s in eng.branch(st, z3.And(-n <= i, i < n)):
        if ok:
            p = norm_index(i, n)
            v = wrap(z3.Select(e, p), rec["ekind"])
            res.append(("ok", _shift_down(s, l, p), v))
        else:
            res.append(eng.raise_(s, "IndexError"))
    return res


def list_insert(eng, st, l, idx, val):
    rec = st.objs[l.oid]
    n, e = rec["len"], rec["elem"]
    i = unwrap(idx, "int")
    p = clamp_insert(i, n)
    x = unwrap(val, rec["ekind"])
    e2 = fresh("ins_elem", e.sort())
    j = _j()
    ax1 = FA([j], z3.Implies(z3.And(0 <= j, j < p), z3.Select(e2, j) == z3.Select(e, j)), patterns=[z3.Select(e2, j)])
    ax2 = FA([j], z3.Implies(z3.And(p < j, j <= n), z3.Select(e2, j) == z3.Select(e, j - 1)), patterns=[z3.Select(e2, j)])
    ax3 = z3.Select(e2, p) == x
    return [("ok", st.assume(ax1, ax2, ax3).updobj(l.oid, len=n + 1, elem=e2), NONE)]


def list_append(eng, st, l, val):
    rec = st.objs[l.oid]
    n, e = rec["len"], rec["elem"]
    vk = value_kind(val)
    if vk is None and isinstance(val, (VTuple, VObj)) and (rec.get("items") is not None or (
            z3.is_int_value(z3.simplify(n)) and z3.simplify(n).as_long() == 0)):
        # an (up to now empty) list display receives a NON-SCALAR element (a tuple, a container): from now on the list is kept as
        # the concrete sequence of its items (`items`, like a heterogeneous literal); `len` stays the concrete length, so that
        # truthiness and len() need nothing new; reading `elem` of such a list is not possible (ekind 'items')
        items = tuple(rec.get("items") or ()) + (val,)
        return [("ok", st.updobj(l.oid, items=items, len=z3.IntVal(len(items)), ekind="items"), NONE)]
    if rec.get("items") is not None:
        raise Unsupported("scalar appended to a list of non-scalar items")
    if vk is not None and sort_of(vk) != e.sort().range() and z3.is_int_value(z3.simplify(n)) and z3.simplify(n).as_long() == 0:
        # an empty list literal takes its element kind from the first element
        st = st.updobj(l.oid, ekind=vk, elem=z3.K(I, _default(vk)))
        rec = st.objs[l.oid]
        n, e = rec["len"], rec["elem"]
    return [("ok", st.updobj(l.oid, len=n + 1, elem=z3.Store(e, n, unwrap(val, rec["ekind"]))), NONE)]


def list_extend(eng, st, l, it):
    from . import comprehension as C
    seq = to_seq(eng, st, it)
    if seq is None:
        seq_outs = C.iterable_to_seq(eng, st, it)
    else:
        seq_outs = [("ok", st, seq)]

    def go(s, seq):
        rec = s.objs[l.oid]
        n, e = rec["len"], rec["elem"]
        if seq.known_len and z3.is_int_value(z3.simplify(n)) and z3.simplify(n).as_long() == 0:
            # an empty list literal takes its element kind from the first element (as list_append does)
            vk = value_kind(seq.get(s, z3.IntVal(0)))
            if vk is not None and sort_of(vk) != e.sort().range():
                s = s.updobj(l.oid, ekind=vk, elem=z3.K(I, _default(vk)))
                rec = s.objs[l.oid]
                n, e = rec["len"], rec["elem"]
        if seq.known_len is not None and seq.known_len <= 4:
            e2 = e
            for k in range(seq.known_len):
                e2 = z3.Store(e2, n + k, unwrap(seq.get(s, z3.IntVal(k)), rec["ekind"]))
            return [("ok", s.updobj(l.oid, len=n + seq.known_len, elem=e2), NONE)]
        m = seq.n
        e2 = fresh("ext_elem", e.sort())
        j = _j()
        ax1 = FA([j], z3.Implies(z3.And(0 <= j, j < n), z3.Select(e2, j) == z3.Select(e, j)), patterns=[z3.Select(e2, j)])
        src = unwrap(seq.get(s, j - n), rec["ekind"])
        ax2 = FA([j], z3.Implies(z3.And(n <= j, j < n + m), z3.Select(e2, j) == src), patterns=[z3.Select(e2, j)])
        axs = [ax1, ax2, m >= 0]
        if seq.tag == "setiter" and isinstance(seq.src, tuple) and len(seq.src) >= 4 and seq.src[0] == "order":
            # a list built by iterating a set / the keys of a dict contains every element: say where each one landed
            _, order, pos, sdom = seq.src[:4]
            x = z3.Const(fresh_name("cx"), order.sort().range())
            at = pos[x] if z3.is_int_value(n) and n.as_long() == 0 else n + pos[x]
            axs.append(FA([x], z3.Implies(z3.Select(sdom, x), z3.And(0 <= pos[x], pos[x] < m, z3.Select(e2, at) == x)),
                          patterns=[z3.Select(sdom, x)]))
        if seq.tag == "filter" and getattr(seq, "flt", None) is not None and isinstance(seq.src, tuple) and len(seq.src) >= 4 \
                and seq.src[0] == "order":
            # [x for x in <set> if cond(x)]: every element of the set that satisfies the condition is in the list, and where
            _, order, pos, sdom = seq.src[:4]
            fsrc, fdst, g = seq.flt
            probe = z3.Const(fresh_name("cj"), I)
            try:
                same = z3.simplify(unwrap(g.elt_at(probe), rec["ekind"])).eq(z3.simplify(z3.Select(order, probe)))
            except Exception:  # noqa
                same = False
            if same:
                x = z3.Const(fresh_name("cx"), order.sort().range())
                w = fdst[pos[x]]
                at = w if z3.is_int_value(n) and n.as_long() == 0 else n + w
                axs.append(FA([x], z3.Implies(z3.And(z3.Select(sdom, x), g.cond_at(pos[x])),
                                              z3.And(0 <= w, w < m, z3.Select(e2, at) == x)), patterns=[z3.Select(sdom, x)]))
        return [("ok", s.assume(*axs).updobj(l.oid, len=n + m, elem=e2), NONE)]
    return eng.bind(seq_outs, go)


def list_concat(eng, st, a, b):
    ra = st.objs[a.oid]
    st, out = alloc_list(st, ra["ekind"], length=ra["len"], elem=ra["elem"])
    outs = list_extend(eng, st, out, b)
    k, s, _ = outs[0]
    return (k, s, out)


def list_reverse(eng, st, l):
    rec = st.objs[l.oid]
    n, e = rec["len"], rec["elem"]
    e2 = fresh("rev_elem", e.sort())
    j = _j()
    ax = FA([j], z3.Implies(z3.And(0 <= j, j < n), z3.Select(e2, j) == z3.Select(e, n - 1 - j)), patterns=[z3.Select(e2, j)])
    return [("ok", st.assume(ax).updobj(l.oid, elem=e2), NONE)]


def list_sort(eng, st, l, kw):
    """Permutation semantics (order by key not modelled: Id has no order). Ghost bijection perm/inv."""
    rec = st.objs[l.oid]
    n, e = rec["len"], rec["elem"]
    e2 = fresh("sort_elem", e.sort())
    perm = fresh("perm", z3.ArraySort(I, I))
    inv = fresh("perminv", z3.ArraySort(I, I))
    j = _j()
    ax1 = FA([j], z3.Implies(z3.And(0 <= j, j < n),
                                    z3.And(0 <= perm[j], perm[j] < n, inv[perm[j]] == j, z3.Select(e2, j) == z3.Select(e, perm[j]))),
                    patterns=[z3.Select(e2, j), perm[j]])
    ax2 = FA([j], z3.Implies(z3.And(0 <= j, j < n), z3.And(0 <= inv[j], inv[j] < n, perm[inv[j]] == j)),
                    patterns=[inv[j]])
    # the same fact, triggered by an element of the list BEFORE sorting: where did it go
    ax3 = FA([j], z3.Implies(z3.And(0 <= j, j < n), z3.And(0 <= inv[j], inv[j] < n, perm[inv[j]] == j,
                                                            z3.Select(e2, inv[j]) == z3.Select(e, j))),
             patterns=[z3.Select(e, j)])
    st = st.assume(ax1, ax2, ax3).updobj(l.oid, elem=e2)
    st = st.setghost(("perm", l.oid), (perm, inv))
    return [("ok", st, NONE)]


# ---------------------------------------------------------------- dict operations
def dict_getitem(eng, st, d, key):
    rec = st.objs[d.oid]
    if rec.get("lazy"):
        return [eng.raise_(st, "KeyError")]
    if rec.get("pure"):
        if not isinstance(key, VConc):
            raise Unsupported("record dict with a symbolic key")
        v = _py_lookup(rec["pyitems"], key.py)
        if isinstance(v, VOpaque) and v.what == "maybe-entry":
            raise Unsupported("read of a record entry whose presence is unknown")
        if isinstance(v, tuple):          # ("maybe", cond, value): present exactly when cond holds
            res = []
            for ok, s2 in eng.branch(st, v[1]):
                res.append(("ok", s2, v[2]) if ok else eng.raise_(s2, "KeyError"))
            return res
        return [("ok", st, v)] if v is not None else [eng.raise_(st, "KeyError")]
    k = unwrap(key, rec["kkind"])
    res = []
    for ok, s in eng.branch(st, z3.Select(rec["dom"], k)):
        if ok:
            res.append(("ok", s, _dict_val(rec, k)))
        else:
            res.append(eng.raise_(s, "KeyError"))
    return res


def _dict_val(rec, k):
    if rec["vkind"] == "optint":
        raise Unsupported("optint read")
    return wrap(z3.Select(rec["val"], k), rec["vkind"])


def dict_setitem(eng, st, d, key, val):
    """typed map (dom/val arrays); a dict that has only ever been stored into with LITERAL keys is also tracked as a record
    (`pyitems`) and becomes a pure record - heterogeneous values allowed, literal keys only - at the first store whose value
    does not fit the value kind (e.g. the dictionaries built by cobra.io.dict)"""
    st = _materialise_lazy_dict(st, d, key, val)
    rec = st.objs[d.oid]
    if rec.get("pure"):
        if not isinstance(key, VConc):
            raise Unsupported("record dict with a symbolic key")
        return [("ok", st.updobj(d.oid, pyitems=_py_store(rec["pyitems"], key.py, val)), NONE)]
    tracked = rec.get("pyitems")
    if tracked is not None and not (rec["dom"].eq(rec["pysig"][0]) and rec["val"].eq(rec["pysig"][1])):
        tracked = None                      # the map was changed by something else than literal-key stores
    if tracked is not None and isinstance(key, VConc):
        try:
            unwrap(val, rec["vkind"])
            fits = True
        except Unsupported:
            fits = False
        if not fits:
            return [("ok", st.setobj(d.oid, {"pure": True, "pyitems": _py_store(tracked, key.py, val)}), NONE)]
    k = unwrap(key, rec["kkind"])
    upd = {"dom": z3.Store(rec["dom"], k, z3.BoolVal(True)), "val": z3.Store(rec["val"], k, unwrap(val, rec["vkind"]))}
    if "card" in rec:
        upd["card"] = z3.If(z3.Select(rec["dom"], k), rec["card"], rec["card"] + 1)
    if tracked is not None and isinstance(key, VConc):
        upd["pyitems"], upd["pysig"] = _py_store(tracked, key.py, val), (upd["dom"], upd["val"])
    elif "pyitems" in rec:
        upd["pyitems"] = None
    return [("ok", st.updobj(d.oid, **upd), NONE)]


def dict_pop(eng, st, d, key, default):
    rec = st.objs[d.oid]
    k = unwrap(key, rec["kkind"])
    res = []
    for ok, s in eng.branch(st, z3.Select(rec["dom"], k)):
        if ok:
            upd = {"dom": z3.Store(rec["dom"], k, z3.BoolVal(False))}
            if "card" in rec:
                upd["card"] = rec["card"] - 1
            res.append(("ok", s.updobj(d.oid, **upd), _dict_val(rec, k)))
        elif default is not None:
            res.append(("ok", s, default))
        else:
            res.append(eng.raise_(s, "KeyError"))
    return res


def dict_get(eng, st, d, key, default):
    rec = st.objs[d.oid]
    if rec.get("lazy"):
        return [("ok", st, default)]
    if isinstance(key, VNone) and not rec["kkind"].startswith("ref"):
        return [("ok", st, default)]
    k = unwrap(key, rec["kkind"])
    res = []
    for ok, s in eng.branch(st, z3.Select(rec["dom"], k)):
        res.append(("ok", s, _dict_val(rec, k) if ok else default))
    return res


def tlist_from_seq(eng, st, seq, base_len=None, base_cols=None, kinds=None):
    """list of fixed-arity tuples of scalars as parallel arrays: result = base ++ seq"""
    probe = seq.get(st, z3.Const(fresh_name("ti"), I))
    if not (isinstance(probe, VTuple) and all(value_kind(x) for x in probe.items)):
        raise Unsupported("list of non-scalar tuples")
    kinds = kinds or [value_kind(x) for x in probe.items]
    n0 = base_len if base_len is not None else z3.IntVal(0)
    cols = []
    axs = [seq.n >= 0]
    j = _j()
    for c, k in enumerate(kinds):
        col = fresh(f"tl_col{c}", z3.ArraySort(I, sort_of(k)))
        if base_cols is not None:
            axs.append(FA([j], z3.Implies(z3.And(0 <= j, j < n0), z3.Select(col, j) == z3.Select(base_cols[c], j)), patterns=[z3.Select(col, j)]))
        src = unwrap(seq.get(st, j - n0).items[c], k)
        axs.append(FA([j], z3.Implies(z3.And(n0 <= j, j < n0 + seq.n), z3.Select(col, j) == src), patterns=[z3.Select(col, j)]))
        cols.append(col)
        # a list built by iterating a set contains every element of the set: if this component is the iteration variable
        # itself, say where each element of the set landed (ghost inverse of the enumeration)
        if isinstance(seq.src, tuple) and seq.src and seq.src[0] == "order" and len(seq.src) >= 4:
            _, order, pos, sdom = seq.src[:4]
            probe_j = z3.Const(fresh_name("cj"), I)
            try:
                comp = unwrap(seq.get(st, probe_j).items[c], k)
                if z3.simplify(comp).eq(z3.simplify(z3.Select(order, probe_j))):
                    x = z3.Const(fresh_name("cx"), order.sort().range())
                    axs.append(FA([x], z3.Implies(z3.Select(sdom, x), z3.And(0 <= pos[x], pos[x] < seq.n,
                                                                              z3.Select(col, n0 + pos[x]) == x)),
                                  patterns=[z3.Select(sdom, x)]))
            except Exception:  # noqa
                pass
    return st.assume(*axs), {"len": n0 + seq.n, "cols": cols, "kinds": kinds}


def container_method(eng, st, recv, name, pos, kw):
    rec = st.objs[recv.oid]
    if recv.kind == "tlist":
        if name == "extend":
            from . import comprehension as C
            seq = to_seq(eng, st, pos[0])
            outs = [("ok", st, seq)] if seq is not None else C.iterable_to_seq(eng, st, pos[0])

            def go(s, sq):
                r = s.objs[recv.oid]
                s2, nr = tlist_from_seq(eng, s, sq, r["len"], r["cols"], r["kinds"])
                return [("ok", s2.setobj(recv.oid, nr), NONE)]
            return eng.bind(outs, go)
        if name == "__len__":
            return [("ok", st, VInt(rec["len"]))]
        raise Unsupported(f"tuple-list.{name}")
    if recv.kind == "list":
        if name == "append":
            return list_append(eng, st, recv, pos[0])
        if name == "insert":
            return list_insert(eng, st, recv, pos[0], pos[1])
        if name == "pop":
            return list_pop(eng, st, recv, pos)
        if name == "extend":
            return list_extend(eng, st, recv, pos[0])
        if name == "reverse":
            return list_reverse(eng, st, recv)
        if name == "sort":
            return list_sort(eng, st, recv, kw)
        if name == "__getitem__":
            return list_getitem(eng, st, recv, pos[0])
        if name == "__setitem__":
            return list_setitem(eng, st, recv, pos[0], pos[1])
        if name == "__delitem__":
            return list_delitem(eng, st, recv, pos[0])
        if name == "__len__":
            return [("ok", st, VInt(rec["len"]))]
        if name == "__iter__":
            return [("ok", st, to_seq(eng, st, recv))]
        if name == "__init__":
            # list.__init__(self, iterable): self[:] = iterable
            if not pos:
                return [("ok", st.updobj(recv.oid, len=z3.IntVal(0)), NONE)]
            src = pos[0]
            if isinstance(src, VObj) and src.oid == recv.oid:
                # list.__init__(self, self): CPython clears self first, then extends from the (now empty) self
                return [("ok", st.updobj(recv.oid, len=z3.IntVal(0)), NONE)]
            st = st.updobj(recv.oid, len=z3.IntVal(0))
            return list_extend(eng, st, recv, src)
        if name == "copy":
            st2, out = alloc_list(st, rec["ekind"], length=rec["len"], elem=rec["elem"])
            return [("ok", st2, out)]
    if recv.kind == "dict":
        if name == "get":
            return dict_get(eng, st, recv, pos[0], pos[1] if len(pos) > 1 else NONE)
        if name == "pop":
            return dict_pop(eng, st, recv, pos[0], pos[1] if len(pos) > 1 else None)
        if name == "copy":
            if rec.get("lazy"):
                st2, d = alloc_obj(st, "dict", {"lazy": True})
                return [("ok", st2, VObj(d.oid, "dict", "dict"))]
            st2, out = alloc_dict(st, rec["kkind"], rec["vkind"], dom=rec["dom"], val=rec["val"])
            if "card" in rec:
                st2 = st2.updobj(out.oid, card=rec["card"])
            return [("ok", st2, out)]
        if name in ("items", "keys", "values"):
            return [("ok", st, VFunc("dictview", recv, name))]
        if name == "__getitem__":
            return dict_getitem(eng, st, recv, pos[0])
        if name == "__setitem__":
            return dict_setitem(eng, st, recv, pos[0], pos[1])
        if name == "__contains__":
            return contains(eng, st, recv, pos[0])
    if recv.kind == "set":
        if rec.get("lazy") and name in ("add", "update"):
            kk = value_kind(pos[0])
            if kk is None and isinstance(pos[0], VObj) and pos[0].kind == "set" and not st.objs[pos[0].oid].get("lazy"):
                kk = st.objs[pos[0].oid]["kkind"]
            if kk is None and isinstance(pos[0], VObj) and pos[0].kind == "set":
                return [("ok", st, NONE)]          # update of an empty set with an empty set
            if kk is None:
                raise Unsupported("lazy set of non-scalar")
            st = st.setobj(recv.oid, {"dom": z3.K(sort_of(kk), z3.BoolVal(False)), "kkind": kk})
            rec = st.objs[recv.oid]

        def commit(s, newdom):
            """store the new membership; a snapshot of a set-valued heap field writes through to the heap"""
            s = s.updobj(recv.oid, dom=newdom)
            if rec.get("origin"):
                f, ref = rec["origin"]
                s = s.setheap(f, z3.Store(eng.heap_arr(s, f), ref, newdom))
            return s
        if name == "add":
            k = unwrap(pos[0], rec["kkind"])
            return [("ok", commit(st, z3.Store(rec["dom"], k, z3.BoolVal(True))), NONE)]
        if name == "discard":
            k = unwrap(pos[0], rec["kkind"])
            return [("ok", commit(st, z3.Store(rec["dom"], k, z3.BoolVal(False))), NONE)]
        if name == "remove":
            k = unwrap(pos[0], rec["kkind"])
            res = []
            for ok, s in eng.branch(st, z3.Select(rec["dom"], k)):
                if ok:
                    res.append(("ok", commit(s, z3.Store(rec["dom"], k, z3.BoolVal(False))), NONE))
                else:
                    res.append(eng.raise_(s, "KeyError"))
            return res
        if name in ("update", "difference_update") and isinstance(pos[0], VObj) and pos[0].kind == "set":
            # with a SET argument: pointwise union / difference
            orec = st.objs[pos[0].oid]
            if orec.get("lazy"):
                return [("ok", st, NONE)]
            newdom = fresh("setupd", rec["dom"].sort())
            k = z3.Const(fresh_name("uk"), rec["dom"].sort().domain())
            a, b = z3.Select(rec["dom"], k), z3.Select(orec["dom"], k)
            ax = FA([k], z3.Select(newdom, k) == (z3.Or(a, b) if name == "update" else z3.And(a, z3.Not(b))),
                    patterns=[z3.Select(newdom, k)])
            return [("ok", commit(st.assume(ax), newdom), NONE)]
        if name in ("update", "difference_update"):
            # set.update(iterable) / set.difference_update(iterable) for a list argument: membership of every element set / cleared
            seq = to_seq(eng, st, pos[0])
            if seq is None:
                raise Unsupported(f"set.{name} of this iterable")
            ks = rec["dom"].sort().domain()
            newdom = fresh("setupd", rec["dom"].sort())
            k, j = z3.Const(fresh_name("uk"), ks), _j()
            w = fresh("upd_wit", z3.ArraySort(ks, I))
            inlist = z3.And(0 <= w[k], w[k] < seq.n, unwrap(seq.get(st, w[k]), rec["kkind"]) == k)
            ax1 = FA([j], z3.Implies(z3.And(0 <= j, j < seq.n),
                                     z3.Select(newdom, unwrap(seq.get(st, j), rec["kkind"])) == z3.BoolVal(name == "update")),
                     patterns=[unwrap(seq.get(st, j), rec["kkind"])])
            ax2 = FA([k], z3.Implies(z3.Select(newdom, k) != z3.Select(rec["dom"], k), inlist), patterns=[z3.Select(newdom, k)])
            return [("ok", commit(st.assume(ax1, ax2), newdom), NONE)]
        if name in ("__sub__", "difference") and len(pos) == 1 and not kw and isinstance(pos[0], VObj) and pos[0].kind == "set":
            # a - b for two sets: a NEW set with the pointwise difference (neither operand changes)
            orec = st.objs[pos[0].oid]
            if rec.get("lazy"):
                st2, o = alloc_obj(st, "set", {"lazy": True})
                return [("ok", st2, VObj(o.oid, "set", "set"))]
            if orec.get("lazy"):
                st2, out = alloc_set(st, rec["kkind"], dom=rec["dom"])
                return [("ok", st2, out)]
            if orec["dom"].sort() != rec["dom"].sort():
                raise Unsupported("difference of sets of different element kinds")
            newdom = fresh("setdiff", rec["dom"].sort())
            k = z3.Const(fresh_name("dk"), rec["dom"].sort().domain())
            ax = FA([k], z3.Select(newdom, k) == z3.And(z3.Select(rec["dom"], k), z3.Not(z3.Select(orec["dom"], k))),
                    patterns=[z3.Select(newdom, k), z3.Select(rec["dom"], k)])
            st2, out = alloc_set(st.assume(ax), rec["kkind"], dom=newdom)
            return [("ok", st2, out)]
        if name == "copy":
            st2, out = alloc_set(st, rec["kkind"], dom=rec["dom"])
            return [("ok", st2, out)]
        if name == "difference" and len(pos) == 1 and isinstance(pos[0], VObj) and pos[0].kind == "set" and not rec.get("lazy"):
            # s.difference(t) with a SET argument: a NEW set, pointwise `in s and not in t` (neither operand changes)
            orec = st.objs[pos[0].oid]
            if orec.get("lazy"):
                st2, out = alloc_set(st, rec["kkind"], dom=rec["dom"])
                return [("ok", st2, out)]
            if orec["dom"].sort() != rec["dom"].sort():
                raise Unsupported("set.difference of sets of different element kinds")
            newdom = fresh("setdiff", rec["dom"].sort())
            k = z3.Const(fresh_name("dk"), rec["dom"].sort().domain())
            ax = FA([k], z3.Select(newdom, k) == z3.And(z3.Select(rec["dom"], k), z3.Not(z3.Select(orec["dom"], k))),
                    patterns=[z3.Select(newdom, k)])
            st2, out = alloc_set(st.assume(ax), rec["kkind"], dom=newdom)
            return [("ok", st2, out)]
        if name == "__contains__":
            return contains(eng, st, recv, pos[0])
    raise Unsupported(f"{recv.kind}.{name}")


def str_method(eng, st, recv, name, pos, kw):
    if name in ("format", "join", "strip", "lower", "upper"):
        return [("ok", st, VOpaque("str." + name))]
    raise Unsupported(f"str.{name}")


# ---------------------------------------------------------------- builtin functions
def bi_len(eng, st, pos, kw):
    v = pos[0]
    h = eng.hooks.get("len")
    if h:
        r = h(eng, st, v)
        if r is not None:
            return r
    if isinstance(v, VTuple):
        return [("ok", st, VInt(len(v.items)))]
    if isinstance(v, VObj) and v.kind == "pylist":
        return [("ok", st, VInt(len(st.objs[v.oid]["items"])))]
    if isinstance(v, VObj) and v.kind == "list":
        return [("ok", st, VInt(st.objs[v.oid]["len"]))]
    if isinstance(v, VObj) and v.kind in ("dict", "set") and "card" in st.objs[v.oid]:
        return [("ok", st, VInt(st.objs[v.oid]["card"]))]
    if isinstance(v, VSeq):
        return [("ok", st, VInt(v.n))]
    if isinstance(v, (VObj, VRef)):
        return eng.call_method(st, v, "__len__", [], {})
    raise Unsupported(f"len of {v!r}")


def bi_isinstance(eng, st, pos, kw):
    v, c = pos
    names = [x.name for x in c.items] if isinstance(c, VTuple) else [c.name]
    rs = [eng.isinstance_static(st, v, n) for n in names]
    if any(r is True for r in rs):
        return [("ok", st, VBool(True))]
    rs = [r for r in rs if r is not False]
    return [("ok", st, VBool(z3.Or(*rs) if rs else False))]


def bi_hasattr(eng, st, pos, kw):
    v, name = pos
    name = name.py
    h = eng.hooks.get("hasattr")
    if h:
        r = h(eng, st, v, name)
        if r is not None:
            return [("ok", st, VBool(r))]
    if isinstance(v, VObj):
        rec = st.objs[v.oid]
        if "attr:" + name in rec:
            return [("ok", st, VBool(True))]
        if name == "__len__" and v.kind in ("list", "dict", "set", "pylist"):
            return [("ok", st, VBool(True))]
    if isinstance(v, (VObj, VRef)):
        for c in eng.mro(v.cls):
            ci = eng.class_info(c)
            if ci and (name in ci.methods or name in ci.getters):
                return [("ok", st, VBool(True))]
        if isinstance(v, VRef) and name in eng.reg.fields:
            return [("ok", st, VBool(True))]
        return [("ok", st, VBool(False))]
    if isinstance(v, (VStr, VInt, VBool, VReal, VNone, VSlice)) or (isinstance(v, VConc) and isinstance(v.py, str)):
        return [("ok", st, VBool(name in ("__len__",) and isinstance(v, (VStr, VConc))))]
    if isinstance(v, VTuple):
        return [("ok", st, VBool(name in ("__len__", "__iter__", "__getitem__")))]
    raise Unsupported(f"hasattr({v!r}, {name})")


def bi_getattr(eng, st, pos, kw):
    v, name = pos[0], pos[1]
    if not isinstance(name, VConc) and lit_to_py(name) is not None:
        name = VConc(lit_to_py(name))          # e.g. the loop variable of an unrolled loop over a list of literal names
    if not isinstance(name, VConc):
        h = eng.hooks.get("getattr_dyn")
        if h:
            return h(eng, st, v, name, pos[2] if len(pos) > 2 else None)
        raise Unsupported("getattr with symbolic name")
    dflt = pos[2] if len(pos) > 2 else None
    outs = eng.getattr(st, v, name.py, default=dflt)
    if dflt is None:
        return outs
    res = []
    for k, s, x in outs:
        if k == "raise" and x.cls == "AttributeError":
            res.append(("ok", s, dflt))
        else:
            res.append((k, s, x))
    return res


def bi_setattr(eng, st, pos, kw):
    v, name, val = pos
    return eng.setattr(st, v, name.py, val)


def bi_enumerate(eng, st, pos, kw):
    from . import comprehension as C
    start = pos[1] if len(pos) > 1 else kw.get("start", VInt(0))
    seq = to_seq(eng, st, pos[0])

    def mk(s, seq):
        return [("ok", s, VSeq(seq.n, lambda s2, i: VTuple((VInt(start.t + i), seq.get(s2, i))), known_len=seq.known_len,
                               tag="enumerate", src=seq.src))]
    if seq is None:
        return eng.bind(C.iterable_to_seq(eng, st, pos[0]), mk)
    return mk(st, seq)


def bi_islice(eng, st, pos, kw):
    seq = to_seq(eng, st, pos[0])
    if seq is None:
        raise Unsupported("islice of non-sequence")
    if len(pos) == 2:
        lo, hi = VInt(0), pos[1]
    else:
        lo, hi = pos[1], pos[2]
    if len(pos) > 3:
        raise Unsupported("islice step")
    lo_t = lo.t if isinstance(lo, VInt) else z3.IntVal(0)
    if isinstance(hi, VNone):
        n = z3.If(seq.n - lo_t > 0, seq.n - lo_t, 0)
    else:
        top = z3.If(hi.t < seq.n, hi.t, seq.n)
        n = z3.If(top - lo_t > 0, top - lo_t, 0)
    n = z3.simplify(n)
    kl = n.as_long() if z3.is_int_value(n) else None
    return [("ok", st, VSeq(n, lambda s, i: seq.get(s, lo_t + i), known_len=kl, tag="islice", src=seq.src))]


def bi_range(eng, st, pos, kw):
    if len(pos) == 1:
        lo, hi = z3.IntVal(0), pos[0].t
    elif len(pos) == 2:
        lo, hi = pos[0].t, pos[1].t
    else:
        raise Unsupported("range step")
    n = z3.simplify(z3.If(hi - lo > 0, hi - lo, 0))
    kl = n.as_long() if z3.is_int_value(n) else None
    return [("ok", st, VSeq(n, lambda s, i: VInt(lo + i), known_len=kl, tag="range"))]


def bi_str(eng, st, pos, kw):
    h = eng.hooks.get("str")
    if h and pos:
        r = h(eng, st, pos[0])          # a contract module may give str(x) a meaning (e.g. str(<float>) = str_of_float(x))
        if r is not None:
            return r
    if pos and isinstance(pos[0], (VStr,)):
        return [("ok", st, pos[0])]
    if pos and isinstance(pos[0], VConc) and isinstance(pos[0].py, str):
        return [("ok", st, pos[0])]
    if pos and isinstance(pos[0], (VRef, VObj)) and eng.class_info(pos[0].cls) is not None:
        try:
            return eng.call_method(st, pos[0], "__str__", [], {})      # the class's own __str__ (inlined or by contract)
        except Unsupported:
            pass
    return [("ok", st, VOpaque("str"))]


def bi_opaque(eng, st, pos, kw):
    return [("ok", st, VOpaque("opaque"))]


def bi_isinf(eng, st, pos, kw):
    return [("ok", st, VBool(xr_isinf(eng.to_real(pos[0]))))]


def bi_isnan(eng, st, pos, kw):
    """NaN is a distinguished marker value NaN_const (never produced by arithmetic in the supported subset)"""
    r = eng.to_real(pos[0])
    return [("ok", st, VBool(z3.And(r.k == 0, r.v == z3.Real("NaN_const"))))]


def bi_abs(eng, st, pos, kw):
    v = pos[0]
    if isinstance(v, VInt):
        return [("ok", st, VInt(z3.If(v.t < 0, -v.t, v.t)))]
    r = eng.to_real(v)
    return [("ok", st, VReal(z3.If(r.k != 0, z3.IntVal(1), z3.IntVal(0)), z3.If(r.v < 0, -r.v, r.v)))]


def _minmax(is_min):
    def f(eng, st, pos, kw):
        items = pos
        if len(pos) == 1:
            from . import comprehension as C
            if isinstance(pos[0], (C.VGen, C.VGenFlat)):
                if kw:
                    raise Unsupported("min/max of a generator with keywords")
                return C.minmax_gen(eng, st, pos[0], is_min)
            seq = to_seq(eng, st, pos[0])
            if seq is None or seq.known_len is None:
                raise Unsupported("min/max of symbolic collection")
            items = [seq.get(st, z3.IntVal(i)) for i in range(seq.known_len)]
        if "key" in kw:
            raise Unsupported("min/max with key")
        if all(isinstance(x, (VInt, VBool)) for x in items):
            acc = unwrap(items[0], "int")
            for x in items[1:]:
                y = unwrap(x, "int")
                acc = z3.If(y < acc, y, acc) if is_min else z3.If(y > acc, y, acc)
            return [("ok", st, VInt(acc))]
        rs = [eng.to_real(x) for x in items]
        acc = rs[0]
        for y in rs[1:]:
            c = xr_lt(y, acc) if is_min else xr_lt(acc, y)
            acc = VReal(z3.If(c, y.k, acc.k), z3.If(c, y.v, acc.v))
        return [("ok", st, acc)]
    return f


# float(<string>) and str(<float>) as uninterpreted functions (nothing is known about them but what a contract assumes through
# `axioms=`, e.g. float(str(x)) == x): float(s) raises ValueError unless float_parses(s), else it is the extended real
# (float_of_str_k(s), float_of_str_v(s)); str(x) of a float is str_of_float(kind, value) (only through the `str` hook, see bi_str)
FLOAT_PARSES = z3.Function("float_parses", Id, z3.BoolSort())
FLOAT_OF_STR_K = z3.Function("float_of_str_k", Id, z3.IntSort())
FLOAT_OF_STR_V = z3.Function("float_of_str_v", Id, z3.RealSort())
STR_OF_FLOAT = z3.Function("str_of_float", z3.IntSort(), z3.RealSort(), Id)


def float_of_str(t):
    return VReal(FLOAT_OF_STR_K(t), FLOAT_OF_STR_V(t))


def str_of_float(x):
    """the string str(x) of an extended real (one string per value: the finite part of an infinity is normalised away)"""
    return STR_OF_FLOAT(x.k, z3.If(x.k == 0, x.v, z3.RealVal(0)))


def bi_float(eng, st, pos, kw):
    v = pos[0]
    if isinstance(v, VConc) and isinstance(v.py, str):
        if float(v.py) != float(v.py):
            # float("nan") is no extended real: a contract module may give it an opaque value (hook "float_nan"), else unsupported
            h = eng.hooks.get("float_nan")
            if h:
                return h(eng, st)
            raise Unsupported("float('nan') is not an extended real")
        return [("ok", st, xr_const(float(v.py)))]
    if isinstance(v, VStr):
        res = []
        for ok, s in eng.branch(st, FLOAT_PARSES(v.t)):
            if ok:
                r = float_of_str(v.t)
                res.append(("ok", s.assume(r.k >= -1, r.k <= 1), r))
            else:
                res.append(eng.raise_(s, "ValueError"))
        return res
    return [("ok", st, eng.to_real(v))]


def bi_bool(eng, st, pos, kw):
    return [("ok", st, VBool(eng.truth(st, pos[0])))]


def bi_partial(eng, st, pos, kw):
    return [("ok", st, VFunc("partial", pos[0], tuple(pos[1:]), dict(kw)))]


def bi_list(eng, st, pos, kw):
    from . import comprehension as C
    if not pos:
        st2, l = alloc_list(st, "int", length=z3.IntVal(0))
        st2 = st2.updobj(l.oid, untyped=True)
        return [("ok", st2, l)]
    seq = to_seq(eng, st, pos[0])

    def mk(s, seq):
        if seq.known_len is not None and seq.tag in ("tuple", "pylist") and not getattr(seq, "effect", None):
            # list(<tuple / list display of concrete length>), e.g. list(ids) for a *ids parameter: a new list with the same entries,
            # built as a list display is (a concrete tuple cannot be indexed symbolically)
            return [list_from_values(eng, s, [seq.get(s, z3.IntVal(k)) for k in range(seq.known_len)])]
        v0 = seq.get(s, z3.Const(fresh_name("i"), I))
        kind = value_kind(v0)
        if kind is None and isinstance(v0, VTuple) and v0.items and all(value_kind(x) for x in v0.items):
            # list(<sequence of fixed-arity tuples of scalars>), e.g. list(d.items()): a snapshot kept as parallel arrays
            s2, rec = tlist_from_seq(eng, s, seq)
            oid = new_oid()
            return [("ok", s2.setobj(oid, rec), VObj(oid, "tlist", "list"))]
        if kind is None:
            raise Unsupported("list() of non-scalar sequence")
        s, l = alloc_list(s, kind, length=z3.IntVal(0))
        return eng.bind(list_extend(eng, s, l, seq), lambda s2, _: [("ok", s2, l)])
    if seq is None:
        return eng.bind(C.iterable_to_seq(eng, st, pos[0]), mk)
    return mk(st, seq)


def bi_map(eng, st, pos, kw):
    """map(f, iterable) consumed by a for loop: lazy - f is called on the i-th element when the loop reaches it (side effects and
    exceptions of f happen there); only usable as the iterable of a for loop with an invariant"""
    from . import comprehension as C
    if len(pos) != 2 or kw:
        raise Unsupported("map with several iterables")
    f = pos[0]

    def mk(s, seq):
        out = VSeq(seq.n, lambda s2, i: _raise_unsupported("element of map() outside a loop"), known_len=seq.known_len, tag="mapcall")
        out.effect = lambda eng2, s2, i: eng2.call(s2, f, [seq.get(s2, i)], {})
        return [("ok", s, out)]
    seq = to_seq(eng, st, pos[1])
    if seq is None:
        return eng.bind(C.iterable_to_seq(eng, st, pos[1]), mk)
    return mk(st, seq)


def bi_sorted(eng, st, pos, kw):
    """sorted(iterable[, key=...]) = a new list that is a permutation of the iterable (the order BY KEY is not modelled: nothing
    may be concluded from it; same treatment as list.sort)"""
    if any(k not in ("key", "reverse") for k in kw):
        raise Unsupported("sorted() keywords")
    return eng.bind(bi_list(eng, st, [pos[0]], {}), lambda s, l: eng.bind(list_sort(eng, s, l, kw), lambda s2, _: [("ok", s2, l)]))


def bi_attrgetter(eng, st, pos, kw):
    return [("ok", st, VFunc("attrgetter", tuple(p.py if isinstance(p, VConc) else None for p in pos)))]


def bi_set(eng, st, pos, kw):
    from . import comprehension as C
    if not pos:
        st2, o = alloc_obj(st, "set", {"lazy": True})
        return [("ok", st2, VObj(o.oid, "set", "set"))]
    return C.set_of_iterable(eng, st, pos[0])


def bi_dict(eng, st, pos, kw):
    from . import comprehension as C
    if not pos and not kw:
        return [dict_from_pairs(eng, st, [])]
    if len(pos) == 1 and not kw and isinstance(pos[0], C.VGen):
        return C.dict_from_gen(eng, st, pos[0])
    if len(pos) == 1 and not kw and isinstance(pos[0], VObj) and pos[0].kind == "dict" and not st.objs[pos[0].oid].get("pure"):
        # dict(d): a NEW dictionary with the same keys and values (what d.copy() returns)
        return container_method(eng, st, pos[0], "copy", [], {})
    if len(pos) == 1 and not kw and isinstance(pos[0], VObj) and pos[0].kind == "tlist" and len(st.objs[pos[0].oid]["kinds"]) == 2:
        # dict(<list of (key, value) pairs>): last-wins map over the positions of the list, as for a generator of pairs
        seq = to_seq(eng, st, pos[0])
        i = z3.Const(fresh_name("di"), I)
        return C.dict_from_gen(eng, st, C.VGen(seq, i, None, seq.get(st, i)))
    raise Unsupported("dict(...) with arguments")


def bi_tuple(eng, st, pos, kw):
    if not pos:
        return [("ok", st, VTuple(()))]
    seq = to_seq(eng, st, pos[0])
    if seq is not None and seq.known_len is not None:
        return [("ok", st, VTuple([seq.get(st, z3.IntVal(i)) for i in range(seq.known_len)]))]
    raise Unsupported("tuple() of symbolic sequence")


def bi_slice(eng, st, pos, kw):
    if len(pos) == 1:
        return [("ok", st, VSlice(NONE, pos[0], NONE))]
    if len(pos) == 2:
        return [("ok", st, VSlice(pos[0], pos[1], NONE))]
    return [("ok", st, VSlice(pos[0], pos[1], pos[2]))]


def bi_any_all(is_any):
    def f(eng, st, pos, kw):
        from . import comprehension as C
        return C.any_all(eng, st, pos[0], is_any)
    return f


def bi_type(eng, st, pos, kw):
    t = eng.pytype(pos[0])
    if t is None:
        return [("ok", st, VOpaque("type"))]
    return [("ok", st, VClass(t))]


def bi_super(eng, st, pos, kw):
    # super(Cls, self) -> proxy resolved on the first base that defines the method
    if not pos:
        # zero-argument form inside the method under verification: its class and its `self`
        con = getattr(eng, "cur_contract", None)
        if con is None or "." not in con.qual or "self" not in (eng.entry_args or {}):
            raise Unsupported("super() outside a method under verification")
        pos = [VClass(con.qual.split(".")[0].split("@")[0]), eng.entry_args["self"]]
    cls, obj = pos
    bases = eng.mro(cls.name)[1:] or ["object"]
    ci = eng.class_info(cls.name)
    b = ci.bases[0] if ci and ci.bases else bases[0]
    return [("ok", st, VFunc("super", b, obj))]


def bi_chain(eng, st, pos, kw):
    """itertools.chain(*gen) for a generator of fixed-arity tuples: the flattened sequence of length n*k whose element
    i is component (i mod k) of tuple (i div k)"""
    from . import comprehension as C
    if len(pos) == 1 and isinstance(pos[0], VConc) and isinstance(pos[0].py, tuple) and pos[0].py[0] == "starred":
        g = pos[0].py[1]
        if isinstance(g, C.VGen) and g.cond is None and isinstance(g.elt, VTuple) and len(g.elt.items) >= 1:
            k = len(g.elt.items)
            n = g.seq.n

            def get(s, i, g=g, k=k):
                q = i / k          # z3 integer division (i >= 0)
                tup = g.elt_at(q)
                comps = tup.items
                r0 = comps[0]
                if not all(isinstance(c, VRef) for c in comps):
                    raise Unsupported("chain of non-reference tuples")
                t = comps[-1].t
                for j in range(k - 2, -1, -1):
                    t = z3.If(i % k == j, comps[j].t, t)
                return VRef(t, r0.cls)
            return [("ok", st, VSeq(n * k, get, tag="chain", flat=(n, k, lambda s, j, c, g=g: g.elt_at(j).items[c])))]
    raise Unsupported("itertools.chain in this form")


def bi_int(eng, st, pos, kw):
    v = pos[0]
    if isinstance(v, (VInt, VBool)):
        return [("ok", st, VInt(unwrap(v, "int")))]
    raise Unsupported("int() of non-int")


_SIGMA = {}


def sigma(ksort):
    """SIGMA_K(dom, F): the sum of F[k] over the keys k of the FINITE key set dom.  Uninterpreted: nothing but "the same key set and
    the same summand function give the same sum" is ever used.  That it does not depend on the order in which a dict / set happens
    to be enumerated is commutativity and associativity of + on the reals (encoding assumption A2: floats are reals, no rounding)."""
    key = str(ksort)
    if key not in _SIGMA:
        _SIGMA[key] = z3.Function(f"SIGMA_{key}", z3.ArraySort(ksort, z3.BoolSort()), z3.ArraySort(ksort, z3.RealSort()), z3.RealSort())
    return _SIGMA[key]


def _mentions(term, const):
    seen, todo, cid = set(), [term], const.get_id()
    while todo:
        t = todo.pop()
        if t.get_id() in seen:
            continue
        seen.add(t.get_id())
        if t.get_id() == cid:
            return True
        todo.extend(t.children())
    return False


def _enumeration_of(st, g):
    """(key term at the generator's index, key set) when the generator runs over the ghost enumeration `order` of a dict / set
    (`for k in d`, `for k, v in d.items()`, ...): the key of element i is order[i]; else (None, None)"""
    src = getattr(g.seq, "src", None)
    if isinstance(src, tuple) and len(src) >= 4 and src[0] == "order" and g.seq.tag == "setiter":
        return z3.Select(src[1], g.idx), src[3]
    if g.seq.tag != "dictview":
        return None, None
    probe = g.seq.get(st, g.idx)
    first = probe.items[0] if isinstance(probe, VTuple) and probe.items else probe
    t = getattr(first, "t", None)
    cands = [t] if t is not None else []
    if t is not None and z3.is_app(t) and t.decl().kind() == z3.Z3_OP_SELECT and t.num_args() == 2:
        cands.append(t.arg(1))          # .values(): val[order[i]]
    for key, ent in st.ghost.items():
        if isinstance(key, tuple) and len(key) == 3 and key[0] == "order" and key[1] in st.objs:
            order = ent[0]
            kt = z3.Select(order, g.idx)
            rec = st.objs[key[1]]
            if any(c.eq(kt) for c in cands) and rec.get("dom") is not None and rec["dom"].get_id() == key[2]:
                return kt, rec["dom"]
    return None, None


def bi_sum(eng, st, pos, kw):
    """sum(<generator expression over a dict / set>) of FINITE numbers whose summand is a function of the KEY alone:
    the value is SIGMA(dom, F) with F a fresh function characterised pointwise, F[k] = summand at key k (for every k; the summand
    terms are total).  The pair (dom, F) is left in the ghost state under ("sigma", <name of F>) so that a specification can say
    what is summed.  Anything else (lists, filtered generators, infinite summands, a start value) is unsupported."""
    from . import comprehension as C
    if len(pos) != 1 or kw or not isinstance(pos[0], C.VGen):
        raise Unsupported("sum() of something else than one generator expression")
    g = pos[0]
    if g.cond is not None:
        raise Unsupported("sum() of a filtered generator")
    if not isinstance(g.elt, (VReal, VInt, VBool)):
        raise Unsupported("sum() of non-numeric elements")
    r = eng.to_real(g.elt)
    kk = z3.simplify(r.k)
    if not (z3.is_int_value(kk) and kk.as_long() == 0):
        raise Unsupported("sum() of possibly infinite elements")
    key_term, dom = _enumeration_of(st, g)
    if key_term is None:
        raise Unsupported("sum() over something else than the enumeration of a dict / set")
    ksort = key_term.sort()
    k = z3.Const(fresh_name("sk"), ksort)
    body = z3.substitute(r.v, (key_term, k))
    if _mentions(body, g.idx):
        raise Unsupported("sum(): the summand depends on the position in the enumeration, not only on the key")
    F = fresh("summand", z3.ArraySort(ksort, z3.RealSort()))
    st = st.assume(FA([k], z3.Select(F, k) == body, patterns=[z3.Select(F, k)]))
    st = st.setghost(("sigma", F.decl().name()), (dom, F))
    return [("ok", st, VReal(0, sigma(ksort)(dom, F)))]


TYPE_NAMES = {"list", "dict", "set", "tuple", "slice", "str", "int", "bool", "float", "frozenset", "type", "object"}

BUILTINS = {
    "int": bi_int, "chain": bi_chain, "sum": bi_sum,
    "len": bi_len, "isinstance": bi_isinstance, "hasattr": bi_hasattr, "getattr": bi_getattr, "setattr": bi_setattr,
    "enumerate": bi_enumerate, "islice": bi_islice, "range": bi_range, "str": bi_str, "repr": bi_opaque,
    "format": bi_opaque, "id": bi_opaque, "isinf": bi_isinf, "isnan": bi_isnan, "abs": bi_abs, "min": _minmax(True), "max": _minmax(False),
    "float": bi_float, "bool": bi_bool, "partial": bi_partial, "list": bi_list, "set": bi_set, "dict": bi_dict,
    "OrderedDict": bi_dict, "sorted": bi_sorted, "attrgetter": bi_attrgetter, "map": bi_map,      # insertion order is what dict has anyway; move_to_end etc. are not modelled
    "tuple": bi_tuple, "slice": bi_slice, "any": bi_any_all(True), "all": bi_any_all(False), "type": bi_type,
    "super": bi_super, "frozenset": bi_set,
}
CLASSES = {}
MODULES = {"re", "math", "np", "pd", "optlang", "logging", "warnings"}
