"""Sorts and value representations of the pyvc symbolic executor.

Every Python value the executor manipulates is one of the classes below.  SMT terms are z3 expressions.
Encoding assumptions (repeated in every evidence file):
  A1 Python ints are mathematical integers (exact).
  A2 floats are *extended reals*: a pair (kind in {-1,0,+1}, finite value); NaN excluded; no rounding.
  Identifier strings are an uninterpreted sort `Id` (no string theory); literals are pairwise distinct constants.
  Heap objects are an uninterpreted sort `Ref`; fields are arrays Ref -> T (Burstall/Dafny heap).
"""
import itertools
import z3

Ref = z3.DeclareSort("Ref")
Id = z3.DeclareSort("Id")
NULL = z3.Const("null", Ref)

_counter = itertools.count()


def fresh_name(base):
    return f"{base}!{next(_counter)}"


def fresh(base, sort):
    return z3.Const(fresh_name(base), sort)


_LITS = {}


def id_lit(s):
    """Distinct Id constant for a string literal."""
    if s not in _LITS:
        _LITS[s] = z3.Const("lit_" + "".join(c if c.isalnum() else "_%02x" % ord(c) for c in s), Id)
    return _LITS[s]


_IDENTS = {}


def ident_of(oid):
    """Symbolic identity (a non-null Ref, distinct from those of other materialised objects) of a materialised object that is stored
    into a reference-valued heap field (x._model = self with self materialised)."""
    if oid not in _IDENTS:
        _IDENTS[oid] = z3.Const(f"ident_obj{oid}", Ref)
    return _IDENTS[oid]


def lit_to_py(v):
    """python string of a string value that is (after simplification) one of the literal constants, else None"""
    if isinstance(v, VConc) and isinstance(v.py, str):
        return v.py
    if isinstance(v, VStr):
        t = z3.simplify(v.t)
        for s_, c in _LITS.items():
            if c.eq(t):
                return s_
    return None


def lit_axioms():
    ls = list(_LITS.values())
    out = [z3.Distinct(*ls)] if len(ls) > 1 else []
    ids = list(_IDENTS.values())
    if ids:
        out.append(z3.Distinct(NULL, *ids))
    return out


class Value:
    pass


class VInt(Value):
    __slots__ = ("t",)

    def __init__(self, t):
        self.t = z3.IntVal(t) if isinstance(t, int) else t

    def __repr__(self):
        return f"VInt({self.t})"


class VBool(Value):
    __slots__ = ("t",)

    def __init__(self, t):
        self.t = z3.BoolVal(t) if isinstance(t, bool) else t

    def __repr__(self):
        return f"VBool({self.t})"


class VReal(Value):
    """Extended real: kind k in {-1 (=-inf), 0 (finite), 1 (=+inf)} and finite value v (meaningful iff k==0)."""
    __slots__ = ("k", "v")

    def __init__(self, k, v):
        self.k = z3.IntVal(k) if isinstance(k, int) else k
        self.v = z3.RealVal(v) if isinstance(v, (int, float)) else v

    def __repr__(self):
        return f"VReal({self.k},{self.v})"


class VStr(Value):
    """An identifier-like string, opaque (sort Id)."""
    __slots__ = ("t",)

    def __init__(self, t):
        self.t = t

    def __repr__(self):
        return f"VStr({self.t})"


class VNone(Value):
    def __repr__(self):
        return "VNone"


NONE = VNone()


class VConc(Value):
    """A concrete Python constant the executor keeps as is (string literal, ...)."""
    __slots__ = ("py",)

    def __init__(self, py):
        self.py = py

    def __repr__(self):
        return f"VConc({self.py!r})"


class VOpaque(Value):
    """A value whose content is irrelevant (messages, reprs)."""

    def __init__(self, what=""):
        self.what = what

    def __repr__(self):
        return f"VOpaque({self.what})"


class VTuple(Value):
    __slots__ = ("items",)

    def __init__(self, items):
        self.items = tuple(items)

    def __repr__(self):
        return f"VTuple{self.items}"


class VRef(Value):
    """Symbolic heap object of static class `cls` (fields live in the heap arrays). May be null if nullable."""
    __slots__ = ("t", "cls")

    def __init__(self, t, cls):
        self.t = t
        self.cls = cls

    def __repr__(self):
        return f"VRef({self.t}:{self.cls})"


class VObj(Value):
    """Materialised interpreter-side object: identity is `oid`; its record lives in State.objs[oid].

    kind: 'list' | 'dict' | 'set' | 'obj'.  A DictList is kind 'list' with cls 'DictList' and extra attributes.
    """
    __slots__ = ("oid", "kind", "cls")

    def __init__(self, oid, kind, cls=None):
        self.oid = oid
        self.kind = kind
        self.cls = cls or kind

    def __repr__(self):
        return f"VObj(#{self.oid}:{self.cls})"


class VClass(Value):
    __slots__ = ("name",)

    def __init__(self, name):
        self.name = name

    def __repr__(self):
        return f"VClass({self.name})"


class VFunc(Value):
    """kind: 'closure' (node, frame) | 'builtin' (name) | 'bound' (recv, name) | 'unbound' (clsname, name)
    | 'partial' (func, args, kwargs) | 'repo' (qualname)"""
    __slots__ = ("kind", "a", "b", "c")

    def __init__(self, kind, a=None, b=None, c=None):
        self.kind, self.a, self.b, self.c = kind, a, b, c

    def __repr__(self):
        return f"VFunc({self.kind},{self.a},{self.b})"


class VExc(Value):
    __slots__ = ("cls", "args")

    def __init__(self, cls, args=()):
        self.cls = cls
        self.args = tuple(args)

    def __repr__(self):
        return f"VExc({self.cls})"


class VSeq(Value):
    """Abstract finite sequence (an iterator being consumed): length term and element getter.

    get(st, idx_term) -> Value.  `live` names a list VObj that the sequence reads live (CPython list iterators do).
    known_len: python int if the length is concrete (then loops unroll).
    """
    __slots__ = ("n", "get", "known_len", "tag", "src", "flat", "flt", "effect")

    def __init__(self, n, get, known_len=None, tag="seq", src=None, flat=None):
        self.n, self.get, self.known_len, self.tag, self.src = n, get, known_len, tag, src
        self.flat = flat      # (inner_n, k, comp(s, j, c) -> Value): the sequence is the flattening of inner_n tuples of arity k
        self.flt = None       # (src, dst, generator) ghost maps of a filtered subsequence
        self.effect = None    # effect(eng, st, i) -> outcomes: the i-th element is produced by a call with side effects (map(f, seq))

    def __repr__(self):
        return f"VSeq({self.tag},n={self.n})"


class VSlice(Value):
    __slots__ = ("lo", "hi", "step")

    def __init__(self, lo, hi, step):
        self.lo, self.hi, self.step = lo, hi, step

    def __repr__(self):
        return f"VSlice({self.lo},{self.hi},{self.step})"


# ---------------------------------------------------------------- extended reals
def xr_const(x):
    if x == float("inf"):
        return VReal(1, 0)
    if x == float("-inf"):
        return VReal(-1, 0)
    return VReal(0, z3.RealVal(str(x)) if isinstance(x, float) else z3.RealVal(x))


def xr_fresh(base):
    k = fresh(base + "_k", z3.IntSort())
    v = fresh(base + "_v", z3.RealSort())
    return VReal(k, v), z3.And(k >= -1, k <= 1)


def xr_lt(a, b):
    return z3.Or(a.k < b.k, z3.And(a.k == 0, b.k == 0, a.v < b.v))


def xr_le(a, b):
    return z3.Or(a.k < b.k, z3.And(a.k == b.k, z3.Or(a.k != 0, a.v <= b.v)))


def xr_eq(a, b):
    return z3.And(a.k == b.k, z3.Or(a.k != 0, a.v == b.v))


def xr_neg(a):
    return VReal(-a.k, -a.v)


def xr_isinf(a):
    return a.k != 0


def xr_fin(a):
    return a.k == 0


# ---------------------------------------------------------------- kinds (how a raw term is wrapped)
def sort_of(kind):
    if kind == "int":
        return z3.IntSort()
    if kind == "bool":
        return z3.BoolSort()
    if kind == "id":
        return Id
    if kind == "real":
        return z3.RealSort()
    if kind.startswith("ref"):
        return Ref
    if kind == "np":                # opaque array / expression (pyvc.npalg): containers of optlang / numpy objects
        return z3.DeclareSort("NP")
    raise ValueError(kind)


def wrap(term, kind):
    if kind == "int":
        return VInt(term)
    if kind == "bool":
        return VBool(term)
    if kind == "id":
        return VStr(term)
    if kind.startswith("ref:"):
        return VRef(term, kind[4:])
    if kind == "real":
        return VReal(0, term)       # containers hold finite reals
    if kind == "np":
        from .npalg import VNp
        return VNp(term)
    raise ValueError(kind)


class Unsupported(Exception):
    """The function left the supported subset: the obligation set is UNDECIDED (never a violation)."""


def unwrap(v, kind):
    if kind == "int":
        if isinstance(v, VInt):
            return v.t
        if isinstance(v, VBool):
            return z3.If(v.t, 1, 0)
    elif kind == "bool":
        if isinstance(v, VBool):
            return v.t
    elif kind == "id":
        if isinstance(v, VStr):
            return v.t
        if isinstance(v, VConc) and isinstance(v.py, str):
            return id_lit(v.py)
    elif kind.startswith("ref"):
        if isinstance(v, VRef):
            return v.t
        if isinstance(v, VNone):
            return NULL
        if isinstance(v, VObj) and v.kind == "obj":
            return ident_of(v.oid)
    elif kind == "real":
        if isinstance(v, VReal):
            return v.v
        if isinstance(v, VInt):
            return z3.ToReal(v.t)
    elif kind == "np":
        if type(v).__name__ == "VNp":
            return v.t
    raise Unsupported(f"cannot store {v!r} as {kind}")


# ---------------------------------------------------------------- quantifier helper (pattern hygiene)
def _pattern_ok(p, vs):
    ids = {v.get_id() for v in vs}
    seen, todo, has_var = set(), [p], False
    if not z3.is_app(p) or z3.is_const(p):
        return False
    k = p.decl().kind()
    if k in (z3.Z3_OP_ADD, z3.Z3_OP_SUB, z3.Z3_OP_MUL, z3.Z3_OP_LE, z3.Z3_OP_LT, z3.Z3_OP_GE, z3.Z3_OP_GT,
             z3.Z3_OP_EQ, z3.Z3_OP_AND, z3.Z3_OP_OR, z3.Z3_OP_NOT, z3.Z3_OP_ITE):
        return False
    while todo:
        t = todo.pop()
        if t.get_id() in seen:
            continue
        seen.add(t.get_id())
        if t.get_id() in ids:
            has_var = True
        if z3.is_app(t) and t.decl().kind() == z3.Z3_OP_ITE:
            return False
        if z3.is_quantifier(t):
            return False
        todo.extend(t.children())
    return has_var


def FA(vs, body, patterns=()):
    """ForAll with explicit patterns when they are admissible, plain ForAll otherwise."""
    pats = [p for p in patterns if _pattern_ok(p, vs)]
    if pats:
        try:
            return z3.ForAll(vs, body, patterns=pats)
        except z3.Z3Exception:
            pass
    return z3.ForAll(vs, body)
