"""Write baseline/<ID>.json from the evidence of a clean run on the UNCHANGED /repo (run by hand after `tools/run_all.sh`, result
committed; never written at check time): per contract the sha256 of the verified source segment, and the names of the obligations
that were discharged.  The checks use it to tell `an obligation that was discharged on the unchanged tree and is undecided now
that the function's source has changed` (reported as a violation of that obligation, no-failing-input-found) from solver noise on
unchanged code (stays undecided)."""
import glob
import json
import os
import sys
ROOT = os.path.dirname(os.path.dirname(os.path.abspath(__file__)))
sys.path.insert(0, ROOT)
os.makedirs(os.path.join(ROOT, "baseline"), exist_ok=True)
for path in sorted(glob.glob(os.path.join(ROOT, "evidence", "C*.json"))):
    pid = os.path.basename(path)[:-5]
    ev = json.load(open(path))
    cov = ev["coverage"]
    if cov.get("undecided") or cov.get("checker_errors") or ev.get("violations"):
        print(pid, "evidence is not from a clean run: skipped")
        continue
    contracts = {f["contract_key"]: f["sha256"] for f in cov.get("functions_under_contract", []) if f.get("contract_key")}
    discharged = sorted(o["name"] for o in cov.get("obligation_records", []) if o["result"] == "unsat")
    json.dump({"property": pid, "contracts": contracts, "discharged": discharged}, open(os.path.join(ROOT, "baseline", f"{pid}.json"), "w"))
    print(pid, len(contracts), "contracts,", len(discharged), "obligations")
