"""Regenerate MANIFEST.json from the per-property table below (kept in one place so it stays valid)."""
import json, os
ROOT = os.path.dirname(os.path.dirname(os.path.abspath(__file__)))
PROPS = [json.loads(l) for l in open(os.path.join(ROOT, "properties.jsonl"))]
from manifest_table import CHECKS, NOT_APPLICABLE, FIX_COMMITS  # noqa
import subprocess
try:   # the list of repairs is read from /repo's history when the manifest is regenerated (by hand, result committed)
    _log = subprocess.run(["git", "-C", "/repo", "log", "--reverse", "--format=%h %s"], capture_output=True, text=True).stdout
    _fx = [l.split()[0] for l in _log.splitlines() if l.split(" ", 1)[1].startswith("fix:")]
    FIX_COMMITS = _fx or FIX_COMMITS
except Exception:  # noqa
    pass

m = {
    "version": 1,
    "setup_cmd": "./setup.sh",
    "hooks": {"guard": "COBRAPY_VERIF", "enable": "no hooks are needed: contracts live in sidecar files under /verif/contracts and the "
              "verifier re-reads /repo/src on every run; the bounded tier wraps functions in the check's own process",
              "baseline_off_cmd": "./tools/baseline_check.sh", "source_commits": [], "add_only": True},
    "engines": [
        {"name": "pyvc", "path": "pyvc/", "serves_properties": sorted(CHECKS),
         "kind_free_text": "verification-condition generator written for this task: symbolic execution of the real Python AST of "
                           "/repo functions against sidecar contracts (cases, frames, loop invariants, callee contracts at call sites); "
                           "obligations discharged by z3 5.1 with cvc5 taking z3's unknowns"},
        {"name": "bcc", "path": "bcc/", "serves_properties": sorted(CHECKS),
         "kind_free_text": "bounded contract checking of the real code (run-time contracts, small-scope exhaustive histories, exact LP "
                           "oracle); labelled bounded, never counted as proved"},
    ],
    "checks": [],
    "notes": "fix: commits in /repo (genuine defects repaired): " + ", ".join(FIX_COMMITS) + ". See known_findings.jsonl and DESIGN.md.",
    "not_applicable": [{"property_id": p, "reason": r} for p, r in sorted(NOT_APPLICABLE.items())],
}
for pid in sorted(CHECKS):
    c = CHECKS[pid]
    m["checks"].append({
        "property_id": pid,
        "quick_cmd": f"./check {pid} --tier quick",
        "thorough_cmd": f"./check {pid} --tier thorough",
        "evidence_file": f"evidence/{pid}.json",
        "replay_cmd_template": f"./check {pid} --replay {{path}}",
        "engine": "pyvc+bcc",
        "level_claimed": {"category": c["level"], "text": c["text"], "design_ref": c.get("design_ref", "DESIGN.md section 6 " + pid)},
        "level_note": c["note"],
        "technique": c["technique"],
    })
ids = {p["id"] for p in PROPS}
assert set(CHECKS) | set(NOT_APPLICABLE) == ids, (ids - set(CHECKS) - set(NOT_APPLICABLE))
json.dump(m, open(os.path.join(ROOT, "MANIFEST.json"), "w"), indent=1)
print("MANIFEST.json written:", len(m["checks"]), "checks,", len(m["not_applicable"]), "not applicable")
