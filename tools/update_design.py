"""Splice the generated tables into DESIGN.md section 11 (between the GENERATED markers).  Run by hand; result committed."""
import os
import subprocess
import sys
ROOT = os.path.dirname(os.path.dirname(os.path.abspath(__file__)))
tables = subprocess.run([sys.executable, os.path.join(ROOT, "tools", "gen_design_tables.py")], capture_output=True, text=True, check=True).stdout
p = os.path.join(ROOT, "DESIGN.md")
s = open(p).read()
a, b = "<!-- BEGIN GENERATED section-11-tables -->", "<!-- END GENERATED section-11-tables -->"
assert a in s and b in s
s = s[:s.index(a) + len(a)] + "\n" + tables.rstrip() + "\n" + s[s.index(b):]
open(p, "w").write(s)
print("DESIGN.md section 11 tables updated:", tables.count("\n| C"), "rows")
