"""Print the markdown tables of DESIGN.md section 11 from known_findings.jsonl and seeded/*/meta.json."""
import glob
import json
import os

ROOT = os.path.dirname(os.path.dirname(os.path.abspath(__file__)))
fixed, open_ = [], []
for line in open(os.path.join(ROOT, "known_findings.jsonl")):
    s = line.strip()
    if not s or s.startswith("#"):
        continue
    e = json.loads(s)
    (fixed if e.get("status") == "fixed" else open_).append(e)
print("### 11.1 Genuine defects repaired in /repo (`fix:` commits; a fixed entry suppresses nothing)\n")
print("| property | commit | what failed |")
print("|---|---|---|")
for e in fixed:
    what = e["what"].split(" ", 3)[-1] if e["what"].startswith("fixed:") else e["what"]
    print(f"| {e['property']} | `{e.get('commit', '')}` | {what} |")
print("\n### 11.2 Genuine defects recorded, not repaired (open known findings, matched witness by witness)\n")
print("| property | class | listed witnesses | what fails / why not repaired |")
print("|---|---|---|---|")
for e in open_:
    n = len(e.get("witnesses") or []) or 1
    print(f"| {e['property']} | `{e.get('witness_class') or e.get('witness') or e.get('obligation', '')}` | {n} | {e['what']} |")
print("\n### 11.3 Seeded changes (written by independent sub-agents from the property text only) and which check catches them\n")
print("| seed | property | what the change does | needs | caught by (first report) |")
print("|---|---|---|---|---|")
for path in sorted(glob.glob(os.path.join(ROOT, "seeded", "*", "meta.json"))):
    m = json.load(open(path))
    name = os.path.basename(os.path.dirname(path))
    caught = []
    for c in m.get("checks_run_against_it", []):
        if c["violations_reported"]:
            fv = c["first_violation"]
            kind = "bounded driver" if fv.startswith("bounded:") else "obligation (deductive)"
            caught.append(f"{c['check']}: {kind} `{fv[:90]}`")
        else:
            caught.append(f"{c['check']}: not caught")
    print(f"| {name} | {m.get('property', '')} | {m.get('summary', '')[:200]} | {m.get('needs', '')[:160]} | {'; '.join(caught)} |")
