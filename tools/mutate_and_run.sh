#!/bin/sh
# tools/mutate_and_run.sh <file under src/, e.g. cobra/io/dict.py> "<old text>" "<new text>" <run_contract.py arguments...>
# Copies /repo/src to a scratch tree, replaces the first occurrence of <old text> in the file, runs the contracts against the
# mutated tree (they should NOT all be discharged), removes the scratch tree.
set -u
F="$1"; OLD="$2"; NEW="$3"; shift 3
T="/var/tmp/verif_mutsrc_$$"; rm -rf "$T"; mkdir -p "$T"; cp -r /repo/src "$T/src"
trap 'rm -rf "$T"' EXIT INT TERM
/venv/bin/python - "$T/src/$F" "$OLD" "$NEW" <<'PY' || exit 3
import sys
p, old, new = sys.argv[1:4]
s = open(p).read()
assert old in s, "pattern not found in " + p
open(p, "w").write(s.replace(old, new, 1))
PY
cd "$(dirname "$0")/.."
VERIF_REPO="$T" PYTHONPATH="$T/src" PYVC_Z3_TIMEOUT_MS="${PYVC_Z3_TIMEOUT_MS:-10000}" PYVC_CVC5_TIMEOUT_S="${PYVC_CVC5_TIMEOUT_S:-10}" \
  .venv/bin/python tools/run_contract.py "$@" 2>&1 | grep -v "^WARNING" | cut -c1-240 | head -20
