#!/bin/sh
# Run the repository's pinned baseline (command from /root/.vp/BASELINE.json) with the guard OFF and compare the
# passing set with BASELINE.json's stable_pass list.  Exit 0 iff every stable test still passes.
unset COBRAPY_VERIF
OUT=$(mktemp -d /var/tmp/cobra_baseline.XXXXXX)
cd /repo && /venv/bin/python -m pytest -ra -q -p no:cacheprovider --timeout=900 --continue-on-collection-errors \
    --junitxml="$OUT/junit.xml" > "$OUT/log.txt" 2>&1
/venv/bin/python - "$OUT/junit.xml" <<'PY'
import json, sys, xml.etree.ElementTree as ET
base = json.load(open('/root/.vp/BASELINE.json'))
stable = set(base['stable_pass'])
root = ET.parse(sys.argv[1]).getroot()
passed = set()
for tc in root.iter('testcase'):
    name = f"{tc.get('classname')}::{tc.get('name')}"
    if not any(ch.tag in ('failure', 'error', 'skipped') for ch in tc):
        passed.add(name)
missing = sorted(stable - passed)
print(f"stable={len(stable)} passed_now={len(passed)} stable_missing={len(missing)}")
for m in missing[:40]:
    print("  NOT PASSING:", m)
sys.exit(1 if missing else 0)
PY
rc=$?
rm -rf "$OUT"
exit $rc
