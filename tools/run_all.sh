#!/bin/sh
# run every registered quick (or $TIER) check on /repo and print one summary line each
cd "$(dirname "$0")/.."
for id in ${IDS:-C01 C02 C03 C04 C05 C06 C07 C08 C09 C10 C11 C12 C13 C14 C15 C16 C17 C18 C19 C20}; do
  out=$(./check "$id" --tier "${TIER:-quick}" 2>&1); rc=$?
  echo "$out" | grep -v "^WARNING" | grep -E "^\[$id\]" | sed "s/^/rc=$rc /"
  echo "$out" | grep -E "VIOLATION|UNDECIDED|CHECKER-ERROR" | head -6
done
