"""Native cross-check of the SPECIFICATIONS and ASSUMED contracts of contracts/c08_visitors.py against /repo (run with /venv/bin/python).

Random parsed rule trees x target sets x all absent-gene sets:
  * _GeneRemover.visit: None only if the old rule is False with the targets absent, else same value as the old rule with them absent
    (this exercises ast.NodeTransformer.generic_visit, the assumed contract of the proof);
  * GPR.genes / GPRWalker: exactly the Name identifiers of the tree;
  * as_symbolic: the sympy expression has the rule's truth table under the ASSUMED meaning of Symbol / Or / And and the assumed
    accessors func / args / name; from_symbolic(as_symbolic(g)) and g.copy() have the same truth table; g == h only for equivalent rules;
  * the boundary of the tree precondition: a hand-built DAG (one node used twice) makes _GeneRemover return a wrong rule.
"""
import ast, itertools, random, copy
from cobra.core.gene import GPR, GPRWalker
from cobra.manipulation.delete import _GeneRemover
random.seed(1)
G = ["a", "b", "c", "d"]
def rnd(depth):
    if depth == 0 or random.random() < 0.35:
        return random.choice(G)
    op = random.choice([" and ", " or "])
    return "(" + op.join(rnd(depth - 1) for _ in range(random.randint(2, 3))) + ")"
def sem(node, K):
    if isinstance(node, ast.Name): return node.id not in K
    vals = [sem(v, K) for v in node.values]
    return any(vals) if isinstance(node.op, ast.Or) else all(vals)
def names(node):
    if isinstance(node, ast.Name): return {node.id}
    return set().union(*[names(v) for v in node.values])
bad = 0
for t in range(3000):
    g = GPR.from_string(rnd(3))
    body0 = copy.deepcopy(g.body)
    assert g.genes == frozenset(names(body0)), (g.to_string(), g.genes)
    w = GPRWalker(); w.visit(g); assert w.gene_set == names(body0)
    for r in range(0, 3):
        for S in itertools.combinations(G, r):
            b = copy.deepcopy(body0)
            res = _GeneRemover(set(S)).visit(b)
            for k in range(len(G) + 1):
                for K in itertools.combinations(G, k):
                    old = sem(body0, set(K) | set(S))
                    if res is None:
                        ok = (old is False)
                    else:
                        ok = sem(res, set(K)) == old
                    if not ok:
                        bad += 1
                        print("VIOLATION", ast.unparse(body0), S, K, None if res is None else ast.unparse(res))
print("remover / walker: deviations:", bad)

# ---------------------------------------------------------------- symbolic form, copy, ==
import sympy
from sympy import Symbol
import sympy.logic.boolalg as spl
from cobra.core.gene import GPR
random.seed(2)
G = ["a", "b", "c", "d"]
def rnd(depth):
    if depth == 0 or random.random() < 0.35:
        return random.choice(G)
    op = random.choice([" and ", " or "])
    return "(" + op.join(rnd(depth - 1) for _ in range(random.randint(2, 3))) + ")"
def symsem(e, K):
    if isinstance(e, Symbol): return e.name not in K
    if e.func is spl.Or: return any(symsem(a, K) for a in e.args)
    if e.func is spl.And: return all(symsem(a, K) for a in e.args)
    raise TypeError(e)
bad = 0
for t in range(2000):
    g = GPR.from_string(rnd(3))
    e = g.as_symbolic()
    g2 = GPR.from_symbolic(e)
    c = g.copy()
    assert c is not g and c.genes == g.genes and (c == g)
    for k in range(len(G) + 1):
        for K in itertools.combinations(G, k):
            v = g.eval(set(K))
            if symsem(e, set(K)) != v or g2.eval(set(K)) != v or c.eval(set(K)) != v:
                bad += 1; print("DEVIATION", g.to_string(), e, K)
    # == only for equivalent rules
    h = GPR.from_string(rnd(2))
    if g == h:
        for k in range(len(G) + 1):
            for K in itertools.combinations(G, k):
                if g.eval(set(K)) != h.eval(set(K)):
                    bad += 1; print("EQ-DEVIATION", g.to_string(), "|", h.to_string(), K)
print("empty:", GPR().as_symbolic() == Symbol(""), GPR.from_symbolic(Symbol("")).body)
print("symbolic / copy / ==: deviations:", bad)

# ---------------------------------------------------------------- outside the precondition: a DAG
from ast import BoolOp, And, Or, Name, Expression
from cobra.core.gene import GPR
from cobra.manipulation.delete import _GeneRemover
x = BoolOp(And(), [Name(id="a"), Name(id="b")])
g = GPR(Expression(BoolOp(Or(), [x, x])))       # deepcopy keeps the sharing: a DAG
print("rule:", g.to_string(), "| shared child:", g.body.values[0] is g.body.values[1], "| eval with a absent:", g.eval({"a"}))
res = _GeneRemover({"a"}).visit(g.body)
print("after removing a:", None if res is None else ast.unparse(res))
