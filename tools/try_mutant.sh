#!/bin/sh
# tools/try_mutant.sh <patch.diff> <ID> [<ID> ...]
# Applies a seeded change to a scratch worktree of /repo (outside /repo and /verif), runs the named checks against it
# (VERIF_REPO points source reader and imported cobra at the scratch tree), prints their verdict lines, removes the worktree.
# Evidence files written by these runs describe the MUTATED tree: re-run the checks on /repo before committing evidence.
set -u
PATCH="$(readlink -f "$1")"; shift
WT="/var/tmp/verif_mut_$$"
git -C /repo worktree add -q --detach "$WT" HEAD || exit 3
cleanup() { git -C /repo worktree remove --force "$WT" >/dev/null 2>&1; rm -rf "$WT"; }
trap cleanup EXIT INT TERM
if ! git -C "$WT" apply "$PATCH"; then echo "patch does not apply"; exit 3; fi
cd "$(dirname "$0")/.."
rc=0
for id in "$@"; do
  echo "=== $id on mutated tree ($PATCH)"
  VERIF_REPO="$WT" ./check "$id" --tier "${TIER:-quick}" 2>&1 | grep -v "^WARNING" | grep -E "^\[|VIOLATION|KNOWN-FINDING|UNDECIDED|CHECKER-ERROR" | head -12
done
