"""Development runner: discharge the obligations of some contracts and print what is not `unsat`.

  .venv/bin/python tools/run_contract.py <contracts module, e.g. contracts.c18_medium> [--hooks HOOKS_ATTR] <contract key> ...
  VERIF_REPO=<scratch tree with src/>  makes the source reader use that tree (use with PYTHONPATH=<tree>/src for imports)
  PYVC_Z3_TIMEOUT_MS / PYVC_CVC5_TIMEOUT_S size the solver budgets.
"""
import importlib
import os
import sys
sys.path.insert(0, os.path.dirname(os.path.dirname(os.path.abspath(__file__))))
args = sys.argv[1:]
mod = importlib.import_module(args.pop(0))
hooks = None
if args and args[0] == "--hooks":
    args.pop(0)
    hooks = getattr(mod, args.pop(0))
from contracts.common import REG  # noqa
from pyvc.run import run_contracts  # noqa
res = run_contracts(REG, [REG.get(k) for k in args], hooks=hooks)
bad_total = 0
for r in sorted(res, key=lambda r: (r["contract"], r["case"])):
    bad = [x for x in r["records"] if x["result"] != "unsat"]
    bad_total += len(bad) + (1 if (r["unsupported"] or r["error"]) else 0)
    print(r["contract"], r["case"], "paths", r["paths"], "obls", len(r["records"]), "gen %.1f" % r["gen_s"], (r["unsupported"] or r["error"] or "")[:800])
    for x in bad[:15]:
        print("    ", x["result"], x["backend"], x["seconds"], x["name"][-90:], x["info"][:300])
    if os.environ.get("PYVC_SHOW_SLOW"):       # the slowest discharged obligations (stability work: > 5 s is a candidate for a split)
        for x in sorted(r["records"], key=lambda x: -(x["seconds"] or 0))[:int(os.environ["PYVC_SHOW_SLOW"])]:
            if (x["seconds"] or 0) >= 1.0:
                print("     slow", x["result"], x["backend"], x["seconds"], x["name"][-110:])
sys.exit(1 if bad_total else 0)
