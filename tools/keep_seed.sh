#!/bin/sh
# tools/keep_seed.sh <dir with patch.diff demo.py meta.json> <seed name> <ID> [<ID>...]
# Confirms a seeded change in a fresh scratch worktree of /repo HEAD (patch applies, demo exits 0 without and 1 with the change,
# the test directories of the touched packages still pass), runs the named checks against the mutated tree, and stores
# patch, demo, meta (+ what was run and the verdicts) under /verif/seeded/<seed name>/.  The worktree is removed afterwards.
set -u
SRC="$(readlink -f "$1")"; NAME="$2"; shift 2
VER="$(cd "$(dirname "$0")/.." && pwd)"
WT="/var/tmp/verif_seed_$$"
git -C /repo worktree add -q --detach "$WT" HEAD || exit 3
cleanup() { git -C /repo worktree remove --force "$WT" >/dev/null 2>&1; rm -rf "$WT"; }
trap cleanup EXIT INT TERM
run_demo() { (cd "$WT" && PYTHONPATH="$WT/src" timeout 900 /venv/bin/python -W ignore "$SRC/demo.py" >/dev/null 2>&1; echo $?); }
D0=$(run_demo)
if ! git -C "$WT" apply "$SRC/patch.diff" 2>/dev/null; then
  if ! git -C "$WT" apply -3 "$SRC/patch.diff" 2>/dev/null; then echo "SEED $NAME: patch does not apply to HEAD"; exit 4; fi
fi
git -C "$WT" diff > "$WT/.applied.diff"
D1=$(run_demo)
echo "SEED $NAME: demo unmodified exit=$D0 modified exit=$D1"
TESTDIRS=$(grep '^+++ b/src/cobra/' "$WT/.applied.diff" | sed 's#^+++ b/src/cobra/\([a-z_]*\)/.*#tests/test_\1#' | sort -u | tr '\n' ' ')
TESTS=$( (cd "$WT" && PYTHONPATH="$WT/src" timeout 3000 /venv/bin/python -W ignore -m pytest -q -p no:cacheprovider --timeout=900 --benchmark-disable $TESTDIRS --deselect tests/test_io/test_web 2>&1 | grep -E "passed|failed|error" | tail -1) )
echo "SEED $NAME: tests ($TESTDIRS): $TESTS"
mkdir -p "$VER/seeded/$NAME"
cp "$WT/.applied.diff" "$VER/seeded/$NAME/patch.diff"; cp "$SRC/demo.py" "$VER/seeded/$NAME/demo.py"
VERD=""
cd "$VER"
HEADSHA=$(git -C /repo rev-parse --short HEAD)
mkdir -p /var/tmp/verif_headruns
whats() { # stdin: check output; prints one line per violation: what (+ witness)
  grep "^VIOLATION" | sed 's/.*replay=\([^ ]*\).*/\1/' | while read f; do /venv/bin/python -c "
import json,sys
d=json.load(open('$f')); fi=d.get('failing_input') or {}
print(((d.get('what') or '')+' @ '+str(fi.get('witness') or ''))[:400].replace('|','!'))" 2>/dev/null; done | sort -u; }
for id in "$@"; do
  HF="/var/tmp/verif_headruns/${HEADSHA}_${id}_${TIER:-quick}.txt"
  if [ ! -f "$HF" ]; then ./check "$id" --tier "${TIER:-quick}" 2>&1 | whats > "$HF.tmp"; mv "$HF.tmp" "$HF"; fi
  out=$(VERIF_REPO="$WT" ./check "$id" --tier "${TIER:-quick}" 2>&1 | grep -v "^WARNING");
  line=$(echo "$out" | grep -E "^\[$id\]")
  echo "$out" | whats > "$WT/.whats"
  new=$(grep -vxF -f "$HF" "$WT/.whats" 2>/dev/null || true); [ -s "$HF" ] || new=$(cat "$WT/.whats")
  nv=$(echo "$new" | grep -c . ); first=$(echo "$new" | head -1)
  echo "SEED $NAME: $line"
  echo "SEED $NAME:   violations not reported on unmodified HEAD ($HEADSHA): $nv; first: $first"
  what="$first"
  VERD="$VERD$id|$nv|$line|$what
"
done
/venv/bin/python - "$SRC/meta.json" "$VER/seeded/$NAME/meta.json" "$D0" "$D1" "$TESTDIRS" "$TESTS" "$VERD" <<'PY'
import json, sys
src, dst, d0, d1, tdirs, tests, verd = sys.argv[1:8]
try:
    m = json.load(open(src))
except Exception:
    m = {}
m["confirmed_by_builder"] = {"base": "HEAD of /repo at confirmation time", "demo_unmodified_exit": int(d0), "demo_modified_exit": int(d1),
                             "tests_run": f"pytest {tdirs} (scratch worktree with the change applied)", "tests_result": tests}
checks = []
for line in verd.strip().splitlines():
    i, nv, summary, what = (line.split("|") + ["", "", "", ""])[:4]
    checks.append({"check": i, "violations_reported": int(nv or 0), "summary": summary, "first_violation": what})
m["checks_run_against_it"] = checks
m["detected"] = any(c["violations_reported"] > 0 for c in checks)
json.dump(m, open(dst, "w"), indent=1)
PY
