"""Regenerate the witness-level `open` entries of known_findings.jsonl from bcc/drivers/KNOWN_Cxx.json.

KNOWN_Cxx.json is written by the bounded drivers' authors from runs on the unchanged /repo: {"quick": {class: [witness, ...]},
"thorough": {...}} (or the flat {class: [...]} form).  known_findings.jsonl is never written at check time; this tool is run by
hand when a driver or /repo changes, and its result is committed.  Descriptions per class live in tools/known_descriptions.json.
"""
import glob
import json
import os

ROOT = os.path.dirname(os.path.dirname(os.path.abspath(__file__)))
KF = os.path.join(ROOT, "known_findings.jsonl")
DESC = json.load(open(os.path.join(ROOT, "tools", "known_descriptions.json")))
keep = []
for line in open(KF):
    s = line.strip()
    if not s or s.startswith("#"):
        keep.append(line.rstrip("\n"))
        continue
    e = json.loads(s)
    if e.get("source", "").startswith("KNOWN_"):
        continue
    keep.append(json.dumps(e))
new = []
for path in sorted(glob.glob(os.path.join(ROOT, "bcc", "drivers", "KNOWN_C*.json"))):
    pid = os.path.basename(path)[6:9]
    d = json.load(open(path))
    tiers = d if set(d) <= {"quick", "thorough"} else {"quick": d, "thorough": d}
    classes = {}
    for tier in ("quick", "thorough"):
        for cls, wits in (tiers.get(tier) or {}).items():
            classes.setdefault(cls, [])
            for w in wits:
                if w not in classes[cls]:
                    classes[cls].append(w)
    for cls, wits in sorted(classes.items()):
        if not wits:
            continue
        what = DESC.get(pid, {}).get(cls) or DESC.get(pid, {}).get(cls.split("+")[0]) or f"open finding class {cls} (see bcc/drivers/NOTES_{pid}.md)"
        new.append(json.dumps({"property": pid, "status": "open", "witness_class": cls, "witnesses": wits, "what": what,
                               "source": os.path.basename(path)}))
open(KF, "w").write("\n".join(keep + new) + "\n")
print("kept", len(keep), "entries; regenerated", len(new), "witness-level entries")
