FIX_COMMITS = ["0c5ef98", "6eceb45", "771ea97", "b33197f", "16bfcfb", "57471be"]
CHECKS = {
    "C15": {
        "level": "proof",
        "text": "Every DictList operation under contract (append, insert, extend, +=, add, union, int item assignment/deletion with "
                "any index, pop, remove, sort, reverse, copy, +, construction, index rebuilding, look-ups) is proved, for lists of any "
                "length, any index and any identifiers, to re-establish the representation invariant (element found by id at its "
                "position, index()/membership agree, ids unique), to produce exactly the specified new sequence, and to leave list and "
                "index unchanged when it raises. Obligations are regenerated from /repo's source on every run.",
        "note": "Trusted: CPython list/dict semantics as axiomatised (cross-checked natively), z3/cvc5, the pyvc executor. Operations "
                "outside the deductive subset (extended slices, masks, query, get_by_any, pickle, -, -=) are covered only by the "
                "bounded exhaustive histories (depth 2 quick / 3 thorough) and are not counted as proved.",
        "technique": "contract-based deductive verification (own AST->VC generator, z3/cvc5) + bounded contract checking",
    },
}
_PENDING = "check under construction in this session; will be claimed once its obligations are generated from the real source"
NOT_APPLICABLE = {p: _PENDING for p in ["C%02d" % i for i in range(1, 21)] if p not in CHECKS}
